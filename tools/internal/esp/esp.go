// Package esp is a finite-domain, disjunctive dataflow analysis ("property simulation") over go/ssa:
// the dataflow fact at a program point is a set of configurations, each a valuation of tracked
// constant-valued struct fields and constant-carrying φ-nodes, a valuation of named guard atoms, and the set
// of action labels executed so far.  Branches on tracked values filter configurations; branches on named
// atoms split them; other branches pass them to both successors.  Same-receiver calls are summarised per
// input configuration.  The result for an entry function and an initial configuration is the set of
// configurations at its returns: an over-approximation of the transition relation.
package esp

import (
	"fmt"
	"go/constant"
	"go/token"
	"go/types"
	"sort"
	"strings"

	"golang.org/x/tools/go/ssa"
)

// Top marks an unknown value.
const Top = "⊤"

// Config is one abstract configuration.
type Config struct {
	Fields map[string]string    // tracked field -> constant (exact string) or Top
	Atoms  map[string]bool      // named guard atoms currently decided (dropped when a field they read is written)
	Hist   map[string]bool      // every atom decided on this path (first decision), kept for labelling the result
	alias  map[string]ssa.Value // tracked field -> the (unresolved) SSA value last stored into it
	Acts   map[string]bool      // action labels executed
	locals map[ssa.Value]string
	phiSrc map[*ssa.Phi]ssa.Value // nil-or-value φs: the non-nil incoming value on this path
}

func (c *Config) clone() *Config {
	n := &Config{Fields: map[string]string{}, Atoms: map[string]bool{}, Hist: map[string]bool{}, Acts: map[string]bool{}, locals: map[ssa.Value]string{}, alias: map[string]ssa.Value{}}
	for k, v := range c.Fields {
		n.Fields[k] = v
	}
	for k, v := range c.alias {
		n.alias[k] = v
	}
	for k, v := range c.Hist {
		n.Hist[k] = v
	}
	for k, v := range c.Atoms {
		n.Atoms[k] = v
	}
	for k, v := range c.Acts {
		n.Acts[k] = v
	}
	for k, v := range c.phiSrc {
		if n.phiSrc == nil {
			n.phiSrc = map[*ssa.Phi]ssa.Value{}
		}
		n.phiSrc[k] = v
	}
	for k, v := range c.locals {
		n.locals[k] = v
	}
	return n
}

// Key is a canonical rendering (without function-local values).
func (c *Config) Key() string {
	var parts []string
	for k, v := range c.Fields {
		parts = append(parts, "f:"+k+"="+v)
	}
	for k, v := range c.Atoms {
		parts = append(parts, fmt.Sprintf("a:%s=%v", k, v))
	}
	for k, v := range c.Hist {
		parts = append(parts, fmt.Sprintf("h:%s=%v", k, v))
	}
	for k := range c.Acts {
		parts = append(parts, "x:"+k)
	}
	sort.Strings(parts)
	return strings.Join(parts, ";")
}

func (c *Config) fullKey() string {
	var parts []string
	for k, v := range c.locals {
		parts = append(parts, fmt.Sprintf("l:%s=%s", k.Name(), v))
	}
	for k, v := range c.phiSrc {
		parts = append(parts, fmt.Sprintf("p:%s=%s", k.Name(), v.Name()))
	}
	sort.Strings(parts)
	return c.Key() + "|" + strings.Join(parts, ";")
}

// ActList returns the sorted action labels.
func (c *Config) ActList() []string {
	var out []string
	for k := range c.Acts {
		out = append(out, k)
	}
	sort.Strings(out)
	return out
}

// AtomList renders the decided atoms, sorted.
func (c *Config) AtomList() []string {
	var out []string
	for k, v := range c.Hist {
		if v {
			out = append(out, k)
		} else {
			out = append(out, "!"+k)
		}
	}
	sort.Strings(out)
	return out
}

// Spec parameterises the analysis for one receiver type.
type Spec struct {
	Recv   *types.Named    // struct type whose fields are tracked
	Fields map[string]bool // names of tracked fields
	// Atom names a branch condition worth recording (position-free), with the receiver fields it reads.
	Atom func(cond ssa.Value) (name string, fields []string, ok bool)
	// Action labels a call ("" = none).  Called for every call instruction, before inlining; resolve evaluates a
	// value to a constant under the current configuration (or Top).
	Action func(call ssa.CallInstruction, resolve func(ssa.Value) string) string
	// MultiAction, when set, labels a call with any number of actions (also consulted for go and defer statements).
	MultiAction func(call ssa.CallInstruction) []string
	// InstrAction, when set, labels non-call instructions (map updates, stores, ...).
	InstrAction func(in ssa.Instruction) []string
	// Inline reports whether a statically resolved callee is analysed (summarised) rather than treated as opaque.
	Inline func(callee *ssa.Function) bool
	// OpaqueClobbers: an opaque call that is handed the receiver may change tracked fields to Top.
	OpaqueClobbers bool

	memo  map[string][]*Config
	busy  map[string]bool
	Steps int
}

// ConstName renders a constant as its value string; used for comparison with config values.
func constStr(c *ssa.Const) (string, bool) {
	if c.Value == nil {
		return "nil", true
	}
	switch c.Value.Kind() {
	case constant.Int, constant.Bool, constant.String:
		return c.Value.ExactString(), true
	}
	return "", false
}

func (s *Spec) isRecvPtr(t types.Type) bool {
	p, ok := t.Underlying().(*types.Pointer)
	if !ok {
		return false
	}
	n, ok := p.Elem().(*types.Named)
	return ok && n.Obj() == s.Recv.Obj()
}

// trackedField returns the tracked field name an address denotes ("" if none) and whether it is any field of the receiver.
func (s *Spec) fieldOfAddr(addr ssa.Value) (name string, tracked bool, isRecvField bool) {
	fa, ok := addr.(*ssa.FieldAddr)
	if !ok || !s.isRecvPtr(fa.X.Type()) {
		return "", false, false
	}
	st := s.Recv.Underlying().(*types.Struct)
	name = st.Field(fa.Field).Name()
	return name, s.Fields[name], true
}

// resolve evaluates v to a constant string under config c, or Top.
func (s *Spec) resolve(c *Config, v ssa.Value) string {
	switch x := v.(type) {
	case *ssa.Const:
		if k, ok := constStr(x); ok {
			return k
		}
	case *ssa.Phi:
		if k, ok := c.locals[x]; ok {
			return k
		}
	case *ssa.Parameter:
		if k, ok := c.locals[x]; ok {
			return k
		}
	case *ssa.Call:
		if k, ok := c.locals[x]; ok {
			return k
		}
		if f := x.Call.StaticCallee(); f != nil && f.Pkg != nil {
			if n := f.Pkg.Pkg.Path() + "." + f.Name(); n == "fmt.Errorf" || n == "errors.New" {
				return "nonnil"
			}
		}
	case *ssa.MakeInterface:
		return s.resolve(c, x.X)
	case *ssa.ChangeType:
		return s.resolve(c, x.X)
	case *ssa.Convert:
		return s.resolve(c, x.X)
	case *ssa.UnOp:
		if x.Op == token.MUL {
			if k, ok := c.locals[x]; ok {
				return k
			}
			if al, ok := x.X.(*ssa.Alloc); ok { // spilled local (e.g. results of a function with defers)
				if k, ok := c.locals[al]; ok {
					return k
				}
				return Top
			}
			if name, tracked, _ := s.fieldOfAddr(x.X); tracked {
				if k, ok := c.Fields[name]; ok {
					return k
				}
			}
		}
		if x.Op == token.NOT {
			switch s.resolve(c, x.X) {
			case "true":
				return "false"
			case "false":
				return "true"
			}
		}
	case *ssa.BinOp:
		if x.Op == token.EQL || x.Op == token.NEQ {
			a, b := s.resolve(c, x.X), s.resolve(c, x.Y)
			if a != Top && b != Top {
				if (a == b) == (x.Op == token.EQL) {
					return "true"
				}
				return "false"
			}
		}
	}
	return Top
}

// Run analyses entry from the initial configuration (Fields set by the caller) and returns the configurations at its returns.
func (s *Spec) Run(entry *ssa.Function, init map[string]string) []*Config {
	if s.memo == nil {
		s.memo = map[string][]*Config{}
		s.busy = map[string]bool{}
	}
	c := &Config{Fields: map[string]string{}, Atoms: map[string]bool{}, Hist: map[string]bool{}, Acts: map[string]bool{}, locals: map[ssa.Value]string{}, alias: map[string]ssa.Value{}}
	for k, v := range init {
		c.Fields[k] = v
	}
	outs := s.summary(entry, c, nil)
	var res []*Config
	seen := map[string]bool{}
	for _, o := range outs {
		n := o.clone()
		delete(n.Fields, "$ret")
		if k := n.Key(); !seen[k] {
			seen[k] = true
			res = append(res, n)
		}
	}
	return res
}

func (s *Spec) summary(f *ssa.Function, in *Config, params map[*ssa.Parameter]string) []*Config {
	in = in.clone()
	in.locals = map[ssa.Value]string{}
	for p, v := range params {
		in.locals[p] = v
	}
	key := f.String() + "#" + in.fullKey()
	if r, ok := s.memo[key]; ok {
		return r
	}
	if s.busy[key] || len(f.Blocks) == 0 {
		return []*Config{in} // recursion / no body: identity
	}
	s.busy[key] = true
	defer delete(s.busy, key)

	outs := map[string]*Config{}
	seen := map[string]bool{}
	type item struct {
		b    *ssa.BasicBlock
		from *ssa.BasicBlock
		c    *Config
	}
	work := []item{{f.Blocks[0], nil, in}}
	for len(work) > 0 {
		it := work[len(work)-1]
		work = work[:len(work)-1]
		c := it.c
		// φ transfer (parallel assignment) for the edge from→b
		if it.from != nil {
			idx := -1
			for i, p := range it.b.Preds {
				if p == it.from {
					idx = i
				}
			}
			vals := map[*ssa.Phi]string{}
			srcs := map[*ssa.Phi]ssa.Value{}
			for _, in := range it.b.Instrs {
				phi, ok := in.(*ssa.Phi)
				if !ok {
					break
				}
				if idx >= 0 && trackablePhi(phi) {
					vals[phi] = s.resolve(c, phi.Edges[idx])
					// a boolean φ (`t := a || b; if t`) stands for its incoming condition on this path
					if b, isB := phi.Type().Underlying().(*types.Basic); isB && b.Info()&types.IsBoolean != 0 && vals[phi] == Top {
						if _, isK := phi.Edges[idx].(*ssa.Const); !isK {
							srcs[phi] = phi.Edges[idx]
						}
					}
				}
				if idx >= 0 && nilOrValuePhi(phi) {
					if k, isK := phi.Edges[idx].(*ssa.Const); isK && k.IsNil() {
						vals[phi] = "nil"
					} else {
						vals[phi] = Top
						srcs[phi] = phi.Edges[idx]
					}
				}
			}
			if len(vals) > 0 {
				c = c.clone()
				for p := range vals {
					delete(c.phiSrc, p)
				}
				for p, v := range srcs {
					if c.phiSrc == nil {
						c.phiSrc = map[*ssa.Phi]ssa.Value{}
					}
					c.phiSrc[p] = v
				}
				for p, v := range vals {
					if v == Top {
						delete(c.locals, p)
					} else {
						c.locals[p] = v
					}
				}
			}
		}
		k := fmt.Sprintf("%d|%s", it.b.Index, c.fullKey())
		if seen[k] {
			continue
		}
		seen[k] = true
		s.Steps++
		if s.Steps > 2_000_000 {
			panic("esp: step budget exceeded")
		}
		// execute the block; calls may split the configuration
		cur := []*Config{c}
		for _, in := range it.b.Instrs {
			var next []*Config
			for _, cc := range cur {
				next = append(next, s.step(in, cc)...)
			}
			cur = next
		}
		last := it.b.Instrs[len(it.b.Instrs)-1]
		for _, cc := range cur {
			switch t := last.(type) {
			case *ssa.Return:
				o := cc.clone()
				if len(t.Results) > 0 {
					o.Fields["$ret"] = s.resolve(cc, t.Results[0])
				}
				o.locals = map[ssa.Value]string{}
				o.alias = map[string]ssa.Value{}
				outs[o.Key()] = o
			case *ssa.If:
				tb, fb := it.b.Succs[0], it.b.Succs[1]
				switch s.resolve(cc, t.Cond) {
				case "true":
					work = append(work, item{tb, it.b, cc})
				case "false":
					work = append(work, item{fb, it.b, cc})
				default:
					ct, cf := s.refine(cc, t.Cond)
					if ct != nil {
						work = append(work, item{tb, it.b, ct})
					}
					if cf != nil {
						work = append(work, item{fb, it.b, cf})
					}
				}
			case *ssa.Jump:
				work = append(work, item{it.b.Succs[0], it.b, cc})
			case *ssa.Panic:
			default:
				for _, sc := range it.b.Succs {
					work = append(work, item{sc, it.b, cc})
				}
			}
		}
	}
	var res []*Config
	var keys []string
	for k := range outs {
		keys = append(keys, k)
	}
	sort.Strings(keys)
	for _, k := range keys {
		res = append(res, outs[k])
	}
	s.memo[key] = res
	return res
}

func trackablePhi(p *ssa.Phi) bool {
	switch t := p.Type().Underlying().(type) {
	case *types.Basic:
		if t.Info()&(types.IsInteger|types.IsBoolean|types.IsString) == 0 {
			return false
		}
	default:
		return false
	}
	for _, e := range p.Edges {
		if _, ok := e.(*ssa.Const); ok {
			return true
		}
	}
	return false
}

// nilOrValuePhi: a pointer/interface φ with at least one literal nil edge (`var err error; if f != nil { err = f() }`).
// On the nil edge the φ is the constant nil; on the other edges it stands for the incoming value, so that a later
// test of the φ is named (and decided) like a test of that value.
func nilOrValuePhi(p *ssa.Phi) bool {
	switch p.Type().Underlying().(type) {
	case *types.Pointer, *types.Interface:
	default:
		return false
	}
	for _, e := range p.Edges {
		if k, ok := e.(*ssa.Const); ok && k.IsNil() {
			return true
		}
	}
	return false
}

// refine splits c on an undecided condition: comparisons of a tracked value with a constant filter/assign;
// named atoms are recorded; anything else passes c unchanged to both sides.
func (s *Spec) refine(c *Config, cond ssa.Value) (t, f *Config) {
	pol := true
	for {
		u, ok := cond.(*ssa.UnOp)
		if !ok || u.Op != token.NOT {
			break
		}
		cond, pol = u.X, !pol
	}
	swap := func(a, b *Config) (*Config, *Config) {
		if pol {
			return a, b
		}
		return b, a
	}
	if b, ok := cond.(*ssa.BinOp); ok && (b.Op == token.EQL || b.Op == token.NEQ) {
		// tracked == const with tracked currently Top: assume the constant on the equal side
		x, y := b.X, b.Y
		if _, isC := x.(*ssa.Const); isC {
			x, y = y, x
		}
		if kc, isC := y.(*ssa.Const); isC {
			if k, ok := constStr(kc); ok {
				if set := s.assigner(c, x); set != nil {
					eq := c.clone()
					set(eq, k)
					ne := c
					if b.Op == token.EQL {
						return swap(eq, ne)
					}
					return swap(ne, eq)
				}
			}
		}
	}
	// a bare boolean that is a tracked φ (or the value a tracked field was last stored from): pin it on both sides
	if set := s.assigner(c, cond); set != nil && s.feedsTrackedField(c, cond) {
		ct, cf := c.clone(), c.clone()
		set(ct, "true")
		set(cf, "false")
		return swap(ct, cf)
	}
	for i := 0; i < 4; i++ {
		phi, isPhi := cond.(*ssa.Phi)
		if !isPhi || c.phiSrc[phi] == nil {
			break
		}
		if _, tracked := c.locals[phi]; tracked {
			break
		}
		cond = c.phiSrc[phi]
		for {
			u, ok := cond.(*ssa.UnOp)
			if !ok || u.Op != token.NOT {
				break
			}
			cond, pol = u.X, !pol
		}
	}
	if s.Atom != nil {
		if b, isB := cond.(*ssa.BinOp); isB && len(c.phiSrc) > 0 {
			if phi, isPhi := b.X.(*ssa.Phi); isPhi && c.phiSrc[phi] != nil {
				nb := *b
				nb.X = c.phiSrc[phi]
				cond = &nb
			}
		}
		if name, _, ok := s.Atom(cond); ok {
			// a name starting with "!" is the negation of the canonical atom (two spellings of one test share a name)
			if strings.HasPrefix(name, "!") {
				name, pol = name[1:], !pol
			}
			if v, known := c.Atoms[name]; known {
				if v == pol {
					return c, nil
				}
				return nil, c
			}
			ct, cf := c.clone(), c.clone()
			ct.Atoms[name] = true
			cf.Atoms[name] = false
			if _, was := c.Hist[name]; !was {
				ct.Hist[name] = true
				cf.Hist[name] = false
			}
			return swap(ct, cf)
		}
	}
	return c, c
}

// feedsTrackedField: the boolean value is what a tracked field was (or will be) stored from.
func (s *Spec) feedsTrackedField(c *Config, v ssa.Value) bool {
	if len(s.Fields) == 0 {
		return false
	}
	for _, src := range c.alias {
		if src == v {
			return true
		}
	}
	if refs := v.Referrers(); refs != nil {
		for _, r := range *refs {
			if st, ok := r.(*ssa.Store); ok && st.Val == v {
				if _, tracked, _ := s.fieldOfAddr(st.Addr); tracked {
					return true
				}
			}
		}
	}
	return false
}

// assigner returns a setter when v denotes a tracked field load or a tracked φ (so that an equality test can pin it).
func (s *Spec) assigner(c *Config, v ssa.Value) func(*Config, string) {
	switch x := v.(type) {
	case *ssa.UnOp:
		if x.Op == token.MUL {
			if _, tracked, _ := s.fieldOfAddr(x.X); tracked {
				return func(c *Config, k string) { c.locals[x] = k }
			}
		}
	case *ssa.Phi:
		if trackablePhi(x) {
			return func(c *Config, k string) {
				c.locals[x] = k
				for f, src := range c.alias {
					if src == ssa.Value(x) {
						c.Fields[f] = k
						delete(c.alias, f)
					}
				}
			}
		}
	case *ssa.ChangeType:
		return s.assigner(c, x.X)
	case *ssa.Convert:
		return s.assigner(c, x.X)
	}
	return nil
}

// step executes one non-terminator instruction.
func (s *Spec) step(in ssa.Instruction, c *Config) []*Config {
	if s.InstrAction != nil {
		if _, isCall := in.(ssa.CallInstruction); !isCall {
			if ls := s.InstrAction(in); len(ls) > 0 {
				c = c.clone()
				for _, a := range ls {
					c.Acts[a] = true
				}
			}
		}
	}
	switch x := in.(type) {
	case *ssa.UnOp:
		// remember the value a tracked-field load had at this point (later stores must not change it retroactively)
		if x.Op == token.MUL {
			if name, tracked, _ := s.fieldOfAddr(x.X); tracked {
				k, ok := c.Fields[name]
				if !ok {
					k = Top
				}
				c = c.clone()
				c.locals[x] = k
			}
		}
	case *ssa.Store:
		if al, ok := x.Addr.(*ssa.Alloc); ok {
			v := s.resolve(c, x.Val)
			c = c.clone()
			if v == Top {
				delete(c.locals, al)
			} else {
				c.locals[al] = v
			}
			return []*Config{c}
		}
		name, tracked, isRecv := s.fieldOfAddr(x.Addr)
		if !isRecv {
			return []*Config{c}
		}
		c = c.clone()
		if tracked {
			c.Fields[name] = s.resolve(c, x.Val)
			c.Acts["set:"+name] = true
			if c.Fields[name] == Top {
				c.alias[name] = x.Val
			} else {
				delete(c.alias, name)
			}
		}
		s.invalidate(c, name)
		return []*Config{c}
	case ssa.CallInstruction:
		if s.MultiAction != nil {
			if ls := s.MultiAction(x); len(ls) > 0 {
				c = c.clone()
				for _, a := range ls {
					c.Acts[a] = true
				}
			}
		}
		if _, isGo := in.(*ssa.Go); isGo {
			return []*Config{c}
		}
		if _, isDefer := in.(*ssa.Defer); isDefer {
			return []*Config{c}
		}
		if s.Action != nil {
			if a := s.Action(x, func(v ssa.Value) string { return s.resolve(c, v) }); a != "" {
				c = c.clone()
				c.Acts[a] = true
			}
		}
		com := x.Common()
		if callee := com.StaticCallee(); callee != nil && s.Inline != nil && s.Inline(callee) {
			params := map[*ssa.Parameter]string{}
			for i, p := range callee.Params {
				if i < len(com.Args) {
					if v := s.resolve(c, com.Args[i]); v != Top {
						params[p] = v
					}
				}
			}
			outs := s.summary(callee, c, params)
			var res []*Config
			for _, o := range outs {
				n := o.clone()
				n.locals = map[ssa.Value]string{}
				for k, v := range c.locals {
					n.locals[k] = v
				}
				if rv, ok := n.Fields["$ret"]; ok {
					delete(n.Fields, "$ret")
					if cv, isVal := in.(ssa.Value); isVal && rv != Top {
						n.locals[cv] = rv
					}
				}
				res = append(res, n)
			}
			return res
		}
		if s.OpaqueClobbers {
			for _, a := range com.Args {
				if s.isRecvPtr(a.Type()) {
					c = c.clone()
					for f := range c.Fields {
						c.Fields[f] = Top
					}
					c.Atoms = map[string]bool{}
				}
			}
		}
	}
	return []*Config{c}
}

func (s *Spec) invalidate(c *Config, field string) {
	if s.Atom == nil {
		return
	}
	for a := range c.Atoms {
		if strings.Contains(a, "."+field) {
			delete(c.Atoms, a)
		}
	}
}
