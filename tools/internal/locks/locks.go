// Package locks computes, per function, which mutexes are definitely held at each instruction
// (forward must-dataflow: gen at Lock/RLock, kill at Unlock/RUnlock; deferred unlocks release at return),
// with lock identity = (root SSA value, field path).  It serves the self-deadlock rule (a lock that is held
// is re-acquired through a call chain on the same object) and lockset rules (guarded field accessed without
// its mutex).
package locks

import (
	"fmt"
	"go/types"
	"sort"
	"strings"

	"golang.org/x/tools/go/ssa"
)

// Lock identifies a mutex as a path of field names below a root value (usually the receiver parameter).
type Lock struct {
	Root     ssa.Value
	RootPath string // access path of Root from a parameter / local, e.g. "s" or "s.pool" ("" when not expressible)
	Path     string // e.g. "mu" or "pool.mu"
}

// PathOf renders the access path of a pointer value: parameter or free variable name followed by the fields
// loaded on the way (s, s.pool, m.localPool).  Two loads of the same field chain get the same path.
func PathOf(v ssa.Value) string {
	switch x := v.(type) {
	case *ssa.Parameter:
		return x.Name()
	case *ssa.FreeVar:
		return x.Name()
	case *ssa.UnOp:
		if fa, ok := x.X.(*ssa.FieldAddr); ok {
			if b := PathOf(fa.X); b != "" {
				return b + "." + fieldName(fa)
			}
		}
		// a parameter spilled to a cell because a closure captures it: *cell is the parameter
		if al, ok := x.X.(*ssa.Alloc); ok {
			var src ssa.Value
			n := 0
			for _, rf := range *al.Referrers() {
				if st, ok := rf.(*ssa.Store); ok && st.Addr == ssa.Value(al) {
					n++
					src = st.Val
				}
			}
			if n == 1 {
				if p, ok := src.(*ssa.Parameter); ok {
					return p.Name()
				}
			}
			return PathOf(al)
		}
		// captured variable cell inside a closure
		if fv, ok := x.X.(*ssa.FreeVar); ok {
			return fv.Name()
		}
	case *ssa.FieldAddr:
		if b := PathOf(x.X); b != "" {
			return b + "." + fieldName(x)
		}
	case *ssa.Alloc:
		if x.Comment != "" {
			return "local:" + x.Comment
		}
		return "local:" + x.Name()
	case *ssa.Phi:
		return ""
	}
	return ""
}

func fieldName(fa *ssa.FieldAddr) string {
	t := fa.X.Type()
	if p, ok := t.Underlying().(*types.Pointer); ok {
		t = p.Elem()
	}
	if st, ok := t.Underlying().(*types.Struct); ok {
		return st.Field(fa.Field).Name()
	}
	return "?"
}

func (l Lock) String() string {
	n := "?"
	if l.Root != nil {
		n = l.Root.Name()
	}
	return n + "." + l.Path
}

// Mode of an acquisition.
type Mode int

const (
	Write Mode = iota + 1
	Read
)

// Op is a lock operation found at a call instruction.
type Op struct {
	Lock    Lock
	Acquire bool
	Mode    Mode
}

// ClassifyCall recognises sync.Mutex / sync.RWMutex operations.
func ClassifyCall(call ssa.CallInstruction) (Op, bool) {
	com := call.Common()
	f := com.StaticCallee()
	if f == nil || f.Pkg == nil || f.Pkg.Pkg.Path() != "sync" || len(com.Args) == 0 {
		return Op{}, false
	}
	recv := ""
	if sig := f.Signature; sig.Recv() != nil {
		t := sig.Recv().Type()
		if p, ok := t.(*types.Pointer); ok {
			t = p.Elem()
		}
		if n, ok := t.(*types.Named); ok {
			recv = n.Obj().Name()
		}
	}
	if recv != "Mutex" && recv != "RWMutex" {
		return Op{}, false
	}
	var op Op
	switch f.Name() {
	case "Lock":
		op = Op{Acquire: true, Mode: Write}
	case "RLock":
		op = Op{Acquire: true, Mode: Read}
	case "Unlock":
		op = Op{Acquire: false, Mode: Write}
	case "RUnlock":
		op = Op{Acquire: false, Mode: Read}
	default:
		return Op{}, false
	}
	l, ok := lockOf(com.Args[0])
	if !ok {
		return Op{}, false
	}
	op.Lock = l
	return op, true
}

// lockOf resolves the address of a mutex to (root, field path).
func lockOf(addr ssa.Value) (Lock, bool) {
	var path []string
	v := addr
	for {
		switch x := v.(type) {
		case *ssa.FieldAddr:
			t := x.X.Type()
			if p, ok := t.Underlying().(*types.Pointer); ok {
				t = p.Elem()
			}
			st, ok := t.Underlying().(*types.Struct)
			if !ok {
				return Lock{}, false
			}
			path = append([]string{st.Field(x.Field).Name()}, path...)
			v = x.X
			continue
		case *ssa.UnOp: // load of a pointer field: s.pool.mu where pool is *Pool
			if fa, ok := x.X.(*ssa.FieldAddr); ok {
				v = fa
				continue
			}
			return Lock{Root: x, RootPath: PathOf(x), Path: strings.Join(path, ".")}, len(path) > 0
		default:
			return Lock{Root: v, RootPath: PathOf(v), Path: strings.Join(path, ".")}, len(path) > 0
		}
	}
}

// Held is the per-function result: the locks definitely held just before each instruction.
type Held struct {
	F  *ssa.Function
	at map[ssa.Instruction]map[string]heldLock
}

type heldLock struct {
	Lock Lock
	Mode Mode
}

func key(l Lock) string {
	if l.RootPath != "" {
		return l.RootPath + "." + l.Path
	}
	return fmt.Sprintf("%p.%s", l.Root, l.Path)
}

// Analyze runs the must-held dataflow on f.
func Analyze(f *ssa.Function) *Held {
	h := &Held{F: f, at: map[ssa.Instruction]map[string]heldLock{}}
	if len(f.Blocks) == 0 {
		return h
	}
	in := map[*ssa.BasicBlock]map[string]heldLock{}
	out := map[*ssa.BasicBlock]map[string]heldLock{}
	visited := map[*ssa.BasicBlock]bool{}
	work := []*ssa.BasicBlock{f.Blocks[0]}
	in[f.Blocks[0]] = map[string]heldLock{}
	transfer := func(b *ssa.BasicBlock, st map[string]heldLock, record bool) map[string]heldLock {
		cur := map[string]heldLock{}
		for k, v := range st {
			cur[k] = v
		}
		for _, ins := range b.Instrs {
			if record {
				snap := map[string]heldLock{}
				for k, v := range cur {
					snap[k] = v
				}
				h.at[ins] = snap
			}
			call, ok := ins.(ssa.CallInstruction)
			if !ok {
				continue
			}
			if _, isDefer := ins.(*ssa.Defer); isDefer {
				continue // deferred unlock: released at return, i.e. held for the rest of the function
			}
			if _, isGo := ins.(*ssa.Go); isGo {
				continue
			}
			if op, ok := ClassifyCall(call); ok {
				if op.Acquire {
					cur[key(op.Lock)] = heldLock{op.Lock, op.Mode}
				} else {
					delete(cur, key(op.Lock))
				}
			}
		}
		return cur
	}
	for len(work) > 0 {
		b := work[len(work)-1]
		work = work[:len(work)-1]
		o := transfer(b, in[b], false)
		if visited[b] && sameSet(o, out[b]) {
			continue
		}
		visited[b] = true
		out[b] = o
		for _, s := range b.Succs {
			if cur, ok := in[s]; !ok {
				cp := map[string]heldLock{}
				for k, v := range o {
					cp[k] = v
				}
				in[s] = cp
				work = append(work, s)
			} else {
				changed := false
				for k := range cur {
					if _, ok := o[k]; !ok {
						delete(cur, k)
						changed = true
					}
				}
				if changed || !visited[s] {
					work = append(work, s)
				}
			}
		}
	}
	for _, b := range f.Blocks {
		if st, ok := in[b]; ok {
			transfer(b, st, true)
		}
	}
	return h
}

func sameSet(a, b map[string]heldLock) bool {
	if len(a) != len(b) {
		return false
	}
	for k := range a {
		if _, ok := b[k]; !ok {
			return false
		}
	}
	return true
}

// HeldAt returns the locks definitely held just before ins, sorted.
func (h *Held) HeldAt(ins ssa.Instruction) []struct {
	Lock Lock
	Mode Mode
} {
	var out []struct {
		Lock Lock
		Mode Mode
	}
	m := h.at[ins]
	var ks []string
	for k := range m {
		ks = append(ks, k)
	}
	sort.Strings(ks)
	for _, k := range ks {
		out = append(out, struct {
			Lock Lock
			Mode Mode
		}{m[k].Lock, m[k].Mode})
	}
	return out
}

// Holds reports whether a lock with the given root and path is definitely held before ins (any mode when mode==0).
func (h *Held) Holds(ins ssa.Instruction, root ssa.Value, path string, mode Mode) bool {
	rp := PathOf(root)
	for _, hl := range h.at[ins] {
		same := (hl.Lock.Root == root || (rp != "" && rp == hl.Lock.RootPath)) && hl.Lock.Path == path
		if !same && rp != "" && hl.Lock.RootPath != "" && rp+"."+path == hl.Lock.RootPath+"."+hl.Lock.Path {
			same = true // s.pool + mu  ≡  s + pool.mu
		}
		if same && (mode == 0 || hl.Mode == mode || hl.Mode == Write) {
			return true
		}
	}
	return false
}

// Acquires lists the lock operations (acquisitions only) performed directly by f on locks rooted at one of its parameters.
func Acquires(f *ssa.Function) []Op {
	var out []Op
	for _, b := range f.Blocks {
		for _, ins := range b.Instrs {
			call, ok := ins.(ssa.CallInstruction)
			if !ok {
				continue
			}
			if _, isGo := ins.(*ssa.Go); isGo {
				continue
			}
			if op, ok := ClassifyCall(call); ok && op.Acquire {
				if _, isParam := op.Lock.Root.(*ssa.Parameter); isParam {
					out = append(out, op)
				}
			}
		}
	}
	return out
}

// Acq is a (transitive) acquisition by a function of a lock rooted at one of its parameters.
type Acq struct {
	Param int
	Path  string
	Mode  Mode
	Via   string // call chain, for the report
}

// Summaries computes, with memoisation, the locks a function acquires on objects passed in as parameters,
// following static calls (not go statements, not dynamic calls).
type Summaries struct {
	InScope func(*ssa.Function) bool
	memo    map[*ssa.Function][]Acq
	busy    map[*ssa.Function]bool
}

func NewSummaries(inScope func(*ssa.Function) bool) *Summaries {
	return &Summaries{InScope: inScope, memo: map[*ssa.Function][]Acq{}, busy: map[*ssa.Function]bool{}}
}

func (s *Summaries) Of(f *ssa.Function) []Acq {
	if r, ok := s.memo[f]; ok {
		return r
	}
	if s.busy[f] || len(f.Blocks) == 0 {
		return nil
	}
	s.busy[f] = true
	defer delete(s.busy, f)
	pidx := map[ssa.Value]int{}
	for i, p := range f.Params {
		pidx[p] = i
	}
	seen := map[string]bool{}
	var out []Acq
	add := func(a Acq) {
		k := fmt.Sprintf("%d|%s|%d", a.Param, a.Path, a.Mode)
		if !seen[k] {
			seen[k] = true
			out = append(out, a)
		}
	}
	for _, b := range f.Blocks {
		for _, ins := range b.Instrs {
			call, ok := ins.(ssa.CallInstruction)
			if !ok {
				continue
			}
			if _, isGo := ins.(*ssa.Go); isGo {
				continue
			}
			if op, ok := ClassifyCall(call); ok {
				if op.Acquire {
					if i, isP := pidx[op.Lock.Root]; isP {
						add(Acq{Param: i, Path: op.Lock.Path, Mode: op.Mode, Via: shortName(f)})
					}
				}
				continue
			}
			g := call.Common().StaticCallee()
			if g == nil || !s.InScope(g) {
				continue
			}
			for _, a := range s.Of(g) {
				if a.Param >= len(call.Common().Args) {
					continue
				}
				if i, isP := pidx[call.Common().Args[a.Param]]; isP {
					add(Acq{Param: i, Path: a.Path, Mode: a.Mode, Via: shortName(f) + " -> " + a.Via})
				}
			}
		}
	}
	s.memo[f] = out
	return out
}

func shortName(f *ssa.Function) string {
	s := f.String()
	if i := strings.LastIndex(s, "/"); i >= 0 {
		s = s[i+1:]
	}
	return s
}

// Reacquire describes a call made while a lock is held that acquires the same lock again.
type Reacquire struct {
	Site   ssa.CallInstruction
	Lock   Lock
	Held   Mode
	Callee *ssa.Function
	Acq    Acq
}

// SelfDeadlocks finds, in f, calls made while a mutex is definitely held whose callee (transitively) acquires the
// same mutex of the same object: sync.Mutex / RWMutex are not re-entrant, so the call never returns.
// Read-after-read is not reported.
func SelfDeadlocks(f *ssa.Function, sums *Summaries) []Reacquire {
	h := Analyze(f)
	var out []Reacquire
	for _, b := range f.Blocks {
		for _, ins := range b.Instrs {
			call, ok := ins.(ssa.CallInstruction)
			if !ok {
				continue
			}
			if _, isGo := ins.(*ssa.Go); isGo {
				continue
			}
			if _, isDefer := ins.(*ssa.Defer); isDefer {
				continue
			}
			if _, isLockOp := ClassifyCall(call); isLockOp {
				continue
			}
			g := call.Common().StaticCallee()
			if g == nil || !sums.InScope(g) {
				continue
			}
			held := h.HeldAt(ins)
			if len(held) == 0 {
				continue
			}
			for _, a := range sums.Of(g) {
				if a.Param >= len(call.Common().Args) {
					continue
				}
				arg := call.Common().Args[a.Param]
				for _, hl := range held {
					sameObj := hl.Lock.Root == arg || (hl.Lock.RootPath != "" && hl.Lock.RootPath == PathOf(arg))
					if sameObj && hl.Lock.Path == a.Path && !(hl.Mode == Read && a.Mode == Read) {
						out = append(out, Reacquire{Site: call, Lock: hl.Lock, Held: hl.Mode, Callee: g, Acq: a})
					}
				}
			}
		}
	}
	return out
}
