package flow

import (
	"go/constant"
	"go/token"

	"golang.org/x/tools/go/ssa"
)

// EveryPathHas reports whether every forward CFG path from the function entry to block b establishes, on its way,
// a branch fact accepted by has — a disjunctive generalisation of FactsAt (which only sees facts of dominating
// edges).  It is φ-aware: when a branch tests a boolean φ (the shape go/ssa gives `a || b`, `x := f(); if x`, or a
// helper inlined at source level), the fact taken is the one of the φ's incoming value on that path, and paths on
// which a constant incoming value contradicts the branch taken are infeasible and ignored.
//
// Back edges are not followed: a path that went round a loop has a suffix, from its last visit of the loop header
// to b, that is itself enumerated, and facts of earlier iterations say nothing about this iteration's values.
// When false, the facts of one path without an accepted fact are returned.
func EveryPathHas(b *ssa.BasicBlock, has func(Fact) bool) (bool, []Fact) {
	w := &pathWalk{has: has, memo: map[*ssa.BasicBlock]bool{}, budget: 200000}
	ok := w.walk(b, nil)
	if w.budget <= 0 {
		return false, nil
	}
	return ok, w.witness
}

type pendPhi struct {
	phi *ssa.Phi
	pol bool
	// integer comparison φ <op> k (op == token.ILLEGAL: the φ is itself the boolean tested)
	op token.Token
	k  int64
	// track != nil: not a test but a value of interest followed backwards through φs (phi may be nil once it is no φ)
	track ssa.Value
}

type pathWalk struct {
	hasV    func(Fact, []ssa.Value) bool // when set, has is derived from it with the tracked values of the path
	has     func(Fact) bool
	memo    map[*ssa.BasicBlock]bool
	budget  int
	stack   []Fact
	witness []Fact
}

// walk: do all backward paths from cur (entered with the given unresolved φ tests) meet an accepted fact?
func (w *pathWalk) walk(cur *ssa.BasicBlock, pending []pendPhi) bool {
	w.budget--
	if w.budget <= 0 {
		return false
	}
	if len(pending) == 0 {
		if v, ok := w.memo[cur]; ok {
			if !v && w.witness == nil {
				w.witness = append([]Fact(nil), w.stack...)
			}
			return v
		}
	}
	res := true
	npreds := 0
	for i, p := range cur.Preds {
		if cur.Dominates(p) { // back edge
			continue
		}
		npreds++
		mark := len(w.stack)
		feasible, found, pend2 := w.edge(p, cur, i, pending)
		if feasible && !found {
			if !w.walk(p, pend2) {
				res = false
			}
		}
		w.stack = w.stack[:mark]
		if !res {
			break
		}
	}
	if npreds == 0 {
		// function entry reached without an accepted fact
		res = false
		if w.witness == nil {
			w.witness = append([]Fact(nil), w.stack...)
		}
	}
	if len(pending) == 0 {
		w.memo[cur] = res
	}
	return res
}

// edge collects the facts of taking p→cur (p is cur.Preds[idx]).
func (w *pathWalk) edge(p, cur *ssa.BasicBlock, idx int, pending []pendPhi) (feasible, found bool, out []pendPhi) {
	feasible = true
	var todo []Fact
	// φ tests waiting for this block
	var tracked []ssa.Value
	for _, pd := range pending {
		if pd.track != nil {
			v := pd.track
			if ph, isPhi := v.(*ssa.Phi); isPhi && ph.Block() == cur {
				v = ph.Edges[idx]
			}
			tracked = append(tracked, v)
			out = append(out, pendPhi{track: v})
			continue
		}
		if pd.phi.Block() != cur {
			out = append(out, pd)
			continue
		}
		e := pd.phi.Edges[idx]
		if pd.op == token.ILLEGAL {
			todo = append(todo, norm(e, pd.pol, p))
			continue
		}
		// integer comparison of the incoming value with a constant
		if v, known := cmpKnown(e, pd.op, pd.k); known {
			if v != pd.pol {
				return false, false, nil
			}
		} else if ph, isPhi := e.(*ssa.Phi); isPhi {
			out = append(out, pendPhi{phi: ph, pol: pd.pol, op: pd.op, k: pd.k})
		}
	}
	if ef, ok := EdgeFact(p, cur); ok {
		todo = append(todo, ef)
	}
	for _, f := range todo {
		if k, isK := f.Cond.(*ssa.Const); isK {
			if bv, isB := constBool(k); isB && bv != f.Pol {
				return false, false, nil
			}
			continue
		}
		if w.contradicts(f) {
			return false, false, nil
		}
		w.stack = append(w.stack, f)
		if w.hasV != nil {
			if w.hasV(f, tracked) {
				found = true
			}
		} else if w.has(f) {
			found = true
		}
		if phi, isPhi := f.Cond.(*ssa.Phi); isPhi {
			out = append(out, pendPhi{phi: phi, pol: f.Pol})
		}
		if bo, isB := f.Cond.(*ssa.BinOp); isB {
			if phi, isPhi := bo.X.(*ssa.Phi); isPhi {
				if kc, isK := bo.Y.(*ssa.Const); isK && kc.Value != nil && kc.Value.Kind() == constant.Int {
					if k, exact := constant.Int64Val(kc.Value); exact {
						switch bo.Op {
						case token.LSS, token.LEQ, token.GTR, token.GEQ, token.EQL, token.NEQ:
							out = append(out, pendPhi{phi: phi, pol: f.Pol, op: bo.Op, k: k})
						}
					}
				}
			}
		}
	}
	return feasible, found, out
}

// cmpKnown decides `v op k` when v is an integer constant or provably non-negative and k makes the answer certain.
func cmpKnown(v ssa.Value, op token.Token, k int64) (val, known bool) {
	if c, ok := v.(*ssa.Const); ok && c.Value != nil && c.Value.Kind() == constant.Int {
		x, exact := constant.Int64Val(c.Value)
		if !exact {
			return false, false
		}
		switch op {
		case token.LSS:
			return x < k, true
		case token.LEQ:
			return x <= k, true
		case token.GTR:
			return x > k, true
		case token.GEQ:
			return x >= k, true
		case token.EQL:
			return x == k, true
		case token.NEQ:
			return x != k, true
		}
		return false, false
	}
	if !nonNegative(v, 0) {
		return false, false
	}
	switch op {
	case token.GEQ:
		if k <= 0 {
			return true, true
		}
	case token.GTR:
		if k < 0 {
			return true, true
		}
	case token.LSS:
		if k <= 0 {
			return false, true
		}
	case token.LEQ:
		if k < 0 {
			return false, true
		}
	case token.EQL:
		if k < 0 {
			return false, true
		}
	case token.NEQ:
		if k < 0 {
			return true, true
		}
	}
	return false, false
}

// nonNegative: range/loop indices counting up from 0 (go/ssa: t = φ[-1, t+1]; i = t+1), len/cap, unsigned conversions.
func nonNegative(v ssa.Value, depth int) bool {
	if depth > 4 {
		return false
	}
	switch x := v.(type) {
	case *ssa.Const:
		if x.Value != nil && x.Value.Kind() == constant.Int {
			return constant.Sign(x.Value) >= 0
		}
	case *ssa.BinOp:
		if x.Op == token.ADD {
			if k, ok := x.Y.(*ssa.Const); ok && k.Value != nil && k.Value.Kind() == constant.Int && constant.Sign(k.Value) > 0 {
				if one, exact := constant.Int64Val(k.Value); exact && one == 1 {
					if phi, ok := x.X.(*ssa.Phi); ok {
						okAll := true
						for _, e := range phi.Edges {
							if e == ssa.Value(x) {
								continue
							}
							if c, isC := e.(*ssa.Const); isC && c.Value != nil && c.Value.Kind() == constant.Int {
								if m, ex := constant.Int64Val(c.Value); ex && m >= -1 {
									continue
								}
							}
							okAll = false
						}
						if okAll {
							return true
						}
					}
				}
				return nonNegative(x.X, depth+1)
			}
		}
	case *ssa.Call:
		if b, ok := x.Call.Value.(*ssa.Builtin); ok && (b.Name() == "len" || b.Name() == "cap") {
			return true
		}
	case *ssa.Phi:
		for _, e := range x.Edges {
			if e == v {
				continue
			}
			if !nonNegative(e, depth+1) {
				return false
			}
		}
		return true
	}
	return false
}

func constBool(k *ssa.Const) (bool, bool) {
	if k.Value == nil {
		return false, false
	}
	switch k.Value.ExactString() {
	case "true":
		return true, true
	case "false":
		return false, true
	}
	return false, false
}

// SomePathHas reports whether some feasible forward path from the function entry to block b (back edges not followed,
// φ-aware as EveryPathHas) establishes a fact accepted by has.
func SomePathHas(b *ssa.BasicBlock, has func(Fact) bool) bool {
	w := &pathWalk{has: has, memo: map[*ssa.BasicBlock]bool{}, budget: 200000}
	return w.some(b, nil, false) || w.budget <= 0
}

func (w *pathWalk) some(cur *ssa.BasicBlock, pending []pendPhi, seen bool) bool {
	w.budget--
	if w.budget <= 0 {
		return true // undecided: assume the worst
	}
	if seen && len(pending) == 0 {
		return true
	}
	if !seen && len(pending) == 0 {
		if v, ok := w.memo[cur]; ok {
			return v
		}
	}
	res := false
	npreds := 0
	for i, p := range cur.Preds {
		if cur.Dominates(p) {
			continue
		}
		npreds++
		mark := len(w.stack)
		feasible, found, pend2 := w.edge(p, cur, i, pending)
		w.stack = w.stack[:mark]
		if feasible && w.some(p, pend2, seen || found) {
			res = true
			break
		}
	}
	if npreds == 0 {
		res = seen
	}
	if !seen && len(pending) == 0 {
		w.memo[cur] = res
	}
	return res
}

// CmpOf normalises an ordering fact to a comparison that HOLDS: polarity is folded into the operator, so
// `a < b` known false and `a >= b` known true both yield (>=, a, b).  ok is false for non-comparisons.
func CmpOf(f Fact) (op token.Token, x, y ssa.Value, ok bool) {
	bo, isB := f.Cond.(*ssa.BinOp)
	if !isB {
		return token.ILLEGAL, nil, nil, false
	}
	op = bo.Op
	if !f.Pol {
		switch op {
		case token.LSS:
			op = token.GEQ
		case token.LEQ:
			op = token.GTR
		case token.GTR:
			op = token.LEQ
		case token.GEQ:
			op = token.LSS
		case token.EQL:
			op = token.NEQ
		case token.NEQ:
			op = token.EQL
		default:
			return token.ILLEGAL, nil, nil, false
		}
	}
	switch op {
	case token.LSS, token.LEQ, token.GTR, token.GEQ, token.EQL, token.NEQ:
		return op, bo.X, bo.Y, true
	}
	return token.ILLEGAL, nil, nil, false
}

// Holds reports whether fact f establishes `x op y` for operands recognised by isX / isY, in either operand order
// and either spelling (a >= b  ≡  !(a < b)  ≡  b <= a).
func Holds(f Fact, op token.Token, isX, isY func(ssa.Value) bool) bool {
	o, a, b, ok := CmpOf(f)
	if !ok {
		return false
	}
	if o == op && isX(a) && isY(b) {
		return true
	}
	swap := map[token.Token]token.Token{token.LSS: token.GTR, token.GTR: token.LSS, token.LEQ: token.GEQ, token.GEQ: token.LEQ, token.EQL: token.EQL, token.NEQ: token.NEQ}
	return swap[o] == op && isX(b) && isY(a)
}

// EveryPathHasFor is EveryPathHas for facts about a particular value: v is followed backwards through φs along
// each path, and has receives the value(s) v stands for at the point where the fact was established.
func EveryPathHasFor(b *ssa.BasicBlock, v ssa.Value, has func(Fact, []ssa.Value) bool) (bool, []Fact) {
	w := &pathWalk{hasV: has, memo: map[*ssa.BasicBlock]bool{}, budget: 400000}
	ok := w.walk(b, []pendPhi{{track: v}})
	if w.budget <= 0 {
		return false, nil
	}
	return ok, w.witness
}

// Shape renders the computation that produces v inside its function as a canonical expression over the function's
// parameters and constants (operators, static callees, φ cycles numbered in visiting order).  Two values with equal
// shapes are computed the same way from their parameters; used to compare sibling computations in two functions
// without naming the helper they may or may not share.
func Shape(v ssa.Value) string {
	sh := &shaper{phis: map[*ssa.Phi]int{}}
	return sh.of(v, 0)
}

type shaper struct {
	phis map[*ssa.Phi]int
}

func (s *shaper) of(v ssa.Value, depth int) string {
	if depth > 40 {
		return "…"
	}
	switch x := v.(type) {
	case *ssa.Const:
		if x.Value == nil {
			return "nil"
		}
		return x.Value.ExactString()
	case *ssa.Parameter:
		for i, p := range x.Parent().Params {
			if p == x {
				return "p" + string(rune('0'+i))
			}
		}
		return "p?"
	case *ssa.BinOp:
		return "(" + x.Op.String() + " " + s.of(x.X, depth+1) + " " + s.of(x.Y, depth+1) + ")"
	case *ssa.UnOp:
		return "(" + x.Op.String() + " " + s.of(x.X, depth+1) + ")"
	case *ssa.Convert:
		return "(conv " + x.Type().String() + " " + s.of(x.X, depth+1) + ")"
	case *ssa.ChangeType:
		return s.of(x.X, depth+1)
	case *ssa.Phi:
		if n, ok := s.phis[x]; ok {
			return "φ" + string(rune('0'+n))
		}
		n := len(s.phis)
		s.phis[x] = n
		out := "(φ" + string(rune('0'+n))
		for _, e := range x.Edges {
			out += " " + s.of(e, depth+1)
		}
		return out + ")"
	case *ssa.Call:
		name := "dyn"
		if b, ok := x.Call.Value.(*ssa.Builtin); ok {
			name = b.Name()
		} else if g := x.Call.StaticCallee(); g != nil {
			name = g.Name()
			if g.Pkg != nil {
				name = g.Pkg.Pkg.Name() + "." + name
			}
		} else if x.Call.IsInvoke() {
			// a method of an object built in this function (hash.Hash, bytes.Buffer, …): the object is rendered with
			// the calls made on it before this one
			out := "(inv " + x.Call.Method.Name() + " " + s.object(x.Call.Value, x, depth+1)
			for _, a := range x.Call.Args {
				out += " " + s.of(a, depth+1)
			}
			return out + ")"
		}
		out := "(call " + name
		for _, a := range x.Call.Args {
			out += " " + s.of(a, depth+1)
		}
		return out + ")"
	case *ssa.Index:
		return "(idx " + s.of(x.X, depth+1) + " " + s.of(x.Index, depth+1) + ")"
	case *ssa.IndexAddr:
		return "(idx& " + s.of(x.X, depth+1) + " " + s.of(x.Index, depth+1) + ")"
	case *ssa.Lookup:
		return "(lookup " + s.of(x.X, depth+1) + " " + s.of(x.Index, depth+1) + ")"
	case *ssa.Extract:
		return "(ext" + string(rune('0'+x.Index)) + " " + s.of(x.Tuple, depth+1) + ")"
	case *ssa.Next:
		return "(next " + s.of(x.Iter, depth+1) + ")"
	case *ssa.Range:
		return "(range " + s.of(x.X, depth+1) + ")"
	case *ssa.Slice:
		return "(slice " + s.of(x.X, depth+1) + ")"
	case *ssa.FieldAddr:
		return "(field& " + s.of(x.X, depth+1) + ")"
	case *ssa.Field:
		return "(field " + s.of(x.X, depth+1) + ")"
	}
	return "?" + v.Name()
}

// object renders a locally built object: how it was made, then the calls that were made on it (in dominance order)
// before the call `at`.
func (s *shaper) object(recv ssa.Value, at *ssa.Call, depth int) string {
	out := "{" + s.of(recv, depth)
	refs := recv.Referrers()
	if refs == nil {
		return out + "}"
	}
	var hist []*ssa.Call
	for _, r := range *refs {
		c, ok := r.(*ssa.Call)
		if !ok || c == at || !InstrDominates(c, at) {
			continue
		}
		hist = append(hist, c)
	}
	// dominance order
	for i := 0; i < len(hist); i++ {
		for j := i + 1; j < len(hist); j++ {
			if InstrDominates(hist[j], hist[i]) {
				hist[i], hist[j] = hist[j], hist[i]
			}
		}
	}
	for _, c := range hist {
		n := "dyn"
		if c.Call.IsInvoke() {
			n = c.Call.Method.Name()
		} else if g := c.Call.StaticCallee(); g != nil {
			n = g.Name()
		}
		out += " ;" + n
		for _, a := range c.Call.Args {
			if a != recv {
				out += " " + s.of(a, depth+1)
			}
		}
	}
	return out + "}"
}

// contradicts: does f contradict a comparison of the same two operands already established on this path
// (v <= K taken false earlier, v > K taken false now)?  Such a path is infeasible.
func (w *pathWalk) contradicts(f Fact) bool {
	op, x, y, ok := CmpOf(f)
	if !ok {
		return false
	}
	for _, g := range w.stack {
		op2, x2, y2, ok2 := CmpOf(g)
		if !ok2 {
			continue
		}
		if sameOperand(x, x2) && sameOperand(y, y2) {
			if exclusive(op, op2) {
				return true
			}
		} else if sameOperand(x, y2) && sameOperand(y, x2) {
			if exclusive(op, mirror(op2)) {
				return true
			}
		}
	}
	return false
}

func sameOperand(a, b ssa.Value) bool {
	if a == b {
		return true
	}
	ka, oka := a.(*ssa.Const)
	kb, okb := b.(*ssa.Const)
	if oka && okb && ka.Value != nil && kb.Value != nil {
		return constant.Compare(ka.Value, token.EQL, kb.Value)
	}
	return false
}

func mirror(op token.Token) token.Token {
	switch op {
	case token.LSS:
		return token.GTR
	case token.GTR:
		return token.LSS
	case token.LEQ:
		return token.GEQ
	case token.GEQ:
		return token.LEQ
	}
	return op
}

// exclusive: can `a op1 b` and `a op2 b` not both hold?
func exclusive(op1, op2 token.Token) bool {
	type pair struct{ a, b token.Token }
	ex := map[pair]bool{
		{token.LSS, token.GEQ}: true, {token.LSS, token.GTR}: true, {token.LSS, token.EQL}: true,
		{token.LEQ, token.GTR}: true,
		{token.GTR, token.EQL}: true,
		{token.EQL, token.NEQ}: true,
	}
	return ex[pair{op1, op2}] || ex[pair{op2, op1}]
}
