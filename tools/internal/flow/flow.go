// Package flow holds SSA/CFG helpers shared by the engines: branch facts that hold at an
// instruction, must-pass-through, call enumeration and call-graph reachability.
package flow

import (
	"go/token"
	"go/types"
	"sort"
	"strings"

	"golang.org/x/tools/go/callgraph"
	"golang.org/x/tools/go/ssa"
)

// Fact is a branch condition known to hold (Pol=true) or not to hold (Pol=false) at a program point.
type Fact struct {
	Cond ssa.Value
	Pol  bool
	At   *ssa.BasicBlock // the block ending in the If
}

// edgeDominates reports whether the CFG edge from->to dominates block b:
// every path from entry to b takes that edge.  Sufficient condition used: `to` has the single
// predecessor `from` and dominates b; or (critical edge) handled by caller.
func edgeDominates(from, to, b *ssa.BasicBlock) bool {
	if len(to.Preds) != 1 || to.Preds[0] != from {
		return false
	}
	return to.Dominates(b)
}

// FactsAt returns the branch facts that hold on entry to block b (conditions of dominating Ifs whose
// taken edge dominates b).  Negations are unwrapped into polarity.
func FactsAt(b *ssa.BasicBlock) []Fact {
	var out []Fact
	for d := b.Idom(); d != nil; d = d.Idom() {
		out = append(out, factsFrom(d, b)...)
	}
	return expandPhiFacts(out, 0)
}

// expandPhiFacts: a fact about a boolean φ (the shape go/ssa gives a materialised `a || b`, `a && b`, or a flag
// local) implies facts about its operands: when all but one incoming edge carry a constant that contradicts the
// outcome, control came through the remaining edge, so that edge's value has the outcome and everything known on
// that edge holds too.  (`t := x || !y; if !t` establishes !x and y.)
func expandPhiFacts(facts []Fact, depth int) []Fact {
	if depth > 3 {
		return facts
	}
	out := facts
	for _, f := range facts {
		phi, ok := f.Cond.(*ssa.Phi)
		if !ok {
			continue
		}
		if bt, isB := phi.Type().Underlying().(*types.Basic); !isB || bt.Info()&types.IsBoolean == 0 {
			continue
		}
		cand := -1
		n := 0
		for i, e := range phi.Edges {
			if k, isK := e.(*ssa.Const); isK && k.Value != nil {
				if (k.Value.ExactString() == "true") != f.Pol {
					continue // this edge would have produced the other outcome
				}
			}
			cand = i
			n++
		}
		if n != 1 {
			continue
		}
		var more []Fact
		if _, isK := phi.Edges[cand].(*ssa.Const); !isK {
			more = append(more, norm(phi.Edges[cand], f.Pol, phi.Block()))
		}
		pred := phi.Block().Preds[cand]
		if ef, ok := EdgeFact(pred, phi.Block()); ok {
			more = append(more, ef)
		}
		// facts of the predecessor block that are not already known (its dominators are ours, so only its own chain adds)
		for d := pred.Idom(); d != nil; d = d.Idom() {
			more = append(more, factsFrom(d, pred)...)
		}
		more = dedupFacts(more, out)
		out = append(out, expandPhiFacts(more, depth+1)...)
	}
	return out
}

func dedupFacts(add, have []Fact) []Fact {
	var out []Fact
	for _, a := range add {
		dup := false
		for _, h := range have {
			if h.Cond == a.Cond && h.Pol == a.Pol {
				dup = true
				break
			}
		}
		for _, h := range out {
			if h.Cond == a.Cond && h.Pol == a.Pol {
				dup = true
				break
			}
		}
		if !dup {
			out = append(out, a)
		}
	}
	return out
}

func factsFrom(d, b *ssa.BasicBlock) []Fact {
	if len(d.Instrs) == 0 {
		return nil
	}
	iff, ok := d.Instrs[len(d.Instrs)-1].(*ssa.If)
	if !ok {
		return nil
	}
	if d.Succs[0] == d.Succs[1] {
		return nil
	}
	var out []Fact
	if edgeDominates(d, d.Succs[0], b) {
		out = append(out, norm(iff.Cond, true, d))
	} else if edgeDominates(d, d.Succs[1], b) {
		out = append(out, norm(iff.Cond, false, d))
	}
	return out
}

func norm(c ssa.Value, pol bool, at *ssa.BasicBlock) Fact {
	for {
		u, ok := c.(*ssa.UnOp)
		if !ok || u.Op != token.NOT {
			break
		}
		c = u.X
		pol = !pol
	}
	return Fact{c, pol, at}
}

// FactsAtInstr returns the facts holding just before instr executes.
func FactsAtInstr(in ssa.Instruction) []Fact { return FactsAt(in.Block()) }

// Strip removes value-preserving wrappers (ChangeType, ChangeInterface, MakeInterface, Convert between
// same-underlying types are NOT stripped) so two uses of one value compare equal.
func Strip(v ssa.Value) ssa.Value {
	for {
		switch x := v.(type) {
		case *ssa.ChangeType:
			v = x.X
		case *ssa.ChangeInterface:
			v = x.X
		case *ssa.MakeInterface:
			v = x.X
		default:
			return v
		}
	}
}

// StaticCallee returns the statically known callee of a call instruction (nil for dynamic calls).
func StaticCallee(in ssa.Instruction) *ssa.Function {
	c, ok := in.(ssa.CallInstruction)
	if !ok {
		return nil
	}
	return c.Common().StaticCallee()
}

// CalleeIs reports whether a call instruction statically calls pkgpath.(recv).name; recv "" for functions.
// pkg is matched by suffix so both "crypto/md5" and module-relative "pkg/radius" work.
func CalleeIs(in ssa.Instruction, pkgSuffix, recv, name string) bool {
	return FuncIs(StaticCallee(in), pkgSuffix, recv, name)
}

func FuncIs(f *ssa.Function, pkgSuffix, recv, name string) bool {
	if f == nil || f.Name() != name {
		return false
	}
	var pkg *types.Package
	if f.Object() != nil {
		pkg = f.Object().Pkg()
	} else if f.Pkg != nil {
		pkg = f.Pkg.Pkg
	}
	if pkg == nil || !(pkg.Path() == pkgSuffix || strings.HasSuffix(pkg.Path(), "/"+pkgSuffix)) {
		return false
	}
	return RecvTypeName(f) == recv
}

// RecvTypeName returns the name of the receiver's named type ("" for plain functions).
func RecvTypeName(f *ssa.Function) string {
	if f == nil || f.Signature.Recv() == nil {
		return ""
	}
	t := f.Signature.Recv().Type()
	if p, ok := t.(*types.Pointer); ok {
		t = p.Elem()
	}
	if n, ok := t.(*types.Named); ok {
		return n.Obj().Name()
	}
	return ""
}

// Instrs calls fn for every instruction of f (not of nested closures).
func Instrs(f *ssa.Function, fn func(in ssa.Instruction)) {
	for _, b := range f.Blocks {
		for _, in := range b.Instrs {
			fn(in)
		}
	}
}

// WithAnon returns f and all its (transitively) nested anonymous functions.
func WithAnon(f *ssa.Function) []*ssa.Function {
	out := []*ssa.Function{f}
	for _, a := range f.AnonFuncs {
		out = append(out, WithAnon(a)...)
	}
	return out
}

// Calls returns all call instructions (call, go, defer) in f.
func Calls(f *ssa.Function) []ssa.CallInstruction {
	var out []ssa.CallInstruction
	Instrs(f, func(in ssa.Instruction) {
		if c, ok := in.(ssa.CallInstruction); ok {
			out = append(out, c)
		}
	})
	return out
}

// FieldOf returns the struct field addressed/read by v (FieldAddr or Field, through a load), or nil.
func FieldOf(v ssa.Value) *types.Var {
	switch x := v.(type) {
	case *ssa.UnOp:
		if x.Op == token.MUL {
			return FieldOf(x.X)
		}
	case *ssa.FieldAddr:
		return structField(x.X.Type(), x.Field)
	case *ssa.Field:
		return structField(x.X.Type(), x.Field)
	}
	return nil
}

func structField(t types.Type, i int) *types.Var {
	if p, ok := t.Underlying().(*types.Pointer); ok {
		t = p.Elem()
	}
	if s, ok := t.Underlying().(*types.Struct); ok && i < s.NumFields() {
		return s.Field(i)
	}
	return nil
}

// FieldOwner renders T.f for a field access value ("" when v is not a field access).
func FieldOwner(v ssa.Value) string {
	var base ssa.Value
	var idx int
	switch x := v.(type) {
	case *ssa.UnOp:
		if x.Op == token.MUL {
			return FieldOwner(x.X)
		}
		return ""
	case *ssa.FieldAddr:
		base, idx = x.X, x.Field
	case *ssa.Field:
		base, idx = x.X, x.Field
	default:
		return ""
	}
	t := base.Type()
	if p, ok := t.Underlying().(*types.Pointer); ok {
		t = p.Elem()
	}
	f := structField(t, idx)
	if f == nil {
		return ""
	}
	if n, ok := t.(*types.Named); ok {
		return n.Obj().Name() + "." + f.Name()
	}
	return "." + f.Name()
}

// ReachableFuncs returns the set of functions reachable from roots in the call graph (roots included).
// stop, when non-nil, prunes traversal below functions for which it returns true (they are still included).
func ReachableFuncs(cg *callgraph.Graph, roots []*ssa.Function, stop func(*ssa.Function) bool) map[*ssa.Function]bool {
	seen := map[*ssa.Function]bool{}
	var work []*ssa.Function
	for _, r := range roots {
		if r != nil && !seen[r] {
			seen[r] = true
			work = append(work, r)
		}
	}
	for len(work) > 0 {
		f := work[len(work)-1]
		work = work[:len(work)-1]
		if stop != nil && stop(f) {
			continue
		}
		n := cg.Nodes[f]
		if n == nil {
			continue
		}
		for _, e := range n.Out {
			c := e.Callee.Func
			if !seen[c] {
				seen[c] = true
				work = append(work, c)
			}
		}
		// closures created inside f run (at the latest) under f's control: include them
		for _, a := range f.AnonFuncs {
			if !seen[a] {
				seen[a] = true
				work = append(work, a)
			}
		}
	}
	return seen
}

// Callers returns the functions with a call edge to f, sorted by name.
func Callers(cg *callgraph.Graph, f *ssa.Function) []*ssa.Function {
	n := cg.Nodes[f]
	if n == nil {
		return nil
	}
	set := map[*ssa.Function]bool{}
	for _, e := range n.In {
		set[e.Caller.Func] = true
	}
	var out []*ssa.Function
	for c := range set {
		out = append(out, c)
	}
	sort.Slice(out, func(i, j int) bool { return out[i].String() < out[j].String() })
	return out
}

// MustPassThrough reports whether every CFG path from just after `from` to a return (or panic exit) of its
// function executes an instruction satisfying pred.  Paths that end in a block satisfying exempt (e.g. a
// particular error return) are ignored when exempt != nil.
func MustPassThrough(from ssa.Instruction, pred func(ssa.Instruction) bool, exempt func(*ssa.BasicBlock) bool) (bool, *ssa.BasicBlock) {
	b := from.Block()
	idx := -1
	for i, in := range b.Instrs {
		if in == from {
			idx = i
			break
		}
	}
	// rest of own block
	for _, in := range b.Instrs[idx+1:] {
		if pred(in) {
			return true, nil
		}
	}
	seen := map[*ssa.BasicBlock]bool{}
	var bad *ssa.BasicBlock
	var walk func(x *ssa.BasicBlock) bool
	walk = func(x *ssa.BasicBlock) bool {
		if seen[x] {
			return true
		}
		seen[x] = true
		for _, in := range x.Instrs {
			if pred(in) {
				return true
			}
		}
		if len(x.Succs) == 0 {
			if exempt != nil && exempt(x) {
				return true
			}
			bad = x
			return false
		}
		for _, s := range x.Succs {
			if !walk(s) {
				return false
			}
		}
		return true
	}
	if len(b.Succs) == 0 {
		if exempt != nil && exempt(b) {
			return true, nil
		}
		return false, b
	}
	for _, s := range b.Succs {
		if !walk(s) {
			return false, bad
		}
	}
	return true, nil
}

// InstrDominates reports whether a executes before b on every path reaching b (same function).
func InstrDominates(a, b ssa.Instruction) bool {
	if a.Block() == b.Block() {
		for _, in := range a.Block().Instrs {
			if in == a {
				return true
			}
			if in == b {
				return false
			}
		}
		return false
	}
	return a.Block().Dominates(b.Block())
}

// EdgeFact returns the branch fact established by taking the CFG edge pred→succ when pred ends in an If.
func EdgeFact(pred, succ *ssa.BasicBlock) (Fact, bool) {
	if len(pred.Instrs) == 0 {
		return Fact{}, false
	}
	iff, ok := pred.Instrs[len(pred.Instrs)-1].(*ssa.If)
	if !ok || pred.Succs[0] == pred.Succs[1] {
		return Fact{}, false
	}
	switch succ {
	case pred.Succs[0]:
		return norm(iff.Cond, true, pred), true
	case pred.Succs[1]:
		return norm(iff.Cond, false, pred), true
	}
	return Fact{}, false
}

// FirstOnAllPaths reports whether, on every CFG path starting just after `from`, an instruction satisfying a
// is executed before any instruction satisfying b.  Paths that reach neither are acceptable when
// needA is false (they simply never do b); with needA they are not.
func FirstOnAllPaths(from ssa.Instruction, a, b func(ssa.Instruction) bool, needA bool) (bool, ssa.Instruction) {
	blk := from.Block()
	idx := 0
	for i, in := range blk.Instrs {
		if in == from {
			idx = i + 1
		}
	}
	seen := map[*ssa.BasicBlock]bool{}
	var bad ssa.Instruction
	var walk func(x *ssa.BasicBlock, start int) bool
	walk = func(x *ssa.BasicBlock, start int) bool {
		if start == 0 {
			if seen[x] {
				return true
			}
			seen[x] = true
		}
		for _, in := range x.Instrs[start:] {
			if a(in) {
				return true
			}
			if b(in) {
				bad = in
				return false
			}
		}
		if len(x.Succs) == 0 {
			if needA {
				bad = x.Instrs[len(x.Instrs)-1]
				return false
			}
			return true
		}
		for _, s := range x.Succs {
			if !walk(s, 0) {
				return false
			}
		}
		return true
	}
	ok := walk(blk, idx)
	return ok, bad
}

// ReachableWithout reports whether some CFG path leads from just after `from` to instruction `to` without
// executing an instruction satisfying avoid.
func ReachableWithout(from, to ssa.Instruction, avoid func(ssa.Instruction) bool) bool {
	blk := from.Block()
	idx := 0
	for i, in := range blk.Instrs {
		if in == from {
			idx = i + 1
		}
	}
	seen := map[*ssa.BasicBlock]bool{}
	var walk func(x *ssa.BasicBlock, start int) bool
	walk = func(x *ssa.BasicBlock, start int) bool {
		if start == 0 {
			if seen[x] {
				return false
			}
			seen[x] = true
		}
		for _, in := range x.Instrs[start:] {
			if in == to {
				return true
			}
			if avoid != nil && avoid(in) {
				return false
			}
		}
		for _, s := range x.Succs {
			if walk(s, 0) {
				return true
			}
		}
		return false
	}
	return walk(blk, idx)
}

// ReturnValues returns the values a Return instruction yields, looking through the spill cells go/ssa introduces
// for functions with defers (results are stored to a local, deferred calls run, then the local is re-loaded).
func ReturnValues(ret *ssa.Return) []ssa.Value {
	out := make([]ssa.Value, len(ret.Results))
	for i, r := range ret.Results {
		out[i] = r
		ld, ok := r.(*ssa.UnOp)
		if !ok || ld.Op != token.MUL {
			continue
		}
		al, ok := ld.X.(*ssa.Alloc)
		if !ok {
			continue
		}
		// last store to the cell in the returning block before the load
		for _, in := range ret.Block().Instrs {
			if in == ssa.Instruction(ld) {
				break
			}
			if st, ok := in.(*ssa.Store); ok && st.Addr == ssa.Value(al) {
				out[i] = st.Val
			}
		}
	}
	return out
}
