package lin

import "testing"

func TestProve(t *testing.T) {
	x, n, l := Var(1), Var(2), Var(3)
	// facts: x>=0, n>=0, len>=0, len - x - n >= 0   goal: len - x >= 0
	facts := []Form{x, n, l, l.Sub(x).Sub(n)}
	if !Prove(facts, l.Sub(x)) {
		t.Fatal("should prove")
	}
	if Prove(facts, x.Sub(l)) {
		t.Fatal("should not prove")
	}
	// n >= 2, off+n <= len, off>=0 : goal off+1 < len  i.e. len-off-2>=0
	off := Var(4)
	facts = []Form{off, n.AddK(-2), l.Sub(off).Sub(n)}
	if !Prove(facts, l.Sub(off).AddK(-2)) {
		t.Fatal("should prove 2")
	}
	if Prove(facts, l.Sub(off).AddK(-3)) {
		t.Fatal("should not prove 3")
	}
}
