// Package lin implements linear forms over opaque atoms and a small Fourier–Motzkin refutation
// procedure: the abstract domain of the bounds checker (no external solver is involved).
package lin

import (
	"fmt"
	"sort"
	"strings"
)

// Atom is an opaque variable id handed out by the client (deterministic order).
type Atom int

// Form is Σ T[a]·a + K.
type Form struct {
	K int64
	T map[Atom]int64
}

func Const(k int64) Form { return Form{K: k} }

func Var(a Atom) Form { return Form{T: map[Atom]int64{a: 1}} }

func (f Form) clone() Form {
	g := Form{K: f.K, T: make(map[Atom]int64, len(f.T))}
	for a, c := range f.T {
		g.T[a] = c
	}
	return g
}

func (f Form) Add(g Form) Form {
	r := f.clone()
	r.K += g.K
	for a, c := range g.T {
		r.T[a] += c
		if r.T[a] == 0 {
			delete(r.T, a)
		}
	}
	return r
}

func (f Form) Scale(k int64) Form {
	r := Form{K: f.K * k, T: map[Atom]int64{}}
	if k == 0 {
		return r
	}
	for a, c := range f.T {
		r.T[a] = c * k
	}
	return r
}

func (f Form) Sub(g Form) Form { return f.Add(g.Scale(-1)) }

func (f Form) AddK(k int64) Form { r := f.clone(); r.K += k; return r }

// Subst replaces atom a by form g.
func (f Form) Subst(a Atom, g Form) Form {
	c, ok := f.T[a]
	if !ok {
		return f
	}
	r := f.clone()
	delete(r.T, a)
	return r.Add(g.Scale(c))
}

// Has reports whether atom a occurs in f.
func (f Form) Has(a Atom) bool { _, ok := f.T[a]; return ok }

func (f Form) IsConst() bool { return len(f.T) == 0 }

// String renders with a caller-supplied atom namer.
func (f Form) String(name func(Atom) string) string {
	var parts []string
	for a, c := range f.T {
		n := name(a)
		switch c {
		case 1:
			parts = append(parts, n)
		case -1:
			parts = append(parts, "-"+n)
		default:
			parts = append(parts, fmt.Sprintf("%d*%s", c, n))
		}
	}
	sort.Strings(parts)
	if f.K != 0 || len(parts) == 0 {
		parts = append(parts, fmt.Sprint(f.K))
	}
	return strings.Join(parts, " + ")
}

// Prove reports whether goal ≥ 0 follows from facts (each fact is a form known to be ≥ 0) over the
// integers (rationals, with the usual strict-to-nonstrict tightening done by the caller).
// It refutes facts ∧ (−goal − 1 ≥ 0) by Fourier–Motzkin elimination.  Incomplete by design: gives up
// (returns false) when the constraint set grows beyond maxRows.
func Prove(facts []Form, goal Form) bool {
	const maxRows = 400
	rows := make([]Form, 0, len(facts)+1)
	rows = append(rows, goal.Scale(-1).AddK(-1))
	// keep only facts connected (transitively) to the goal's atoms
	rel := map[Atom]bool{}
	for a := range goal.T {
		rel[a] = true
	}
	used := make([]bool, len(facts))
	for changed := true; changed; {
		changed = false
		for i, f := range facts {
			if used[i] {
				continue
			}
			hit := len(f.T) == 0
			for a := range f.T {
				if rel[a] {
					hit = true
					break
				}
			}
			if hit {
				used[i] = true
				changed = true
				rows = append(rows, f)
				for a := range f.T {
					rel[a] = true
				}
			}
		}
	}
	for {
		// contradiction?
		for _, r := range rows {
			if len(r.T) == 0 && r.K < 0 {
				return true
			}
		}
		// choose atom with the fewest pos*neg products
		cnt := map[Atom][2]int{}
		for _, r := range rows {
			for a, c := range r.T {
				x := cnt[a]
				if c > 0 {
					x[0]++
				} else {
					x[1]++
				}
				cnt[a] = x
			}
		}
		if len(cnt) == 0 {
			return false
		}
		var best Atom
		bestCost := -1
		var keys []Atom
		for a := range cnt {
			keys = append(keys, a)
		}
		// deterministic order
		sort.Slice(keys, func(i, j int) bool { return keys[i] < keys[j] })
		for _, a := range keys {
			x := cnt[a]
			cost := x[0]*x[1] - x[0] - x[1]
			if bestCost == -1 || cost < bestCost {
				best, bestCost = a, cost
			}
		}
		var pos, neg, rest []Form
		for _, r := range rows {
			c := r.T[best]
			switch {
			case c > 0:
				pos = append(pos, r)
			case c < 0:
				neg = append(neg, r)
			default:
				rest = append(rest, r)
			}
		}
		for _, p := range pos {
			for _, n := range neg {
				cp, cn := p.T[best], -n.T[best]
				g := gcd(cp, cn)
				comb := p.Scale(cn / g).Add(n.Scale(cp / g))
				delete(comb.T, best)
				rest = append(rest, reduce(comb))
			}
		}
		if len(rest) > maxRows {
			return false
		}
		rows = dedup(rest)
	}
}

func gcd(a, b int64) int64 {
	if a < 0 {
		a = -a
	}
	if b < 0 {
		b = -b
	}
	for b != 0 {
		a, b = b, a%b
	}
	if a == 0 {
		return 1
	}
	return a
}

// reduce divides by the gcd of the coefficients and floors the constant (integer tightening).
func reduce(f Form) Form {
	if len(f.T) == 0 {
		return f
	}
	var g int64
	for _, c := range f.T {
		g = gcd(g, c)
		if g == 0 {
			g = c
		}
	}
	if g <= 1 {
		return f
	}
	r := Form{T: map[Atom]int64{}}
	for a, c := range f.T {
		r.T[a] = c / g
	}
	// floor division for K
	k := f.K / g
	if f.K%g != 0 && f.K < 0 {
		k--
	}
	r.K = k
	return r
}

func dedup(rows []Form) []Form {
	seen := map[string]bool{}
	var out []Form
	for _, r := range rows {
		if len(r.T) == 0 && r.K >= 0 {
			continue
		}
		k := r.String(func(a Atom) string { return fmt.Sprintf("a%d", int(a)) })
		if !seen[k] {
			seen[k] = true
			out = append(out, r)
		}
	}
	return out
}
