// Package report collects obligations decided by an engine, matches failures against the
// committed known-findings file, writes the evidence JSON and prints VIOLATION / KNOWN-FINDING lines.
package report

import (
	"bufio"
	"encoding/json"
	"fmt"
	"os"
	"path/filepath"
	"regexp"
	"sort"
	"strconv"
	"strings"
	"time"
)

// Oblig is one decided obligation.
type Oblig struct {
	Rule   string `json:"rule"`
	Key    string `json:"key"` // rule|function|construct  (position-free)
	Pos    string `json:"pos"` // file:line (diagnostic only, not part of the key)
	OK     bool   `json:"ok"`
	Detail string `json:"detail,omitempty"`
}

type rule struct {
	ID    string
	Text  string
	Floor int
	n     int
}

// Report accumulates the outcome of one check run.
type Report struct {
	Prop, Tier string
	Seed       int
	Level      string
	Explain    string
	VerifDir   string
	start      time.Time
	rules      []*rule
	ruleIdx    map[string]*rule
	obligs     []Oblig
	keys       map[string]int
	fatal      []string
	counts     map[string]int
	lists      map[string][]string
	assume     []string
	notes      []string
	triage     map[string]string
	triageHit  map[string]bool
	altKeys    map[string]int
}

func New(prop, tier, verifDir string) *Report {
	seed, _ := strconv.Atoi(os.Getenv("VERIF_SEED"))
	return &Report{Prop: prop, Tier: tier, Seed: seed, Level: "other", VerifDir: verifDir, start: time.Now(),
		ruleIdx: map[string]*rule{}, keys: map[string]int{}, counts: map[string]int{}, lists: map[string][]string{}}
}

// Rule declares a rule, its text and the minimum number of instances confirmed by hand on the pinned tree.
func (r *Report) Rule(id, text string, floor int) {
	if _, ok := r.ruleIdx[id]; ok {
		return
	}
	ru := &rule{ID: id, Text: text, Floor: floor}
	r.rules = append(r.rules, ru)
	r.ruleIdx[id] = ru
}

// Check records one obligation.  fn is the function (pkg.(*T).M), construct names the site without a position.
func (r *Report) Check(ruleID, fn, construct, pos string, ok bool, detail string) {
	ru := r.ruleIdx[ruleID]
	if ru == nil {
		r.Fatal("internal: obligation for undeclared rule " + ruleID)
		return
	}
	ru.n++
	key := ruleID + "|" + fn + "|" + construct
	r.keys[key]++
	if n := r.keys[key]; n > 1 {
		key = fmt.Sprintf("%s#%d", key, n)
	}
	if !ok {
		if why, listed := r.triage[key]; listed {
			r.triageHit[key] = true
			r.counts["triaged_sites"]++
			ok = true
			detail = "undecided by the domain (" + detail + "); triaged — " + why
			r.lists["triaged"] = append(r.lists["triaged"], key+" — "+why)
		}
	}
	r.obligs = append(r.obligs, Oblig{Rule: ruleID, Key: key, Pos: pos, OK: ok, Detail: detail})
}

// CheckAlt is Check with a second, coarser name for the site, used only to look an UNDECIDED site up in the triage
// table: an entry written as rule|fn|~coarse covers the n-th undecided site of that coarse shape in the function
// (n counted over undecided sites only), so the entry survives rewrites that change how the same object is reached
// (range loop vs index loop, a local alias) while a further undecided site of the same shape is still reported.
func (r *Report) CheckAlt(ruleID, fn, construct, coarse, pos string, ok bool, detail string) {
	if !ok && coarse != "" {
		full := ruleID + "|" + fn + "|" + construct
		n := r.keys[full] + 1
		k := full
		if n > 1 {
			k = fmt.Sprintf("%s#%d", full, n)
		}
		if _, listed := r.triage[k]; !listed {
			alt := ruleID + "|" + fn + "|~" + coarse
			if r.altKeys == nil {
				r.altKeys = map[string]int{}
			}
			r.altKeys[alt]++
			if m := r.altKeys[alt]; m > 1 {
				alt = fmt.Sprintf("%s#%d", alt, m)
			}
			if why, listedAlt := r.triage[alt]; listedAlt {
				r.triageHit[alt] = true
				r.counts["triaged_sites"]++
				r.lists["triaged"] = append(r.lists["triaged"], alt+" — "+why)
				r.Check(ruleID, fn, construct, pos, true, "undecided by the domain ("+detail+"); triaged — "+why)
				return
			}
		}
	}
	r.Check(ruleID, fn, construct, pos, ok, detail)
}

// LoadTriage reads a frozen triage table: lines `key :: category :: reason`.  A failing obligation whose key is
// listed is accepted with the recorded reason (it is a site the abstract domain cannot decide, confirmed by
// reading); an entry that matches no obligation is reported as stale in the evidence.
func (r *Report) LoadTriage(name string) {
	path := filepath.Join(r.VerifDir, "triage", name)
	f, err := os.Open(path)
	if err != nil {
		r.Fatalf("triage table %s: %v", path, err)
		return
	}
	defer f.Close()
	if r.triage == nil {
		r.triage = map[string]string{}
		r.triageHit = map[string]bool{}
		r.altKeys = map[string]int{}
	}
	sc := bufio.NewScanner(f)
	sc.Buffer(make([]byte, 1<<20), 1<<20)
	for sc.Scan() {
		line := strings.TrimSpace(sc.Text())
		if line == "" || strings.HasPrefix(line, "#") {
			continue
		}
		parts := strings.SplitN(line, " :: ", 3)
		if len(parts) != 3 {
			r.Fatalf("triage table %s: malformed line %q", name, line)
			continue
		}
		r.triage[parts[0]] = parts[1] + ": " + parts[2]
	}
}

// Fatal records a failure of the analysis itself (unresolved anchor, vacuous rule, type error, undecided site).
func (r *Report) Fatal(msg string) { r.fatal = append(r.fatal, msg) }

func (r *Report) Fatalf(f string, a ...any) { r.Fatal(fmt.Sprintf(f, a...)) }

// Count adds to a named "what was analysed" counter.
func (r *Report) Count(name string, n int) { r.counts[name] += n }

// List appends to a named list shown in evidence (functions analysed, paths, ...).
func (r *Report) List(name, item string) { r.lists[name] = append(r.lists[name], item) }

// ListLen returns the items recorded under a named list.
func (r *Report) ListLen(name string) []string { return r.lists[name] }

func (r *Report) Assume(s string) { r.assume = append(r.assume, s) }
func (r *Report) Note(s string)   { r.notes = append(r.notes, s) }

type finding struct {
	Prop, Key, Text string
}

var findingRe = regexp.MustCompile(`^finding:\s+property=(C\d+)\s+key="([^"]+)"\s*(.*)$`)

func loadFindings(path string) ([]finding, error) {
	f, err := os.Open(path)
	if err != nil {
		if os.IsNotExist(err) {
			return nil, nil
		}
		return nil, err
	}
	defer f.Close()
	var out []finding
	sc := bufio.NewScanner(f)
	sc.Buffer(make([]byte, 1<<20), 1<<20)
	for sc.Scan() {
		line := strings.TrimSpace(sc.Text())
		if m := findingRe.FindStringSubmatch(line); m != nil {
			out = append(out, finding{m[1], m[2], m[3]})
		}
	}
	return out, sc.Err()
}

// Finish evaluates floors, matches known findings, writes evidence and the replay file,
// prints the verdict lines and returns the process exit code.
func (r *Report) Finish() int {
	if strings.TrimSpace(r.Explain) == "" {
		r.Fatal("internal: evidence explanation missing for " + r.Prop)
	}
	for _, ru := range r.rules {
		if ru.n < ru.Floor {
			r.Fatalf("rule-vacuous: rule %s matched %d instances, floor (hand-confirmed on the pinned tree) is %d", ru.ID, ru.n, ru.Floor)
		}
	}
	known, err := loadFindings(filepath.Join(r.VerifDir, "known_findings.txt"))
	if err != nil {
		r.Fatalf("known_findings.txt: %v", err)
	}
	knownIdx := map[string]finding{}
	for _, k := range known {
		if k.Prop == r.Prop {
			knownIdx[k.Key] = k
		}
	}
	var viol, knownHit []Oblig
	seenKnown := map[string]bool{}
	discharged := 0
	for _, o := range r.obligs {
		if o.OK {
			discharged++
			continue
		}
		if _, ok := knownIdx[o.Key]; ok {
			knownHit = append(knownHit, o)
			seenKnown[o.Key] = true
		} else {
			viol = append(viol, o)
		}
	}
	var stale []string
	for k := range knownIdx {
		if !seenKnown[k] {
			stale = append(stale, k)
		}
	}
	sort.Strings(stale)
	var staleTriage []string
	for k := range r.triage {
		if !r.triageHit[k] {
			staleTriage = append(staleTriage, k)
		}
	}
	sort.Strings(staleTriage)

	for _, o := range knownHit {
		fmt.Printf("KNOWN-FINDING: property=%s key=%q %s [%s] %s\n", r.Prop, o.Key, knownIdx[o.Key].Text, o.Pos, o.Detail)
	}
	nviol := len(viol) + len(r.fatal)
	replay := filepath.Join(r.VerifDir, "evidence", r.Prop+".violation.txt")
	os.MkdirAll(filepath.Join(r.VerifDir, "evidence"), 0o755)
	if nviol > 0 {
		var sb strings.Builder
		fmt.Fprintf(&sb, "property %s tier %s: %d violation(s)\n", r.Prop, r.Tier, nviol)
		for _, m := range r.fatal {
			fmt.Fprintf(&sb, "ANALYSIS-FAILURE: %s\n", m)
		}
		for _, o := range viol {
			txt := ""
			if ru := r.ruleIdx[o.Rule]; ru != nil {
				txt = ru.Text
			}
			fmt.Fprintf(&sb, "VIOLATED %s\n  at   %s\n  key  %s\n  why  %s\n  rule %s\n", o.Rule, o.Pos, o.Key, o.Detail, txt)
		}
		os.WriteFile(replay, []byte(sb.String()), 0o644)
		fmt.Print(sb.String())
		fmt.Printf("VIOLATION property=%s replay=%s\n", r.Prop, replay)
	} else {
		os.Remove(replay)
	}

	// evidence
	type ruleEv struct {
		ID        string `json:"id"`
		Text      string `json:"text"`
		Floor     int    `json:"instance_floor"`
		Instances int    `json:"instances"`
	}
	var rules []ruleEv
	for _, ru := range r.rules {
		rules = append(rules, ruleEv{ru.ID, ru.Text, ru.Floor, ru.n})
	}
	samples := []any{}
	perRule := map[string]int{}
	for _, o := range r.obligs {
		if perRule[o.Rule] < 4 || !o.OK {
			perRule[o.Rule]++
			samples = append(samples, o)
		}
	}
	if len(samples) == 0 {
		samples = append(samples, "no obligations generated")
	}
	var kf []string
	for _, o := range knownHit {
		kf = append(kf, o.Key)
	}
	cov := map[string]any{
		"explanation":          r.Explain,
		"obligations":          len(r.obligs),
		"discharged":           discharged,
		"known_findings":       kf,
		"stale_known_findings": stale,
		"stale_triage_entries": staleTriage,
		"rules":                rules,
		"analysed":             r.counts,
		"samples":              samples,
		"notes":                r.notes,
		"analysis_failures":    r.fatal,
		"exhaustive":           false,
		"evaluations":          max(len(r.obligs), 1),
		"distinct_nontrivial":  max(len(r.keys), 2),
		"rule":                 "one evaluation = one obligation (rule instance at one construct of /repo's current source); distinct = distinct position-free obligation keys",
	}
	for k, v := range r.lists {
		sort.Strings(v)
		cov[k] = v
	}
	ev := map[string]any{
		"property_id": r.Prop,
		"tier":        r.Tier,
		"seed":        r.Seed,
		"level":       r.Level,
		"coverage":    cov,
		"assumptions": append([]string{"go/types + go/ssa (x/tools v0.29.0) model the program faithfully; clang 14 record layouts equal the BPF target's"}, r.assume...),
		"wall_s":      time.Since(r.start).Seconds(),
		"violations":  nviol,
	}
	b, _ := json.MarshalIndent(ev, "", " ")
	if err := os.WriteFile(filepath.Join(r.VerifDir, "evidence", r.Prop+".json"), b, 0o644); err != nil {
		fmt.Fprintf(os.Stderr, "cannot write evidence: %v\n", err)
		return 2
	}
	fmt.Printf("%s %s: %d obligations, %d discharged, %d known findings, %d violations (%.1fs)\n",
		r.Prop, r.Tier, len(r.obligs), discharged, len(knownHit), nviol, time.Since(r.start).Seconds())
	if nviol > 0 {
		return 1
	}
	return 0
}
