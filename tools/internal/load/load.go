// Package load loads /repo's current working tree as a type-checked program
// (go/packages, LoadAllSyntax) and, on demand, its SSA form and call graph.
package load

import (
	"fmt"
	"go/ast"
	"go/token"
	"go/types"
	"os"
	"path/filepath"
	"sort"
	"strings"
	"sync"

	"golang.org/x/tools/go/callgraph"
	"golang.org/x/tools/go/callgraph/cha"
	"golang.org/x/tools/go/callgraph/vta"
	"golang.org/x/tools/go/packages"
	"golang.org/x/tools/go/ssa"
	"golang.org/x/tools/go/ssa/ssautil"
)

const ModPath = "github.com/codelaboratoryltd/bng"

// Prog is the loaded program.
type Prog struct {
	Dir   string
	Fset  *token.FileSet
	Pkgs  []*packages.Package          // module packages (not deps), sorted by path
	ByPth map[string]*packages.Package // import path -> package (module packages only)
	All   map[string]*packages.Package // every package incl. deps

	ssaOnce sync.Once
	SSAProg *ssa.Program
	ssaPkgs map[*packages.Package]*ssa.Package

	cgOnce sync.Once
	cg     *callgraph.Graph

	InlineLog []string // new helper functions inlined into their callers before the analysis (see inline.go)
}

// BaselineFuncs is the path of the list of functions the rules were written against ("" = no inlining pre-pass).
var BaselineFuncs string

// Load type-checks ./... under dir. Any type error is returned as an error:
// an analysis of a program that does not type-check decides nothing.
func Load(dir string, needDeps bool) (*Prog, error) {
	mode := packages.NeedName | packages.NeedFiles | packages.NeedCompiledGoFiles | packages.NeedImports |
		packages.NeedTypes | packages.NeedTypesSizes | packages.NeedSyntax | packages.NeedTypesInfo | packages.NeedDeps | packages.NeedModule
	env := []string{}
	for _, e := range os.Environ() {
		if strings.HasPrefix(e, "GOWORK=") {
			continue
		}
		env = append(env, e)
	}
	env = append(env, "GOWORK=off")
	var overlay map[string][]byte
	var inlineLog []string
	if BaselineFuncs != "" {
		var ierr error
		overlay, inlineLog, ierr = InlineNewHelpers(dir, BaselineFuncs, env)
		if ierr != nil {
			inlineLog = append(inlineLog, "inline pre-pass failed: "+ierr.Error())
			overlay = nil
		}
	}
	if d := os.Getenv("BNGVET_DUMP_OVERLAY"); d != "" { // debugging aid: what the rules actually see
		for f, b := range overlay {
			rel, _ := filepath.Rel(dir, f)
			os.MkdirAll(filepath.Join(d, filepath.Dir(rel)), 0o755)
			os.WriteFile(filepath.Join(d, rel), b, 0o644)
		}
	}
	cfg := &packages.Config{Mode: mode, Dir: dir, Env: env, Tests: false, Overlay: overlay}
	initial, err := packages.Load(cfg, "./...")
	if err != nil {
		return nil, fmt.Errorf("packages.Load: %v", err)
	}
	if len(initial) == 0 {
		return nil, fmt.Errorf("no packages loaded from %s", dir)
	}
	p := &Prog{Dir: dir, ByPth: map[string]*packages.Package{}, All: map[string]*packages.Package{}, InlineLog: inlineLog}
	var errs []string
	packages.Visit(initial, nil, func(pk *packages.Package) {
		p.All[pk.PkgPath] = pk
		if strings.HasPrefix(pk.PkgPath, ModPath) {
			for _, e := range pk.Errors {
				errs = append(errs, e.Error())
			}
		}
	})
	for _, pk := range initial {
		if p.Fset == nil {
			p.Fset = pk.Fset
		}
		if !strings.HasPrefix(pk.PkgPath, ModPath) {
			continue
		}
		p.Pkgs = append(p.Pkgs, pk)
		p.ByPth[pk.PkgPath] = pk
	}
	sort.Slice(p.Pkgs, func(i, j int) bool { return p.Pkgs[i].PkgPath < p.Pkgs[j].PkgPath })
	if len(errs) > 0 {
		sort.Strings(errs)
		if len(errs) > 10 {
			errs = errs[:10]
		}
		return nil, fmt.Errorf("type errors in %s:\n  %s", dir, strings.Join(errs, "\n  "))
	}
	if len(p.Pkgs) == 0 {
		return nil, fmt.Errorf("no module packages under %s", dir)
	}
	return p, nil
}

// Pkg returns the module package with the given path relative to the module root, e.g. "pkg/radius".
func (p *Prog) Pkg(rel string) *packages.Package {
	return p.ByPth[ModPath+"/"+rel]
}

// Pos renders a position relative to the repo root.
func (p *Prog) Pos(pos token.Pos) string {
	if !pos.IsValid() {
		return "-"
	}
	ps := p.Fset.Position(pos)
	f := strings.TrimPrefix(ps.Filename, p.Dir+"/")
	return fmt.Sprintf("%s:%d", f, ps.Line)
}

// FuncDecl finds a function or method declaration. recv is "" for functions,
// otherwise the receiver's named type (without '*').
func (p *Prog) FuncDecl(rel, recv, name string) (*ast.FuncDecl, *packages.Package) {
	pk := p.Pkg(rel)
	if pk == nil {
		return nil, nil
	}
	for _, f := range pk.Syntax {
		for _, d := range f.Decls {
			fd, ok := d.(*ast.FuncDecl)
			if !ok || fd.Name.Name != name {
				continue
			}
			if RecvName(fd) == recv {
				return fd, pk
			}
		}
	}
	return nil, pk
}

// RecvName returns the receiver's type name of a method declaration ("" for a function).
func RecvName(fd *ast.FuncDecl) string {
	if fd.Recv == nil || len(fd.Recv.List) == 0 {
		return ""
	}
	t := fd.Recv.List[0].Type
	for {
		switch x := t.(type) {
		case *ast.StarExpr:
			t = x.X
		case *ast.ParenExpr:
			t = x.X
		case *ast.IndexExpr:
			t = x.X
		case *ast.IndexListExpr:
			t = x.X
		case *ast.Ident:
			return x.Name
		default:
			return ""
		}
	}
}

// FuncName renders a declaration as pkg.(*T).M or pkg.F (short package name).
func FuncName(pk *packages.Package, fd *ast.FuncDecl) string {
	if r := RecvName(fd); r != "" {
		return fmt.Sprintf("%s.(*%s).%s", pk.Name, r, fd.Name.Name)
	}
	return pk.Name + "." + fd.Name.Name
}

// AllFuncDecls iterates over every function declaration with a body in a package.
func AllFuncDecls(pk *packages.Package, fn func(fd *ast.FuncDecl)) {
	for _, f := range pk.Syntax {
		for _, d := range f.Decls {
			if fd, ok := d.(*ast.FuncDecl); ok && fd.Body != nil {
				fn(fd)
			}
		}
	}
}

// SSA builds (once) the SSA form of the whole program.
func (p *Prog) SSA() *ssa.Program {
	p.ssaOnce.Do(func() {
		var initial []*packages.Package
		for _, pk := range p.Pkgs {
			initial = append(initial, pk)
		}
		prog, pkgs := ssautil.AllPackages(initial, ssa.InstantiateGenerics)
		prog.Build()
		p.SSAProg = prog
		p.ssaPkgs = map[*packages.Package]*ssa.Package{}
		for i, pk := range initial {
			p.ssaPkgs[pk] = pkgs[i]
		}
	})
	return p.SSAProg
}

// SSAPkg returns the SSA package for a module-relative path.
func (p *Prog) SSAPkg(rel string) *ssa.Package {
	p.SSA()
	pk := p.Pkg(rel)
	if pk == nil {
		return nil
	}
	return p.ssaPkgs[pk]
}

// SSAFunc finds pkg function or method (recv without '*'; pointer and value receivers both tried).
func (p *Prog) SSAFunc(rel, recv, name string) *ssa.Function {
	sp := p.SSAPkg(rel)
	if sp == nil {
		return nil
	}
	if recv == "" {
		return sp.Func(name)
	}
	tn, _ := sp.Pkg.Scope().Lookup(recv).(*types.TypeName)
	if tn == nil {
		return nil
	}
	for _, t := range []types.Type{types.NewPointer(tn.Type()), tn.Type()} {
		ms := p.SSAProg.MethodSets.MethodSet(t)
		for i := 0; i < ms.Len(); i++ {
			if ms.At(i).Obj().Name() == name && ms.At(i).Obj().Pkg() == sp.Pkg {
				return p.SSAProg.MethodValue(ms.At(i))
			}
		}
	}
	return nil
}

// CallGraph builds (once) the VTA call graph seeded by CHA.
func (p *Prog) CallGraph() *callgraph.Graph {
	p.cgOnce.Do(func() {
		prog := p.SSA()
		p.cg = vta.CallGraph(ssautil.AllFunctions(prog), cha.CallGraph(prog))
	})
	return p.cg
}

// InModule reports whether fn belongs to the analysed module.
func InModule(fn *ssa.Function) bool {
	if fn == nil {
		return false
	}
	if fn.Pkg != nil {
		return strings.HasPrefix(fn.Pkg.Pkg.Path(), ModPath)
	}
	if fn.Parent() != nil {
		return InModule(fn.Parent())
	}
	if o := fn.Origin(); o != nil && o != fn {
		return InModule(o)
	}
	if fn.Object() != nil && fn.Object().Pkg() != nil {
		return strings.HasPrefix(fn.Object().Pkg().Path(), ModPath)
	}
	return false
}

// ShortFunc renders an ssa.Function as pkg.(*T).M / pkg.F / pkg.F$1.
func ShortFunc(fn *ssa.Function) string {
	if fn == nil {
		return "<nil>"
	}
	s := fn.String()
	s = strings.ReplaceAll(s, ModPath+"/pkg/", "")
	s = strings.ReplaceAll(s, ModPath+"/cmd/", "cmd/")
	s = strings.ReplaceAll(s, ModPath+"/", "")
	return s
}
