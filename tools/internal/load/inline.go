package load

import (
	"bufio"
	"bytes"
	"fmt"
	"go/ast"
	"go/printer"
	"go/token"
	"go/types"
	"os"
	"path/filepath"
	"sort"
	"strings"

	"golang.org/x/tools/go/packages"
	"golang.org/x/tools/go/types/typeutil"
)

// The rules are anchored in the functions that existed when they were written (baseline_funcs.txt).  A function of
// the analysed tree that is not in that list is a NEW helper (extracted by a refactoring, or added by the change
// under test).  Before the analysis proper, calls of new unexported same-package helpers are inlined at source
// level into an in-memory overlay, so that the rules see the flattened caller: a behaviour-preserving "extract
// function" then looks to them like the code it was extracted from.  The inliner is deliberately simple and
// conservative (statement-level contexts only, no defer/recover/variadic/generic callees, no identifier capture);
// whatever it cannot inline safely stays a call.  Every overlay is type-checked again; an edit that does not
// type-check is dropped.  On a tree without new functions nothing happens.

// FuncKey is "import/path|Recv|name".
func FuncKey(pkgPath, recv, name string) string { return pkgPath + "|" + recv + "|" + name }

func recvOf(fd *ast.FuncDecl) string {
	if fd.Recv == nil || len(fd.Recv.List) == 0 {
		return ""
	}
	t := fd.Recv.List[0].Type
	for {
		switch x := t.(type) {
		case *ast.StarExpr:
			t = x.X
			continue
		case *ast.IndexExpr:
			t = x.X
			continue
		case *ast.Ident:
			return x.Name
		}
		return ""
	}
}

// FuncKeys lists the function declarations of the module packages.
func FuncKeys(pkgs []*packages.Package) []string {
	var out []string
	for _, pk := range pkgs {
		if !strings.HasPrefix(pk.PkgPath, ModPath) {
			continue
		}
		for _, f := range pk.Syntax {
			for _, d := range f.Decls {
				if fd, ok := d.(*ast.FuncDecl); ok {
					out = append(out, FuncKey(pk.PkgPath, recvOf(fd), fd.Name.Name))
				}
			}
		}
	}
	sort.Strings(out)
	return out
}

func readBaseline(path string) (*Baseline, error) {
	f, err := os.Open(path)
	if err != nil {
		return nil, err
	}
	defer f.Close()
	var lines []string
	sc := bufio.NewScanner(f)
	sc.Buffer(make([]byte, 1<<20), 1<<24)
	for sc.Scan() {
		l := strings.TrimSpace(sc.Text())
		if l != "" && !strings.HasPrefix(l, "#") {
			lines = append(lines, l)
		}
	}
	return parseBaseline(lines), sc.Err()
}

// InlineNewHelpers computes the overlay and a log of what was done.
func InlineNewHelpers(dir, baselineFile string, env []string) (map[string][]byte, []string, error) {
	base, err := readBaseline(baselineFile)
	if err != nil {
		return nil, nil, nil // no baseline list: feature off
	}
	overlay := map[string][]byte{}
	var log []string
	mode := packages.NeedName | packages.NeedFiles | packages.NeedCompiledGoFiles | packages.NeedImports |
		packages.NeedTypes | packages.NeedTypesSizes | packages.NeedSyntax | packages.NeedTypesInfo | packages.NeedModule
	skip := map[string]bool{}
	serial := 0
	type edit struct {
		file string
		prev []byte // previous overlay content (nil = no overlay before)
		had  bool
		keys []string
		msgs []string
	}
	inlinedInto := map[string]bool{} // new helpers at least one call of which was inlined (only those are pruned when unreferenced)
	serialFile := map[string]bool{}  // files where a multi-edit round failed: one edit per round from then on
	var lastEdits []edit
	focus := map[string]bool{} // import paths of the packages with new helpers
	var renamePrev map[string][]byte
	var renameMsgs []string
	renameFailed := false
	renamePasses := 0
	for round := 0; round < 40; round++ {
		cfg := &packages.Config{Mode: mode, Dir: dir, Env: env, Tests: false, Overlay: overlay}
		// after the first full load only the packages that contain new helpers (inlining is package-local) are reloaded
		patterns := []string{"./..."}
		if len(focus) > 0 {
			patterns = patterns[:0]
			for p := range focus {
				patterns = append(patterns, p)
			}
			sort.Strings(patterns)
		}
		pkgs, err := packages.Load(cfg, patterns...)
		if err != nil {
			return nil, log, fmt.Errorf("inline pre-pass: %v", err)
		}
		// did the edits of the previous round type-check?  If not, drop them.
		bad := map[string]bool{}
		for _, pk := range pkgs {
			if strings.HasPrefix(pk.PkgPath, ModPath) && len(pk.Errors) > 0 {
				for _, f := range pk.CompiledGoFiles {
					bad[f] = true
				}
				for _, f := range pk.GoFiles {
					bad[f] = true
				}
			}
		}
		// rename phase (up to three passes: a renamed type first, then the fields whose type strings mention it, …):
		// restore baseline names of renamed types, fields and functions; each pass is verified by the next load
		if renamePrev != nil {
			if len(bad) > 0 {
				for f, prev := range renamePrev {
					if prev == nil {
						delete(overlay, f)
					} else {
						overlay[f] = prev
					}
				}
				log = append(log, "renames detected but restoring the baseline names did not type-check: left as they are")
				renamePrev = nil
				renameFailed = true
				continue
			}
			log = append(log, renameMsgs...)
			renameMsgs = nil
			renamePrev = nil
		}
		if renamePasses < 3 && len(bad) == 0 && !renameFailed && len(lastEdits) == 0 && len(focus) == 0 {
			renamePasses++
			if rs := findRenames(pkgs, base); len(rs) > 0 {
				ch := applyRenames(pkgs, rs, overlay)
				renamePrev = map[string][]byte{}
				for f, nc := range ch {
					if prev, had := overlay[f]; had {
						renamePrev[f] = prev
					} else {
						renamePrev[f] = nil
					}
					overlay[f] = nc
				}
				for _, e := range rs {
					renameMsgs = append(renameMsgs, e.what)
				}
				continue
			}
			renamePasses = 3
		}
		reverted := false
		for _, e := range lastEdits {
			if bad[e.file] {
				if e.had {
					overlay[e.file] = e.prev
				} else {
					delete(overlay, e.file)
				}
				if len(e.keys) == 1 {
					skip[e.keys[0]] = true
					log = append(log, e.msgs[0]+" — dropped again (the result did not type-check)")
				} else {
					serialFile[e.file] = true
				}
				reverted = true
			} else {
				log = append(log, e.msgs...)
			}
		}
		lastEdits = nil
		if reverted {
			continue
		}
		newFn := map[types.Object]*ast.FuncDecl{}
		declPkg := map[types.Object]*packages.Package{}
		declFile := map[types.Object]*ast.File{}
		for _, pk := range pkgs {
			if !strings.HasPrefix(pk.PkgPath, ModPath) || len(pk.Errors) > 0 {
				continue
			}
			for _, f := range pk.Syntax {
				for _, d := range f.Decls {
					fd, ok := d.(*ast.FuncDecl)
					if !ok || fd.Body == nil || fd.Name.IsExported() || fd.Name.Name == "init" || fd.Name.Name == "main" {
						continue
					}
					if base.HasFunc(FuncKey(pk.PkgPath, recvOf(fd), fd.Name.Name)) {
						continue
					}
					if obj := pk.TypesInfo.Defs[fd.Name]; obj != nil {
						newFn[obj] = fd
						declPkg[obj] = pk
						declFile[obj] = f
					}
				}
			}
		}
		if len(newFn) == 0 {
			break
		}
		if len(focus) == 0 && renamePrev == nil {
			for obj := range newFn {
				focus[declPkg[obj].PkgPath] = true
			}
		}
		progress := false
		for _, pk := range pkgs {
			if !strings.HasPrefix(pk.PkgPath, ModPath) || len(pk.Errors) > 0 {
				continue
			}
			used := map[types.Object]bool{}
			for _, o := range pk.TypesInfo.Uses {
				if newFn[o] != nil {
					used[o] = true
				}
			}
			for i, f := range pk.Syntax {
				if i >= len(pk.CompiledGoFiles) {
					continue
				}
				fname := pk.CompiledGoFiles[i]
				if strings.HasSuffix(fname, "_test.go") {
					continue
				}
				content, err := contentOf(fname, overlay)
				if err != nil {
					continue
				}
				rel, _ := filepath.Rel(dir, fname)
				parents := parentMap(f)
				var sps []*splice
				var msgs, keys []string
				for _, d := range f.Decls {
					fd, ok := d.(*ast.FuncDecl)
					if !ok || fd.Body == nil {
						continue
					}
					if serialFile[fname] && len(sps) > 0 {
						break
					}
					// a new helper that nothing refers to any more is removed, so that the rules do not analyse it out of context
					if obj := pk.TypesInfo.Defs[fd.Name]; obj != nil && newFn[obj] != nil && !used[obj] && inlinedInto[FuncKey(pk.PkgPath, recvOf(fd), fd.Name.Name)] {
						key := fname + ":prune:" + FuncKey(pk.PkgPath, recvOf(fd), fd.Name.Name)
						if !skip[key] {
							st := fd.Pos()
							if fd.Doc != nil {
								st = fd.Doc.Pos()
							}
							so, eo := pk.Fset.Position(st).Offset, pk.Fset.Position(fd.End()).Offset
							sps = append(sps, &splice{so, eo, strings.Repeat("\n", bytes.Count(content[so:eo], []byte("\n"))), nil})
							msgs = append(msgs, fmt.Sprintf("%s: new helper %s has no remaining callers and is left out of the analysis", rel, fd.Name.Name))
							keys = append(keys, key)
						}
						continue
					}
					// at most one call per enclosing declaration per round
					var done bool
					ast.Inspect(fd.Body, func(n ast.Node) bool {
						if done {
							return false
						}
						call, ok := n.(*ast.CallExpr)
						if !ok {
							return true
						}
						obj := typeutil.Callee(pk.TypesInfo, call)
						if obj == nil || newFn[obj] == nil || declPkg[obj] != pk {
							return true
						}
						key := fmt.Sprintf("%s:%s:%s#%d", fname, obj.Name(), fd.Name.Name, callOrdinal(fd, pk.TypesInfo, call, obj))
						if skip[key] {
							return true
						}
						serial++
						sp, why := inlineOne(pk, f, parents, content, call, newFn[obj], declFile[obj], serial)
						if sp == nil {
							skip[key] = true
							log = append(log, fmt.Sprintf("%s: call of new helper %s in %s left as a call (%s)", rel, obj.Name(), fd.Name.Name, why))
							return true
						}
						sps = append(sps, sp)
						inlinedInto[FuncKey(pk.PkgPath, recvOf(newFn[obj]), obj.Name())] = true
						msgs = append(msgs, fmt.Sprintf("%s: call of new helper %s inlined into %s", rel, obj.Name(), fd.Name.Name))
						keys = append(keys, key)
						done = true
						return false
					})
				}
				if len(sps) == 0 {
					continue
				}
				// imports the inlined bodies need: appended to the line of the last import declaration (no line shift)
				need := map[string]string{}
				for _, sp := range sps {
					for n, p := range sp.imports {
						need[n] = p
					}
				}
				if len(need) > 0 {
					at := pk.Fset.Position(f.Name.End()).Offset
					for _, d := range f.Decls {
						if gd, ok := d.(*ast.GenDecl); ok && gd.Tok == token.IMPORT {
							at = pk.Fset.Position(gd.End()).Offset
						}
					}
					var names []string
					for n := range need {
						names = append(names, n)
					}
					sort.Strings(names)
					txt := ""
					for _, n := range names {
						txt += fmt.Sprintf("; import %s %q", n, need[n])
					}
					sps = append([]*splice{{at, at, txt, nil}}, sps...)
				}
				// apply from the end of the file backwards (the splices are in distinct declarations)
				nc := append([]byte(nil), content...)
				for k := len(sps) - 1; k >= 0; k-- {
					sp := sps[k]
					nc = append(append(append([]byte(nil), nc[:sp.start]...), sp.text...), nc[sp.end:]...)
				}
				prev, had := overlay[fname]
				overlay[fname] = nc
				lastEdits = append(lastEdits, edit{fname, prev, had, keys, msgs})
				progress = true
			}
		}
		if !progress {
			break
		}
	}
	for _, e := range lastEdits {
		log = append(log, e.msgs...)
	}
	if len(overlay) == 0 {
		return nil, log, nil
	}
	return overlay, log, nil
}

func contentOf(path string, overlay map[string][]byte) ([]byte, error) {
	if b, ok := overlay[path]; ok {
		return b, nil
	}
	return os.ReadFile(path)
}

func parentMap(f *ast.File) map[ast.Node]ast.Node {
	m := map[ast.Node]ast.Node{}
	var stack []ast.Node
	ast.Inspect(f, func(n ast.Node) bool {
		if n == nil {
			stack = stack[:len(stack)-1]
			return true
		}
		if len(stack) > 0 {
			m[n] = stack[len(stack)-1]
		}
		stack = append(stack, n)
		return true
	})
	return m
}

func enclosingFuncName(parents map[ast.Node]ast.Node, n ast.Node) string {
	for p := n; p != nil; p = parents[p] {
		if fd, ok := p.(*ast.FuncDecl); ok {
			return fd.Name.Name
		}
	}
	return "?"
}

// callOrdinal: index of this call among the calls of obj in the file (stable across re-parses as long as earlier
// calls are not inlined away — good enough for a skip key).
func callOrdinal(f ast.Node, info *types.Info, call *ast.CallExpr, obj types.Object) int {
	n, idx := 0, -1
	ast.Inspect(f, func(x ast.Node) bool {
		if c, ok := x.(*ast.CallExpr); ok && typeutil.Callee(info, c) == obj {
			if c == call {
				idx = n
			}
			n++
		}
		return true
	})
	return idx
}

// inlineOne returns the new file content, or nil and the reason.
func inlineOne(pk *packages.Package, file *ast.File, parents map[ast.Node]ast.Node, content []byte, call *ast.CallExpr, callee *ast.FuncDecl, calleeFile *ast.File, serial int) (*splice, string) {
	fset := pk.Fset
	info := pk.TypesInfo
	off := func(p token.Pos) int { return fset.Position(p).Offset }
	// ---- callee preconditions
	if callee.Type.TypeParams != nil {
		return nil, "generic helper"
	}
	sig, _ := info.Defs[callee.Name].Type().(*types.Signature)
	if sig == nil || sig.Variadic() {
		return nil, "variadic helper"
	}
	reason := ""
	ast.Inspect(callee.Body, func(n ast.Node) bool {
		switch x := n.(type) {
		case *ast.DeferStmt:
			// a top-level `defer x.y.Unlock()` (no arguments) is run before each later return instead
			top := false
			for _, st := range callee.Body.List {
				if st == ast.Stmt(x) {
					top = true
				}
			}
			if !top || len(x.Call.Args) != 0 || !pureExpr(x.Call.Fun) {
				reason = "helper uses defer (not a simple top-level unlock-style defer)"
			}
		case *ast.CallExpr:
			if id, ok := x.Fun.(*ast.Ident); ok && id.Name == "recover" {
				reason = "helper calls recover"
			}
			if typeutil.Callee(info, x) == info.Defs[callee.Name] {
				reason = "recursive helper"
			}
		case *ast.FuncLit:
			// returns inside literals belong to the literal: handled by not descending when rewriting
		case *ast.BranchStmt:
			if x.Tok == token.GOTO {
				reason = "helper uses goto"
			}
		}
		return reason == ""
	})
	if reason != "" {
		return nil, reason
	}
	if _, isGo := parents[call].(*ast.GoStmt); isGo {
		return nil, "go statement"
	}
	if _, isDefer := parents[call].(*ast.DeferStmt); isDefer {
		return nil, "defer statement"
	}
	// ---- context: the statement S that contains the call, which must sit directly in a statement list
	var stmt ast.Stmt
	for p := ast.Node(call); p != nil; p = parents[p] {
		if s, ok := p.(ast.Stmt); ok {
			stmt = s
			break
		}
		if _, ok := p.(*ast.FuncLit); ok {
			return nil, "call inside a function literal expression"
		}
	}
	if stmt == nil {
		return nil, "no enclosing statement"
	}
	// if the innermost statement is the Init of an if/switch, hoist out of that statement
	host := stmt
	if par, ok := parents[stmt].(*ast.IfStmt); ok && par.Init == stmt {
		host = par
	}
	switch parents[host].(type) {
	case *ast.BlockStmt, *ast.CaseClause, *ast.CommClause:
	default:
		return nil, "statement is not in a statement list (else-if chain, loop header, …)"
	}
	if ifs, ok := host.(*ast.IfStmt); ok {
		if par, ok := parents[ifs].(*ast.IfStmt); ok && par.Else == ifs {
			return nil, "else-if chain"
		}
	}
	// the call must be evaluated before anything else with side effects in S
	nres := sig.Results().Len()
	okCtx := false
	switch s := stmt.(type) {
	case *ast.ExprStmt:
		okCtx = s.X == call
	case *ast.AssignStmt:
		okCtx = len(s.Rhs) == 1 && s.Rhs[0] == call && lhsSimple(s.Lhs)
	case *ast.ReturnStmt:
		for i, r := range s.Results {
			if r == call {
				okCtx = true
				for _, e := range s.Results[:i] {
					if !pureExpr(e) {
						okCtx = false
					}
				}
			}
		}
		if nres != 1 && len(s.Results) != 1 {
			okCtx = false
		}
	case *ast.IfStmt:
		c := s.Cond
		if u, ok := c.(*ast.UnaryExpr); ok && u.Op == token.NOT {
			c = u.X
		}
		okCtx = c == call && s.Init == nil
		host = s
	case *ast.DeclStmt:
		if gd, ok := s.Decl.(*ast.GenDecl); ok && len(gd.Specs) == 1 {
			if vs, ok := gd.Specs[0].(*ast.ValueSpec); ok && len(vs.Values) == 1 && vs.Values[0] == call {
				okCtx = true
			}
		}
	}
	if !okCtx {
		// nested in a larger expression: still hoistable when the call is the first thing with side effects that the
		// statement evaluates, unconditionally and exactly once
		if why := hoistable(info, parents, stmt, call); why != "" {
			return nil, "call is nested inside a larger expression: " + why
		}
		if nres != 1 {
			return nil, "multi-value call nested inside a larger expression"
		}
		if ifs, ok := stmt.(*ast.IfStmt); ok {
			host = ifs
		}
		switch parents[host].(type) {
		case *ast.BlockStmt, *ast.CaseClause, *ast.CommClause:
		default:
			return nil, "statement is not in a statement list"
		}
	}
	if nres == 0 {
		if _, ok := stmt.(*ast.ExprStmt); !ok {
			return nil, "void helper used as a value"
		}
	}
	// ---- identifier capture: free identifiers of the callee must mean the same thing at the call site
	callScope := pk.Types.Scope().Innermost(call.Pos())
	if callScope == nil {
		return nil, "no scope at call site"
	}
	capture := ""
	needImports := map[string]string{}
	ast.Inspect(callee.Body, func(n ast.Node) bool {
		id, ok := n.(*ast.Ident)
		if !ok || capture != "" {
			return true
		}
		obj := info.Uses[id]
		if obj == nil {
			return true
		}
		par := obj.Parent()
		isPkgLevel := par == pk.Types.Scope() || par == types.Universe
		_, isPkgName := obj.(*types.PkgName)
		if !isPkgLevel && !isPkgName {
			return true
		}
		_, at := callScope.LookupParent(id.Name, call.Pos())
		if at == nil && isPkgName {
			// the helper lives in a file with an import the caller's file lacks: the overlay adds it
			needImports[id.Name] = obj.(*types.PkgName).Imported().Path()
			return true
		}
		if at == nil {
			capture = "identifier " + id.Name + " is not visible at the call site"
			return true
		}
		if isPkgName {
			pn, ok := at.(*types.PkgName)
			if !ok || pn.Imported() != obj.(*types.PkgName).Imported() {
				capture = "import " + id.Name + " differs at the call site"
			}
			return true
		}
		if at != obj {
			capture = "identifier " + id.Name + " is shadowed at the call site"
		}
		return true
	})
	if capture != "" {
		return nil, capture
	}
	// ---- build the replacement text
	qual := func(p *types.Package) string {
		if p == pk.Types {
			return ""
		}
		// name under which the package is imported in the caller's file
		for _, imp := range file.Imports {
			path := strings.Trim(imp.Path.Value, `"`)
			if path == p.Path() {
				if imp.Name != nil {
					return imp.Name.Name
				}
				return p.Name()
			}
		}
		return "\x00" + p.Path()
	}
	pfx := fmt.Sprintf("inl%d_", serial)
	var b bytes.Buffer
	resNames := make([]string, nres)
	for i := 0; i < nres; i++ {
		resNames[i] = fmt.Sprintf("%sr%d", pfx, i)
		ts := types.TypeString(sig.Results().At(i).Type(), qual)
		if strings.Contains(ts, "\x00") {
			return nil, "result type needs an import the caller's file lacks"
		}
		fmt.Fprintf(&b, "var %s %s\n", resNames[i], ts)
	}
	b.WriteString("{ // inlined new helper " + callee.Name.Name + "\n")
	// receiver and parameters: evaluated into typed temporaries first (so that the parameter names cannot capture
	// identifiers of the argument expressions, and every argument is converted to the parameter type as a call does)
	var names, vals []string
	tmp := 0
	bind := func(name, typ, val string) {
		t := fmt.Sprintf("%sa%d", pfx, tmp)
		tmp++
		fmt.Fprintf(&b, "var %s %s = %s\n_ = %s\n", t, typ, val, t)
		names = append(names, name)
		vals = append(vals, t)
	}
	if callee.Recv != nil && len(callee.Recv.List) > 0 {
		sel, ok := call.Fun.(*ast.SelectorExpr)
		if !ok {
			return nil, "method value call form"
		}
		rn := "_"
		if len(callee.Recv.List[0].Names) > 0 {
			rn = callee.Recv.List[0].Names[0].Name
		}
		raw := string(content[off(sel.X.Pos()):off(sel.X.End())])
		rv := raw
		rt := info.TypeOf(sel.X)
		want := sig.Recv().Type()
		switch {
		case rt == nil:
			return nil, "receiver type unknown"
		case types.Identical(rt, want):
		default:
			if p, ok := rt.(*types.Pointer); ok && types.Identical(p.Elem(), want) {
				rv = "*(" + raw + ")"
			} else if pp, ok := want.(*types.Pointer); ok && types.Identical(pp.Elem(), rt) {
				rv = "&" + raw
			} else {
				return nil, "receiver reached through an embedded field"
			}
		}
		ts := types.TypeString(want, qual)
		if strings.Contains(ts, "\x00") {
			return nil, "receiver type needs an import the caller's file lacks"
		}
		bind(rn, ts, rv)
	}
	ai := 0
	for _, fld := range callee.Type.Params.List {
		pt := types.TypeString(info.TypeOf(fld.Type), qual)
		if strings.Contains(pt, "\x00") {
			return nil, "parameter type needs an import the caller's file lacks"
		}
		cnt := len(fld.Names)
		if cnt == 0 {
			cnt = 1
		}
		for k := 0; k < cnt; k++ {
			if ai >= len(call.Args) {
				return nil, "argument count (multi-value argument)"
			}
			name := "_"
			if len(fld.Names) > 0 {
				name = fld.Names[k].Name
			}
			bind(name, pt, string(content[off(call.Args[ai].Pos()):off(call.Args[ai].End())]))
			ai++
		}
	}
	if ai != len(call.Args) {
		return nil, "argument count"
	}
	{
		var ns, vs []string
		for i, n := range names {
			if n != "_" {
				ns = append(ns, n)
				vs = append(vs, vals[i])
			}
		}
		if len(ns) > 0 {
			fmt.Fprintf(&b, "%s := %s\n", strings.Join(ns, ", "), strings.Join(vs, ", "))
			for _, n := range ns {
				fmt.Fprintf(&b, "_ = %s\n", n)
			}
		}
	}
	// named results become locals
	var named []string
	if callee.Type.Results != nil {
		for _, fld := range callee.Type.Results.List {
			for _, n := range fld.Names {
				if n.Name == "_" {
					continue
				}
				ts := types.TypeString(info.TypeOf(fld.Type), qual)
				fmt.Fprintf(&b, "var %s %s\n_ = %s\n", n.Name, ts, n.Name)
				named = append(named, n.Name)
			}
		}
	}
	label := pfx + "ret"
	fmt.Fprintf(&b, "%s:\nswitch {\ndefault:\n", label)
	// body with returns rewritten: print statement by statement from the callee file's original text
	calleeFname := fset.Position(calleeFile.Pos()).Filename
	_ = calleeFname
	body, why := rewriteReturns(fset, callee.Body, resNames, named, label, nres)
	if body == "" && why != "" {
		return nil, why
	}
	b.WriteString(body)
	fmt.Fprintf(&b, "\nbreak %s\n}\n}\n", label)
	// ---- the statement itself with the call replaced by the result variables
	repl := strings.Join(resNames, ", ")
	hostText := string(content[off(host.Pos()):off(host.End())])
	cs, ce := off(call.Pos())-off(host.Pos()), off(call.End())-off(host.Pos())
	var newStmt string
	for _, rn := range resNames {
		b.WriteString("_ = " + rn + "\n")
	}
	// a //line directive re-synchronises positions, so that reports keep pointing at the lines of the real file
	hp, he := fset.Position(host.Pos()), fset.Position(host.End())
	if es, isExpr := stmt.(*ast.ExprStmt); isExpr && host == stmt && es.X == call {
		newStmt = fmt.Sprintf("//line %s:%d\n", hp.Filename, he.Line) + ";"
	} else {
		newStmt = fmt.Sprintf("//line %s:%d\n", hp.Filename, hp.Line) + hostText[:cs] + repl + hostText[ce:]
	}
	return &splice{off(host.Pos()), off(host.End()), b.String() + newStmt, needImports}, ""
}

type splice struct {
	start, end int
	text       string
	imports    map[string]string // name -> path to add to the file's imports
}

func lhsSimple(lhs []ast.Expr) bool {
	for _, e := range lhs {
		switch x := e.(type) {
		case *ast.Ident:
		case *ast.SelectorExpr:
			if !pureExpr(x.X) {
				return false
			}
		default:
			return false
		}
	}
	return true
}

func pureExpr(e ast.Expr) bool {
	switch x := e.(type) {
	case *ast.Ident, *ast.BasicLit:
		return true
	case *ast.SelectorExpr:
		return pureExpr(x.X)
	case *ast.ParenExpr:
		return pureExpr(x.X)
	case *ast.UnaryExpr:
		return x.Op != token.ARROW && pureExpr(x.X)
	case *ast.StarExpr:
		return pureExpr(x.X)
	}
	return false
}

// rewriteReturns prints the statements of body with every return (outside function literals) replaced by an
// assignment to the result variables followed by a break out of the inlined block.
func rewriteReturns(fset *token.FileSet, body *ast.BlockStmt, res, named []string, label string, nres int) (string, string) {
	// work on a copy of the statement list by printing with a node filter: printer cannot rewrite, so rewrite the AST
	// in place on a shallow clone of the statements that contain returns.
	var rewrite func(list []ast.Stmt) []ast.Stmt
	var rewriteStmt func(s ast.Stmt) ast.Stmt
	fail := ""
	mkBreak := func() ast.Stmt { return &ast.BranchStmt{Tok: token.BREAK, Label: ast.NewIdent(label)} }
	var defers []*ast.DeferStmt
	for _, st := range body.List {
		if d, ok := st.(*ast.DeferStmt); ok {
			defers = append(defers, d)
		}
	}
	// the deferred calls registered before position p, most recent first
	deferredBefore := func(p token.Pos) []ast.Stmt {
		var out []ast.Stmt
		for i := len(defers) - 1; i >= 0; i-- {
			if defers[i].Pos() < p {
				out = append(out, &ast.ExprStmt{X: defers[i].Call})
			}
		}
		return out
	}
	rewriteStmt = func(s ast.Stmt) ast.Stmt {
		switch x := s.(type) {
		case *ast.ReturnStmt:
			var stmts []ast.Stmt
			switch {
			case len(x.Results) == 0:
				if nres > 0 {
					if len(named) != nres {
						fail = "bare return with partly named results"
						return s
					}
					lhs, rhs := make([]ast.Expr, nres), make([]ast.Expr, nres)
					for i := range res {
						lhs[i], rhs[i] = ast.NewIdent(res[i]), ast.NewIdent(named[i])
					}
					stmts = append(stmts, &ast.AssignStmt{Lhs: lhs, Tok: token.ASSIGN, Rhs: rhs})
				}
			default:
				lhs := make([]ast.Expr, nres)
				for i := range res {
					lhs[i] = ast.NewIdent(res[i])
				}
				stmts = append(stmts, &ast.AssignStmt{Lhs: lhs, Tok: token.ASSIGN, Rhs: x.Results})
			}
			stmts = append(stmts, deferredBefore(x.Pos())...)
			stmts = append(stmts, mkBreak())
			return &ast.BlockStmt{List: stmts}
		case *ast.DeferStmt:
			return &ast.EmptyStmt{}
		case *ast.BlockStmt:
			return &ast.BlockStmt{List: rewrite(x.List)}
		case *ast.IfStmt:
			n := *x
			n.Body = &ast.BlockStmt{List: rewrite(x.Body.List)}
			if x.Else != nil {
				n.Else = rewriteStmt(x.Else)
			}
			return &n
		case *ast.ForStmt:
			n := *x
			n.Body = &ast.BlockStmt{List: rewrite(x.Body.List)}
			return &n
		case *ast.RangeStmt:
			n := *x
			n.Body = &ast.BlockStmt{List: rewrite(x.Body.List)}
			return &n
		case *ast.SwitchStmt:
			n := *x
			n.Body = &ast.BlockStmt{List: rewrite(x.Body.List)}
			return &n
		case *ast.TypeSwitchStmt:
			n := *x
			n.Body = &ast.BlockStmt{List: rewrite(x.Body.List)}
			return &n
		case *ast.SelectStmt:
			n := *x
			n.Body = &ast.BlockStmt{List: rewrite(x.Body.List)}
			return &n
		case *ast.CaseClause:
			n := *x
			n.Body = rewrite(x.Body)
			return &n
		case *ast.CommClause:
			n := *x
			n.Body = rewrite(x.Body)
			return &n
		case *ast.LabeledStmt:
			// labels are function-scoped: give the copy its own name
			n := *x
			n.Label = ast.NewIdent(x.Label.Name + "_" + label)
			n.Stmt = rewriteStmt(x.Stmt)
			return &n
		case *ast.BranchStmt:
			if x.Label != nil {
				n := *x
				n.Label = ast.NewIdent(x.Label.Name + "_" + label)
				return &n
			}
		}
		return s
	}
	rewrite = func(list []ast.Stmt) []ast.Stmt {
		out := make([]ast.Stmt, len(list))
		for i, s := range list {
			out[i] = rewriteStmt(s)
		}
		return out
	}
	nb := &ast.BlockStmt{List: rewrite(body.List)}
	if fail != "" {
		return "", fail
	}
	// control that reaches the end of the body runs the deferred calls too
	nb.List = append(nb.List, deferredBefore(body.End())...)
	var buf bytes.Buffer
	for _, s := range nb.List {
		if err := printer.Fprint(&buf, fset, s); err != nil {
			return "", "cannot print helper body: " + err.Error()
		}
		buf.WriteString("\n")
	}
	return buf.String(), ""
}

// hoistable: may the value of call be computed just before stmt instead of inside it?  Returns "" or the reason not.
func hoistable(info *types.Info, parents map[ast.Node]ast.Node, stmt ast.Stmt, call *ast.CallExpr) string {
	var root ast.Node
	switch s := stmt.(type) {
	case *ast.ExprStmt, *ast.ReturnStmt, *ast.DeclStmt, *ast.SendStmt:
		root = s
	case *ast.AssignStmt:
		if s.Tok != token.ASSIGN && s.Tok != token.DEFINE {
			return "compound assignment"
		}
		root = s
	case *ast.IfStmt:
		if s.Init != nil {
			return "if statement with an init clause"
		}
		root = s.Cond
	case *ast.SwitchStmt:
		if s.Init != nil || s.Tag == nil {
			return "switch with an init clause"
		}
		root = s.Tag
	case *ast.RangeStmt:
		root = s.X
	default:
		return "statement kind"
	}
	anc := map[ast.Node]bool{}
	inRoot := false
	for p := ast.Node(call); p != nil; p = parents[p] {
		anc[p] = true
		if p == root {
			inRoot = true
			break
		}
		switch x := parents[p].(type) {
		case *ast.BinaryExpr:
			if (x.Op == token.LAND || x.Op == token.LOR) && x.Y == p {
				return "evaluated conditionally (right operand of && or ||)"
			}
		case *ast.FuncLit:
			return "inside a function literal"
		}
	}
	if !inRoot {
		return "not in the evaluated part of the statement"
	}
	why := ""
	ast.Inspect(root, func(n ast.Node) bool {
		if n == nil || why != "" {
			return false
		}
		if _, isLit := n.(*ast.FuncLit); isLit {
			return false
		}
		if anc[n] {
			return true
		}
		if n.Pos() >= call.Pos() {
			return false // evaluated after the call (lexical order)
		}
		switch x := n.(type) {
		case *ast.CallExpr:
			if tv, ok := info.Types[x.Fun]; ok && tv.IsType() {
				return true // conversion
			}
			if id, ok := x.Fun.(*ast.Ident); ok {
				if _, isB := info.Uses[id].(*types.Builtin); isB && (id.Name == "len" || id.Name == "cap") {
					return true
				}
			}
			why = "another call is evaluated first"
		case *ast.UnaryExpr:
			if x.Op == token.ARROW {
				why = "a channel receive is evaluated first"
			}
		}
		return true
	})
	return why
}
