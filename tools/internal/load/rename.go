package load

import (
	"fmt"
	"go/ast"
	"go/token"
	"go/types"
	"path/filepath"
	"sort"
	"strings"

	"golang.org/x/tools/go/packages"
)

// The rules name the state they talk about by struct field and function name.  A behaviour-preserving rename of a
// field or function must not look like a removed anchor, so before the analysis the names of the pinned tree
// (baseline_funcs.txt: function signatures and struct layouts) are restored in the in-memory overlay:
//   - a struct that still has the same number of fields with the same types in the same order, some under other
//     names, has had those fields renamed;
//   - a function (same package, same receiver) that is gone while exactly one new function with the same parameter
//     and result types appeared, and no other candidate on either side, has been renamed.
// Every identifier that resolves to a renamed object is rewritten to the baseline name; the result is type-checked
// again and dropped if it does not compile.

// Baseline is the symbol table of the pinned tree.
type Baseline struct {
	Funcs   map[string]string   // pkg|Recv|name -> signature (types only)
	Prints  map[string][]string // pkg|Recv|name -> body fingerprint (callee names, selector names, string literals)
	Structs map[string][]string // pkg|Type -> "name:type" per field, in order
}

func (b *Baseline) HasFunc(k string) bool { _, ok := b.Funcs[k]; return ok }

// SigString renders parameter and result types (no names).
func SigString(ft *ast.FuncType) string {
	list := func(fl *ast.FieldList) string {
		if fl == nil {
			return ""
		}
		var out []string
		for _, f := range fl.List {
			n := len(f.Names)
			if n == 0 {
				n = 1
			}
			for i := 0; i < n; i++ {
				out = append(out, types.ExprString(f.Type))
			}
		}
		return strings.Join(out, ",")
	}
	return "(" + list(ft.Params) + ")(" + list(ft.Results) + ")"
}

// SymbolLines lists the baseline lines for the module packages.
func SymbolLines(pkgs []*packages.Package) []string {
	var out []string
	for _, pk := range pkgs {
		if !strings.HasPrefix(pk.PkgPath, ModPath) {
			continue
		}
		for _, f := range pk.Syntax {
			if strings.HasSuffix(pk.Fset.Position(f.Pos()).Filename, "_test.go") {
				continue
			}
			for _, d := range f.Decls {
				switch x := d.(type) {
				case *ast.FuncDecl:
					out = append(out, FuncKey(pk.PkgPath, recvOf(x), x.Name.Name)+"|"+SigString(x.Type)+"|"+strings.Join(Fingerprint(x), " "))
				case *ast.GenDecl:
					if x.Tok != token.TYPE {
						continue
					}
					for _, sp := range x.Specs {
						ts := sp.(*ast.TypeSpec)
						st, ok := ts.Type.(*ast.StructType)
						if !ok {
							continue
						}
						out = append(out, "struct|"+pk.PkgPath+"|"+ts.Name.Name+"|"+strings.Join(structFields(st), ";"))
					}
				}
			}
		}
	}
	sort.Strings(out)
	return out
}

func structFields(st *ast.StructType) []string {
	var out []string
	for _, f := range st.Fields.List {
		t := types.ExprString(f.Type)
		if len(f.Names) == 0 {
			out = append(out, ":"+t)
		}
		for _, n := range f.Names {
			out = append(out, n.Name+":"+t)
		}
	}
	return out
}

func parseBaseline(lines []string) *Baseline {
	b := &Baseline{Funcs: map[string]string{}, Structs: map[string][]string{}, Prints: map[string][]string{}}
	for _, l := range lines {
		if strings.HasPrefix(l, "struct|") {
			p := strings.SplitN(l, "|", 4)
			if len(p) == 4 {
				var fs []string
				if p[3] != "" {
					fs = strings.Split(p[3], ";")
				}
				b.Structs[p[1]+"|"+p[2]] = fs
			}
			continue
		}
		p := strings.SplitN(l, "|", 5)
		if len(p) >= 3 {
			sig := ""
			if len(p) >= 4 {
				sig = p[3]
			}
			k := p[0] + "|" + p[1] + "|" + p[2]
			b.Funcs[k] = sig
			if len(p) == 5 && p[4] != "" {
				b.Prints[k] = strings.Fields(p[4])
			}
		}
	}
	return b
}

type renameEdit struct {
	obj     types.Object
	oldName string // baseline name to restore
	what    string
}

// findRenames compares the loaded packages with the baseline.
func findRenames(pkgs []*packages.Package, base *Baseline) []renameEdit {
	var out []renameEdit
	for _, pk := range pkgs {
		if !strings.HasPrefix(pk.PkgPath, ModPath) || len(pk.Errors) > 0 {
			continue
		}
		// ---- functions
		type fn struct {
			decl *ast.FuncDecl
			sig  string
		}
		cur := map[string]fn{}
		for _, f := range pk.Syntax {
			if strings.HasSuffix(pk.Fset.Position(f.Pos()).Filename, "_test.go") {
				continue
			}
			for _, d := range f.Decls {
				if fd, ok := d.(*ast.FuncDecl); ok {
					cur[FuncKey(pk.PkgPath, recvOf(fd), fd.Name.Name)] = fn{fd, SigString(fd.Type)}
				}
			}
		}
		// per receiver: missing and new
		missing := map[string][]string{} // recv -> baseline keys gone
		added := map[string][]string{}
		for k := range base.Funcs {
			p := strings.SplitN(k, "|", 3)
			if p[0] != pk.PkgPath {
				continue
			}
			if _, ok := cur[k]; !ok {
				missing[p[1]] = append(missing[p[1]], k)
			}
		}
		for k := range cur {
			if !base.HasFunc(k) {
				p := strings.SplitN(k, "|", 3)
				added[p[1]] = append(added[p[1]], k)
			}
		}
		for recv, ms := range missing {
			for _, m := range ms {
				msig := base.Funcs[m]
				if msig == "" {
					continue
				}
				var cands []string
				for _, a := range added[recv] {
					if cur[a].sig == msig {
						cands = append(cands, a)
					}
				}
				nm := 0
				for _, m2 := range ms {
					if base.Funcs[m2] == msig {
						nm++
					}
				}
				pick := ""
				switch {
				case len(cands) == 1 && nm == 1:
					pick = cands[0]
				case len(cands) >= 1:
					// several functions of this signature were renamed at once: the candidate whose body resembles the
					// baseline body most, by a clear margin, and for which this baseline function is also the best match
					best, second := -1.0, -1.0
					for _, a := range cands {
						sc := jaccard(base.Prints[m], Fingerprint(cur[a].decl))
						if sc > best {
							best, second, pick = sc, best, a
						} else if sc > second {
							second = sc
						}
					}
					if best < 0.5 || best-second < 0.15 {
						pick = ""
					} else {
						for _, m2 := range ms {
							if m2 != m && base.Funcs[m2] == msig && jaccard(base.Prints[m2], Fingerprint(cur[pick].decl)) >= best {
								pick = ""
								break
							}
						}
					}
				}
				if pick == "" {
					continue
				}
				fd := cur[pick].decl
				// a rename keeps exportedness (an exported name that became unexported changes the API)
				old := strings.SplitN(m, "|", 3)[2]
				if ast.IsExported(old) != fd.Name.IsExported() {
					continue
				}
				if obj := pk.TypesInfo.Defs[fd.Name]; obj != nil {
					out = append(out, renameEdit{obj, old, fmt.Sprintf("function %s.%s is treated as the renamed %s (same receiver and signature; the only or by far the most similar candidate)", recvOrPkg(pk.PkgPath, recv), fd.Name.Name, old)})
				}
			}
		}
		// ---- struct types: a baseline struct that is gone while exactly one new struct has the same field list
		curStructs := map[string]*ast.TypeSpec{}
		for _, f := range pk.Syntax {
			for _, d := range f.Decls {
				if gd, ok := d.(*ast.GenDecl); ok && gd.Tok == token.TYPE {
					for _, sp := range gd.Specs {
						ts := sp.(*ast.TypeSpec)
						if _, isSt := ts.Type.(*ast.StructType); isSt {
							curStructs[ts.Name.Name] = ts
						}
					}
				}
			}
		}
		typeRenamed := false
		for k, was := range base.Structs {
			p := strings.SplitN(k, "|", 2)
			if p[0] != pk.PkgPath || curStructs[p[1]] != nil || ast.IsExported(p[1]) {
				continue
			}
			var cands []*ast.TypeSpec
			for name, ts := range curStructs {
				if _, inBase := base.Structs[pk.PkgPath+"|"+name]; inBase || ast.IsExported(name) {
					continue
				}
				if strings.Join(structFields(ts.Type.(*ast.StructType)), ";") == strings.Join(was, ";") {
					cands = append(cands, ts)
				}
			}
			if len(cands) == 1 {
				if obj := pk.TypesInfo.Defs[cands[0].Name]; obj != nil {
					out = append(out, renameEdit{obj, p[1], fmt.Sprintf("type %s is treated as the renamed %s (same field list, the only candidate)", cands[0].Name.Name, p[1])})
					typeRenamed = true
				}
			}
		}
		if typeRenamed {
			continue // field type strings change once the type has its name back: fields are matched in the next pass
		}
		// ---- struct fields
		for _, f := range pk.Syntax {
			for _, d := range f.Decls {
				gd, ok := d.(*ast.GenDecl)
				if !ok || gd.Tok != token.TYPE {
					continue
				}
				for _, sp := range gd.Specs {
					ts := sp.(*ast.TypeSpec)
					st, ok := ts.Type.(*ast.StructType)
					if !ok {
						continue
					}
					was, ok := base.Structs[pk.PkgPath+"|"+ts.Name.Name]
					if !ok {
						continue
					}
					now := structFields(st)
					if len(now) != len(was) {
						continue
					}
					same := true
					for i := range now {
						if now[i][strings.Index(now[i], ":"):] != was[i][strings.Index(was[i], ":"):] {
							same = false
						}
					}
					if !same {
						// the fields were also regrouped: names present on both sides are the same fields; the remaining
						// ones are paired per type in their relative order, provided each type has as many on either side
						out = append(out, regroupedRenames(pk, ts, st, was)...)
						continue
					}
					i := 0
					for _, fl := range st.Fields.List {
						if len(fl.Names) == 0 {
							i++
							continue
						}
						for _, n := range fl.Names {
							old := was[i][:strings.Index(was[i], ":")]
							if old != "" && old != n.Name {
								if obj := pk.TypesInfo.Defs[n]; obj != nil {
									out = append(out, renameEdit{obj, old, fmt.Sprintf("field %s.%s is treated as the renamed %s (same position and type)", ts.Name.Name, n.Name, old)})
								}
							}
							i++
						}
					}
				}
			}
		}
	}
	return out
}

func recvOrPkg(pkg, recv string) string {
	if recv != "" {
		return recv
	}
	return filepath.Base(pkg)
}

// applyRenames rewrites every identifier that denotes a renamed object.
func applyRenames(pkgs []*packages.Package, edits []renameEdit, overlay map[string][]byte) (changed map[string][]byte) {
	byObj := map[types.Object]string{}
	for _, e := range edits {
		byObj[e.obj] = e.oldName
	}
	changed = map[string][]byte{}
	for _, pk := range pkgs {
		if !strings.HasPrefix(pk.PkgPath, ModPath) {
			continue
		}
		for i, f := range pk.Syntax {
			if i >= len(pk.CompiledGoFiles) {
				continue
			}
			fname := pk.CompiledGoFiles[i]
			var sps []*splice
			ast.Inspect(f, func(n ast.Node) bool {
				id, ok := n.(*ast.Ident)
				if !ok {
					return true
				}
				obj := pk.TypesInfo.Uses[id]
				if obj == nil {
					obj = pk.TypesInfo.Defs[id]
				}
				if obj == nil {
					return true
				}
				// methods/fields of instantiated generics resolve to their origin
				switch o := obj.(type) {
				case *types.Var:
					obj = o.Origin()
				case *types.Func:
					obj = o.Origin()
				}
				if old, ok := byObj[obj]; ok {
					o := pk.Fset.Position(id.Pos()).Offset
					sps = append(sps, &splice{o, o + len(id.Name), old, nil})
				}
				return true
			})
			if len(sps) == 0 {
				continue
			}
			content, err := contentOf(fname, overlay)
			if err != nil {
				continue
			}
			sort.Slice(sps, func(a, b int) bool { return sps[a].start < sps[b].start })
			nc := append([]byte(nil), content...)
			for k := len(sps) - 1; k >= 0; k-- {
				sp := sps[k]
				nc = append(append(append([]byte(nil), nc[:sp.start]...), sp.text...), nc[sp.end:]...)
			}
			changed[fname] = nc
		}
	}
	return changed
}

// Fingerprint is a rename-insensitive summary of a function body: the names it calls and selects and the string
// literals it contains (sorted, unique, capped).  Used only to tell apart several renamed functions of one signature.
func Fingerprint(fd *ast.FuncDecl) []string {
	if fd.Body == nil {
		return nil
	}
	set := map[string]bool{}
	ast.Inspect(fd.Body, func(n ast.Node) bool {
		switch x := n.(type) {
		case *ast.CallExpr:
			switch f := x.Fun.(type) {
			case *ast.Ident:
				set["c:"+f.Name] = true
			case *ast.SelectorExpr:
				set["c:"+f.Sel.Name] = true
			}
		case *ast.SelectorExpr:
			set["s:"+x.Sel.Name] = true
		case *ast.BasicLit:
			if x.Kind == token.STRING {
				v := strings.Map(func(r rune) rune {
					if r == ' ' || r == '|' || r == '\n' || r == '\t' {
						return '_'
					}
					return r
				}, x.Value)
				if len(v) > 28 {
					v = v[:28]
				}
				set["l:"+v] = true
			}
		}
		return true
	})
	var out []string
	for k := range set {
		out = append(out, k)
	}
	sort.Strings(out)
	if len(out) > 80 {
		out = out[:80]
	}
	return out
}

func jaccard(a, b []string) float64 {
	if len(a) == 0 && len(b) == 0 {
		return 0
	}
	in := map[string]bool{}
	for _, x := range a {
		in[x] = true
	}
	n := 0
	for _, x := range b {
		if in[x] {
			n++
		}
	}
	return float64(n) / float64(len(a)+len(b)-n)
}

// regroupedRenames handles a struct whose fields were reordered and partly renamed in one edit.
func regroupedRenames(pk *packages.Package, ts *ast.TypeSpec, st *ast.StructType, was []string) []renameEdit {
	type fld struct {
		name, typ string
		id        *ast.Ident
	}
	var cur []fld
	for _, fl := range st.Fields.List {
		t := types.ExprString(fl.Type)
		for _, n := range fl.Names {
			cur = append(cur, fld{n.Name, t, n})
		}
	}
	var old []fld
	for _, w := range was {
		i := strings.Index(w, ":")
		if i <= 0 {
			continue // embedded
		}
		old = append(old, fld{w[:i], w[i+1:], nil})
	}
	curNames, oldNames := map[string]bool{}, map[string]bool{}
	for _, f := range cur {
		curNames[f.name] = true
	}
	for _, f := range old {
		oldNames[f.name] = true
	}
	goneByType, newByType := map[string][]fld{}, map[string][]fld{}
	for _, f := range old {
		if !curNames[f.name] {
			goneByType[f.typ] = append(goneByType[f.typ], f)
		}
	}
	for _, f := range cur {
		if !oldNames[f.name] {
			newByType[f.typ] = append(newByType[f.typ], f)
		}
	}
	var out []renameEdit
	for t, gone := range goneByType {
		fresh := newByType[t]
		if len(fresh) != len(gone) {
			return nil // fields added or removed as well: not a pure rename
		}
		for i := range gone {
			if obj := pk.TypesInfo.Defs[fresh[i].id]; obj != nil {
				out = append(out, renameEdit{obj, gone[i].name, fmt.Sprintf("field %s.%s is treated as the renamed %s (same type; fields regrouped, paired in order)", ts.Name.Name, fresh[i].name, gone[i].name)})
			}
		}
	}
	for t := range newByType {
		if len(goneByType[t]) != len(newByType[t]) {
			return nil
		}
	}
	return out
}
