package bounds

import (
	"fmt"
	"go/types"

	"bngvet/internal/lin"

	"golang.org/x/tools/go/ssa"
)

// loopSites emits one site per natural loop: the loop must make progress on every iteration
// (an integer or slice-length induction variable strictly advances on every back edge and takes part in
// an exit test), or be a range over a map/string (Next), which terminates by construction.
func (e *Fn) loopSites() []Site {
	var out []Site
	n := 0
	for _, h := range e.F.Blocks {
		var backs []*ssa.BasicBlock
		for _, p := range h.Preds {
			if h.Dominates(p) {
				backs = append(backs, p)
			}
		}
		if len(backs) == 0 {
			continue
		}
		n++
		body := map[*ssa.BasicBlock]bool{h: true}
		var work []*ssa.BasicBlock
		for _, b := range backs {
			if !body[b] {
				body[b] = true
				work = append(work, b)
			}
		}
		for len(work) > 0 {
			b := work[len(work)-1]
			work = work[:len(work)-1]
			for _, p := range b.Preds {
				if !body[p] {
					body[p] = true
					work = append(work, p)
				}
			}
		}
		s := Site{Instr: h.Instrs[0], Kind: "loop", Expr: fmt.Sprintf("loop#%d(%s)", n, h.Comment)}
		s.OK, s.Reason = e.loopProgress(h, backs, body)
		out = append(out, s)
	}
	return out
}

func (e *Fn) loopProgress(h *ssa.BasicBlock, backs []*ssa.BasicBlock, body map[*ssa.BasicBlock]bool) (bool, string) {
	// range over map / string / channel-free iterator
	for b := range body {
		for _, in := range b.Instrs {
			if _, ok := in.(*ssa.Next); ok {
				return true, ""
			}
		}
	}
	// iterator idiom: the exit test is the result of (*bufio.Scanner).Scan, which returns false after finitely many tokens
	for b := range body {
		if len(b.Instrs) == 0 {
			continue
		}
		if iff, ok := b.Instrs[len(b.Instrs)-1].(*ssa.If); ok && (!body[b.Succs[0]] || !body[b.Succs[1]]) {
			if c, ok := iff.Cond.(*ssa.Call); ok {
				if f := c.Call.StaticCallee(); f != nil && f.Pkg != nil && f.Pkg.Pkg.Path() == "bufio" && f.Name() == "Scan" {
					return true, ""
				}
			}
		}
	}
	// exit tests: Ifs in the body with a successor outside
	var exits []*ssa.If
	for b := range body {
		if len(b.Instrs) == 0 {
			continue
		}
		if iff, ok := b.Instrs[len(b.Instrs)-1].(*ssa.If); ok {
			if !body[b.Succs[0]] || !body[b.Succs[1]] {
				exits = append(exits, iff)
			}
		}
	}
	why := "no induction variable"
	for _, in := range h.Instrs {
		p, ok := in.(*ssa.Phi)
		if !ok {
			break
		}
		var self lin.Form
		isSlice := false
		switch {
		case isInteger(p.Type()):
			self = e.Eval(p)
		case isSliceOrString(p.Type()):
			self = e.Len(p)
			isSlice = true
		default:
			continue
		}
		dir := 0 // +1 increasing, -1 decreasing
		good := true
		for i, edge := range p.Edges {
			pred := h.Preds[i]
			if !body[pred] {
				continue // entry edge
			}
			var next lin.Form
			if isSlice {
				next = e.Len(edge)
			} else {
				next = e.Eval(edge)
			}
			d := next.Sub(self)
			facts := e.FactsAt(pred)
			inc := e.proveWith(facts, d.AddK(-1))
			dec := !inc && e.proveWith(facts, d.Scale(-1).AddK(-1))
			switch {
			case inc && dir >= 0:
				dir = 1
			case dec && dir <= 0:
				dir = -1
			default:
				good = false
				why = fmt.Sprintf("%s does not strictly advance on the back edge (step %s)", sketch(p, 0), e.Str(d))
			}
		}
		if !good || dir == 0 {
			continue
		}
		// the variable must take part in an exit test
		a := self
		for _, x := range exits {
			if b, ok := x.Cond.(*ssa.BinOp); ok {
				if mentions(e, b.X, a) || mentions(e, b.Y, a) {
					return true, ""
				}
			}
		}
		why = fmt.Sprintf("%s advances but no exit test depends on it", sketch(p, 0))
	}
	return false, why
}

func isSliceOrString(t types.Type) bool {
	switch u := t.Underlying().(type) {
	case *types.Slice:
		return true
	case *types.Basic:
		return u.Info()&types.IsString != 0
	}
	return false
}

// mentions: does the linear form of v (as integer, or its len when a slice) share an atom with a?
func mentions(e *Fn, v ssa.Value, a lin.Form) bool {
	var f lin.Form
	switch {
	case isInteger(v.Type()):
		f = e.Eval(v)
	default:
		return false
	}
	for x := range f.T {
		if _, ok := a.T[x]; ok {
			return true
		}
	}
	return false
}
