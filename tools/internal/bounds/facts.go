package bounds

import (
	"go/constant"
	"go/token"
	"go/types"
	"strings"

	"bngvet/internal/flow"
	"bngvet/internal/lin"

	"golang.org/x/tools/go/ssa"
)

// reaches reports whether block `from` can reach block `to` (reflexive).
func (e *Fn) reaches(from, to *ssa.BasicBlock) bool {
	m := e.reach[from]
	if m == nil {
		m = map[*ssa.BasicBlock]bool{}
		var walk func(b *ssa.BasicBlock)
		walk = func(b *ssa.BasicBlock) {
			if m[b] {
				return
			}
			m[b] = true
			for _, s := range b.Succs {
				walk(s)
			}
		}
		// reflexive only via a real cycle or identity handled by callers
		for _, s := range from.Succs {
			walk(s)
		}
		e.reach[from] = m
	}
	return from == to || m[to]
}

// sameAddr reports whether two address values denote the same location expression:
// FieldAddr chains over the same base SSA value, IndexAddr with equal constant index, or identical values.
func sameAddr(a, b ssa.Value) bool {
	if a == b {
		return true
	}
	switch x := a.(type) {
	case *ssa.FieldAddr:
		y, ok := b.(*ssa.FieldAddr)
		return ok && x.Field == y.Field && sameBase(x.X, y.X)
	case *ssa.IndexAddr:
		y, ok := b.(*ssa.IndexAddr)
		if !ok || !sameBase(x.X, y.X) {
			return false
		}
		if x.Index == y.Index {
			return true // the same SSA value (e.g. one loop index used twice: len(p[i].s) and p[i].s[k])
		}
		cx, ok1 := x.Index.(*ssa.Const)
		cy, ok2 := y.Index.(*ssa.Const)
		return ok1 && ok2 && cx.Int64() == cy.Int64()
	}
	return false
}

// canonHook lets sameBase see through loads: two loads of one location with no write in between are one value.
var canonHook func(*ssa.UnOp) ssa.Value

func sameBase(a, b ssa.Value) bool {
	if a == b {
		return true
	}
	// loads of the same address of a pointer-typed location, with no intervening store, are handled by the
	// caller through canonLoad; here only syntactic identity through FieldAddr chains is recognised.
	fa, ok1 := a.(*ssa.FieldAddr)
	fb, ok2 := b.(*ssa.FieldAddr)
	if ok1 && ok2 {
		return fa.Field == fb.Field && sameBase(fa.X, fb.X)
	}
	ia, ok1 := a.(*ssa.IndexAddr)
	ib, ok2 := b.(*ssa.IndexAddr)
	if ok1 && ok2 {
		return sameAddr(ia, ib)
	}
	la, ok1 := a.(*ssa.UnOp)
	lb, ok2 := b.(*ssa.UnOp)
	if ok1 && ok2 && la.Op == token.MUL && lb.Op == token.MUL && canonHook != nil {
		return canonHook(la) == canonHook(lb)
	}
	return false
}

// rootOf walks FieldAddr/IndexAddr chains to the pointer the address is derived from.
func rootOf(addr ssa.Value) ssa.Value {
	for {
		switch x := addr.(type) {
		case *ssa.FieldAddr:
			addr = x.X
		case *ssa.IndexAddr:
			addr = x.X
		default:
			return addr
		}
	}
}

// private reports whether the object behind root is reachable only through root inside this function:
// root is a fresh local (Alloc, call result, tuple extract) that is never passed to a call, stored,
// captured, sent or converted to an interface.  Calls then cannot write through it.
func (e *Fn) private(root ssa.Value) bool {
	if v, ok := e.priv[root]; ok {
		return v
	}
	e.priv[root] = false
	switch root.(type) {
	case *ssa.Alloc, *ssa.Call, *ssa.Extract:
	default:
		return false
	}
	seen := map[ssa.Value]bool{}
	var ok func(v ssa.Value) bool
	ok = func(v ssa.Value) bool {
		if seen[v] {
			return true
		}
		seen[v] = true
		refs := v.Referrers()
		if refs == nil {
			return false
		}
		for _, r := range *refs {
			switch x := r.(type) {
			case *ssa.FieldAddr:
				if !ok(x) {
					return false
				}
			case *ssa.IndexAddr:
				if !ok(x) {
					return false
				}
			case *ssa.UnOp: // load through the pointer: the loaded value is data, not the object
			case *ssa.Store:
				if x.Val == v { // the pointer itself is stored somewhere
					return false
				}
			case *ssa.Return, *ssa.DebugRef, *ssa.If:
			case *ssa.BinOp: // comparisons with nil
			case *ssa.Field:
			default:
				return false
			}
		}
		return true
	}
	res := ok(root)
	e.priv[root] = res
	return res
}

// mayWrite reports whether instruction in may modify the location addr (field-sensitive, type-based).
func (e *Fn) mayWrite(in ssa.Instruction, addr ssa.Value) bool {
	switch x := in.(type) {
	case *ssa.Store:
		return mayAlias(x.Addr, addr)
	case ssa.CallInstruction:
		if e.private(rootOf(addr)) {
			return false
		}
		// a call may write the location when it is handed a pointer through which the location is reachable:
		// approximated by "some argument (or the receiver / a captured binding) has a pointer type to the
		// struct type owning the field, or a pointer/slice aliasing the indexed object".
		owner := ownerType(addr)
		if owner == nil {
			return true
		}
		com := x.Common()
		if b, ok := com.Value.(*ssa.Builtin); ok {
			_ = b
			return false // len, cap, copy, append, ... do not write struct fields (copy into a field's backing array does not change the slice header)
		}
		args := com.Args
		if com.IsInvoke() {
			args = append([]ssa.Value{com.Value}, args...)
		}
		if mc, ok := com.Value.(*ssa.MakeClosure); ok {
			args = append(args, mc.Bindings...)
		}
		for _, a := range args {
			if pointsInto(a.Type(), owner, 0) {
				return true
			}
		}
		if _, isIface := com.Value.Type().Underlying().(*types.Interface); isIface && com.IsInvoke() {
			// interface receiver of unknown dynamic type: could be the owner
			return true
		}
		return false
	}
	return false
}

func ownerType(addr ssa.Value) types.Type {
	switch x := addr.(type) {
	case *ssa.FieldAddr:
		t := x.X.Type()
		if p, ok := t.Underlying().(*types.Pointer); ok {
			return p.Elem()
		}
	case *ssa.IndexAddr:
		t := x.X.Type()
		if p, ok := t.Underlying().(*types.Pointer); ok {
			return p.Elem()
		}
		return t
	case *ssa.Alloc:
		return x.Type().(*types.Pointer).Elem()
	case *ssa.Global:
		return nil
	}
	return nil
}

// pointsInto: does a value of type t give access (by pointer, within a few levels) to an object of type owner?
func pointsInto(t, owner types.Type, depth int) bool {
	if depth > 3 {
		return false
	}
	switch u := t.Underlying().(type) {
	case *types.Pointer:
		if types.Identical(u.Elem(), owner) {
			return true
		}
		if s, ok := u.Elem().Underlying().(*types.Struct); ok {
			for i := 0; i < s.NumFields(); i++ {
				ft := s.Field(i).Type()
				if types.Identical(ft, owner) || pointsInto(ft, owner, depth+1) {
					return true
				}
			}
		}
	case *types.Slice:
		return types.Identical(u.Elem(), owner) || types.Identical(t, owner) || pointsInto(u.Elem(), owner, depth+1)
	case *types.Interface:
		return false
	case *types.Signature:
		return false
	}
	return false
}

func mayAlias(w, addr ssa.Value) bool {
	if sameAddr(w, addr) {
		return true
	}
	switch a := addr.(type) {
	case *ssa.FieldAddr:
		if b, ok := w.(*ssa.FieldAddr); ok {
			return a.Field == b.Field && types.Identical(a.X.Type(), b.X.Type())
		}
		// store through a pointer that is not a field address: aliases only if pointer types agree
		return types.Identical(w.Type(), addr.Type()) && !isAllocOrField(w)
	case *ssa.IndexAddr:
		if b, ok := w.(*ssa.IndexAddr); ok {
			return types.Identical(a.X.Type(), b.X.Type())
		}
		return types.Identical(w.Type(), addr.Type()) && !isAllocOrField(w)
	case *ssa.Alloc:
		return w == addr
	}
	return true
}

func isAllocOrField(v ssa.Value) bool {
	switch v.(type) {
	case *ssa.Alloc, *ssa.FieldAddr, *ssa.IndexAddr:
		return true
	}
	return false
}

// canonLoad maps a load to an earlier load of (or the value stored into) the same location when no
// instruction on any path between the two may write that location.  Otherwise returns the load itself.
func (e *Fn) canonLoad(ld *ssa.UnOp) ssa.Value {
	if c, ok := e.canon[ld]; ok {
		return c
	}
	if canonHook == nil {
		prev := canonHook
		canonHook = func(u *ssa.UnOp) ssa.Value {
			if u.Parent() != e.F {
				return u
			}
			return e.canonLoad(u)
		}
		defer func() { canonHook = prev }()
	}
	e.canon[ld] = ld // cycle guard
	addr := ld.X
	switch addr.(type) {
	case *ssa.FieldAddr, *ssa.IndexAddr, *ssa.Alloc:
	default:
		return ld
	}
	// candidate definitions: dominating loads/stores of the same address expression
	var best ssa.Instruction
	var bestVal ssa.Value
	for _, b := range e.F.Blocks {
		if !(b == ld.Block() || b.Dominates(ld.Block())) {
			continue
		}
		for _, in := range b.Instrs {
			if in == ssa.Instruction(ld) {
				break
			}
			var val ssa.Value
			switch x := in.(type) {
			case *ssa.UnOp:
				if x.Op == token.MUL && sameAddr(x.X, addr) {
					val = x
				}
			case *ssa.Store:
				if sameAddr(x.Addr, addr) {
					val = x.Val
				}
			}
			if val == nil {
				continue
			}
			if best == nil || flow.InstrDominates(best, in) {
				best, bestVal = in, val
			}
		}
	}
	if best == nil {
		return ld
	}
	if e.writtenBetween(best, ld, addr) {
		return ld
	}
	if u, ok := bestVal.(*ssa.UnOp); ok && u.Op == token.MUL {
		bestVal = e.canonLoad(u)
	}
	e.canon[ld] = bestVal
	return bestVal
}

// writtenBetween: may some instruction on a path from `from` (exclusive) to `to` (exclusive) write addr?  Only
// paths that do not execute `from` again count: from dominates to, so the last execution of from before to is
// followed by a segment that avoids from's block — writes on longer paths (round an enclosing loop) happen before
// that last execution and are already reflected in the value from produced.
func (e *Fn) writtenBetween(from, to ssa.Instruction, addr ssa.Value) bool {
	fb, tb := from.Block(), to.Block()
	scan := func(ins []ssa.Instruction) bool {
		for _, in := range ins {
			if in != from && in != to && e.mayWrite(in, addr) {
				return true
			}
		}
		return false
	}
	idx := func(b *ssa.BasicBlock, x ssa.Instruction) int {
		for i, in := range b.Instrs {
			if in == x {
				return i
			}
		}
		return -1
	}
	if fb == tb && idx(fb, from) < idx(tb, to) {
		return scan(fb.Instrs[idx(fb, from)+1 : idx(tb, to)])
	}
	// forward from fb's successors and backward from tb's predecessors, never through fb
	fwd := map[*ssa.BasicBlock]bool{}
	var walkF func(b *ssa.BasicBlock)
	walkF = func(b *ssa.BasicBlock) {
		if b == fb || fwd[b] {
			return
		}
		fwd[b] = true
		for _, s := range b.Succs {
			walkF(s)
		}
	}
	for _, s := range fb.Succs {
		walkF(s)
	}
	bwd := map[*ssa.BasicBlock]bool{}
	var walkB func(b *ssa.BasicBlock)
	walkB = func(b *ssa.BasicBlock) {
		if b == fb || bwd[b] {
			return
		}
		bwd[b] = true
		for _, p := range b.Preds {
			walkB(p)
		}
	}
	if tb != fb {
		walkB(tb)
	} else {
		for _, p := range tb.Preds {
			walkB(p)
		}
	}
	if scan(fb.Instrs[idx(fb, from)+1:]) {
		return true
	}
	if scan(tb.Instrs[:idx(tb, to)]) {
		return true
	}
	for _, b := range e.F.Blocks {
		if b == fb || !fwd[b] || !bwd[b] {
			continue
		}
		if b == tb {
			// tb lies on a cycle that avoids fb: its tail can run before `to` runs again
			onCycle := false
			for _, s := range tb.Succs {
				if s != fb && fwd[s] && bwd[s] {
					onCycle = true
				}
			}
			if onCycle && scan(tb.Instrs[idx(tb, to)+1:]) {
				return true
			}
			continue
		}
		if scan(b.Instrs) {
			return true
		}
	}
	return false
}

func (e *Fn) reachesStrict(from, to *ssa.BasicBlock) bool {
	e.reaches(from, from) // fill
	return e.reach[from][to]
}

// cmpFacts converts a comparison known to be true/false into forms ≥ 0.
func (e *Fn) cmpFacts(c ssa.Value, pol bool) []lin.Form {
	if call, ok := c.(*ssa.Call); ok && pol {
		return e.prefixFacts(call)
	}
	b, ok := c.(*ssa.BinOp)
	if !ok {
		return nil
	}
	op := b.Op
	// slice-vs-nil facts: r != nil where r := ip.To4() ⇒ len(r)=4
	if op == token.EQL || op == token.NEQ {
		if n := e.nilCheckedLen(b); n != nil && ((op == token.NEQ) == pol) {
			l := e.Len(n.v)
			return []lin.Form{l.AddK(-n.n), lin.Const(n.n).Sub(l)}
		}
	}
	if !isInteger(b.X.Type()) {
		return nil
	}
	if !pol {
		switch op {
		case token.LSS:
			op = token.GEQ
		case token.LEQ:
			op = token.GTR
		case token.GTR:
			op = token.LEQ
		case token.GEQ:
			op = token.LSS
		case token.EQL:
			op = token.NEQ
		case token.NEQ:
			op = token.EQL
		default:
			return nil
		}
	}
	x, y := e.Eval(b.X), e.Eval(b.Y)
	switch op {
	case token.LSS: // x < y  ⇒ y-x-1 ≥ 0
		return []lin.Form{y.Sub(x).AddK(-1)}
	case token.LEQ:
		return []lin.Form{y.Sub(x)}
	case token.GTR:
		return []lin.Form{x.Sub(y).AddK(-1)}
	case token.GEQ:
		return []lin.Form{x.Sub(y)}
	case token.EQL:
		return []lin.Form{x.Sub(y), y.Sub(x)}
	case token.NEQ:
		// x != k with x ≥ k known by type (unsigned / len vs 0) ⇒ x ≥ k+1
		d := x.Sub(y)
		if e.triviallyNonneg(d) {
			return []lin.Form{d.AddK(-1)}
		}
		if e.triviallyNonneg(y.Sub(x)) {
			return []lin.Form{y.Sub(x).AddK(-1)}
		}
		e.curNeq = append(e.curNeq, d)
	}
	return nil
}

// triviallyNonneg: f ≥ 0 follows from atom axioms alone.
func (e *Fn) triviallyNonneg(f lin.Form) bool {
	var ax []lin.Form
	for a := range f.T {
		ax = append(ax, e.axioms[a]...)
	}
	return lin.Prove(ax, f)
}

// prefixFacts: bytes/strings.HasPrefix(x, "const") == true  ⇒  len(x) ≥ len(const); when x is the line returned
// by (*bufio.Reader).ReadString(delim) whose error was tested nil (the line then ends with delim) and the
// prefix does not contain delim, the line is at least one byte longer than the prefix.
func (e *Fn) prefixFacts(call *ssa.Call) []lin.Form {
	f := call.Call.StaticCallee()
	if f == nil || f.Pkg == nil || f.Name() != "HasPrefix" || len(call.Call.Args) != 2 {
		return nil
	}
	if p := f.Pkg.Pkg.Path(); p != "bytes" && p != "strings" {
		return nil
	}
	pre, ok := constString(call.Call.Args[1])
	if !ok {
		return nil
	}
	x := call.Call.Args[0]
	n := int64(len(pre))
	src := x
	for {
		if cv, ok := src.(*ssa.Convert); ok {
			src = cv.X
			continue
		}
		if ct, ok := src.(*ssa.ChangeType); ok {
			src = ct.X
			continue
		}
		break
	}
	if ex, ok := src.(*ssa.Extract); ok && ex.Index == 0 {
		if rc, ok := ex.Tuple.(*ssa.Call); ok {
			if g := rc.Call.StaticCallee(); g != nil && g.Pkg != nil && g.Pkg.Pkg.Path() == "bufio" && g.Name() == "ReadString" && len(rc.Call.Args) == 2 {
				if d, ok := rc.Call.Args[1].(*ssa.Const); ok && d.Value != nil {
					delim := byte(d.Int64())
					if !strings.ContainsRune(pre, rune(delim)) && e.errNilAt(call.Block(), rc) {
						n++
					}
				}
			}
		}
	}
	return []lin.Form{e.Len(x).AddK(-n)}
}

// errNilAt: the error result (#1) of call is known to be nil at block b.
func (e *Fn) errNilAt(b *ssa.BasicBlock, call *ssa.Call) bool {
	for _, ft := range flow.FactsAt(b) {
		bo, ok := ft.Cond.(*ssa.BinOp)
		if !ok {
			continue
		}
		ex, ok := bo.X.(*ssa.Extract)
		if !ok || ex.Tuple != ssa.Value(call) || ex.Index != 1 {
			continue
		}
		if k, ok := bo.Y.(*ssa.Const); !ok || k.Value != nil {
			continue
		}
		if (bo.Op == token.NEQ && !ft.Pol) || (bo.Op == token.EQL && ft.Pol) {
			return true
		}
	}
	return false
}

func constString(v ssa.Value) (string, bool) {
	for {
		switch x := v.(type) {
		case *ssa.Convert:
			v = x.X
			continue
		case *ssa.Const:
			if x.Value != nil && x.Value.Kind() == constant.String {
				return constant.StringVal(x.Value), true
			}
		}
		return "", false
	}
}

type nilLen struct {
	v ssa.Value
	n int64
}

// nilCheckedLen recognises `r ==/!= nil` where r is the result of a call with a known non-nil length.
func (e *Fn) nilCheckedLen(b *ssa.BinOp) *nilLen {
	var v ssa.Value
	if c, ok := b.Y.(*ssa.Const); ok && c.Value == nil {
		v = b.X
	} else if c, ok := b.X.(*ssa.Const); ok && c.Value == nil {
		v = b.Y
	}
	if v == nil {
		return nil
	}
	call, ok := v.(*ssa.Call)
	if !ok {
		return nil
	}
	f := call.Call.StaticCallee()
	if f == nil {
		return nil
	}
	if flow.FuncIs(f, "net", "IP", "To4") {
		return &nilLen{v, 4}
	}
	if flow.FuncIs(f, "net", "IP", "To16") {
		return &nilLen{v, 16}
	}
	if e.P != nil {
		if n := e.P.submatchLen(call); n > 0 {
			return &nilLen{v, n}
		}
	}
	return nil
}

// FactsAt returns the forms ≥ 0 implied by the branch conditions dominating block b.
func (e *Fn) FactsAt(b *ssa.BasicBlock) []lin.Form {
	if f, ok := e.facts[b]; ok {
		return f
	}
	e.facts[b] = nil
	var out []lin.Form
	saved := e.curNeq
	e.curNeq = nil
	for _, ft := range flow.FactsAt(b) {
		out = append(out, e.cmpFacts(ft.Cond, ft.Pol)...)
	}
	e.neqs[b] = e.curNeq
	e.curNeq = saved
	e.facts[b] = out
	return out
}

// phiLower computes (once) an inductive constant lower bound of an integer φ.
func (e *Fn) phiLower(p *ssa.Phi) (int64, bool) {
	inv := e.phiLB[p]
	if inv != nil {
		if !inv.done {
			return 0, false // in progress: assume nothing
		}
		return inv.lb, inv.has
	}
	inv = &phiInv{}
	e.phiLB[p] = inv
	defer func() { inv.done = true }()
	if !isInteger(p.Type()) {
		return 0, false
	}
	// candidates: the minimum constant incoming value, then 0 and -1
	var cands []int64
	have := false
	var minc int64
	for _, edge := range p.Edges {
		f := e.Eval(edge)
		if f.IsConst() {
			if !have || f.K < minc {
				minc, have = f.K, true
			}
		}
	}
	if have {
		cands = append(cands, minc)
	}
	if !have || minc > 0 {
		cands = append(cands, 0)
	}
	if !have || minc > -1 {
		cands = append(cands, -1)
	}
	self := e.Eval(p)
	var lb int64
	found := false
	for _, c := range cands {
		okAll := true
		for i, edge := range p.Edges {
			pred := p.Block().Preds[i]
			facts := append([]lin.Form{self.AddK(-c)}, e.factsAtEnd(pred)...)
			goal := e.Eval(edge).AddK(-c)
			if !e.proveWith(facts, goal) {
				okAll = false
				break
			}
		}
		if okAll {
			lb, found = c, true
			break
		}
	}
	if !found {
		return 0, false
	}
	inv.has, inv.lb = true, lb
	return lb, true
}

// factsAtEnd: facts holding at the end of block b (its dominating conditions).
func (e *Fn) factsAtEnd(b *ssa.BasicBlock) []lin.Form { return e.FactsAt(b) }

// gather returns facts plus the axioms (and φ invariants) of every atom transitively involved.
func (e *Fn) gather(facts []lin.Form, goal lin.Form) []lin.Form {
	all := append([]lin.Form{}, facts...)
	seen := map[lin.Atom]bool{}
	var add func(f lin.Form)
	add = func(f lin.Form) {
		for a := range f.T {
			if seen[a] {
				continue
			}
			seen[a] = true
			for _, ax := range e.axioms[a] {
				all = append(all, ax)
				add(ax)
			}
			if k := e.keys[a]; k.k == aVal {
				if p, ok := k.v.(*ssa.Phi); ok {
					if lb, ok := e.phiLower(p); ok {
						all = append(all, lin.Var(a).AddK(-lb))
					}
				}
			}
		}
	}
	add(goal)
	for i := 0; i < len(all); i++ {
		add(all[i])
	}
	return all
}

// proveWith proves goal ≥ 0 from facts plus atom axioms; on failure it case-splits on loop-free φ atoms
// (each incoming edge contributes its value and the facts holding at the end of its predecessor).
func (e *Fn) proveWith(facts []lin.Form, goal lin.Form) bool {
	return e.proveSplit(facts, goal, 2)
}

func (e *Fn) proveSplit(facts []lin.Form, goal lin.Form, depth int) bool {
	all := e.gather(facts, goal)
	if lin.Prove(all, goal) {
		return true
	}
	if depth == 0 {
		return false
	}
	// candidate φ atoms: those occurring in the goal first, then in facts connected to it
	var cands []lin.Atom
	seen := map[lin.Atom]bool{}
	addC := func(f lin.Form) {
		for a := range f.T {
			if seen[a] {
				continue
			}
			seen[a] = true
			if p, ok := e.keys[a].v.(*ssa.Phi); ok && !e.loopPhi(p) && len(p.Edges) <= 4 {
				cands = append(cands, a)
			}
		}
	}
	addC(goal)
	sortAtoms(cands)
	n := len(cands)
	for _, f := range all {
		addC(f)
	}
	sortAtoms(cands[n:])
	if len(cands) > 3 {
		cands = cands[:3]
	}
	for _, a := range cands {
		k := e.keys[a]
		p := k.v.(*ssa.Phi)
		ok := true
		for i, edge := range p.Edges {
			var val lin.Form
			switch k.k {
			case aVal:
				val = e.Eval(edge)
			case aLen:
				val = e.Len(edge)
			case aCap:
				val = e.Cap(edge)
			}
			if val.Has(a) {
				ok = false
				break
			}
			nf := make([]lin.Form, 0, len(facts)+4)
			for _, f := range facts {
				nf = append(nf, f.Subst(a, val))
			}
			nf = append(nf, e.FactsAt(p.Block().Preds[i])...)
			nf = append(nf, e.edgeFacts(p.Block().Preds[i], p.Block())...)
			if !e.proveSplit(nf, goal.Subst(a, val), depth-1) {
				ok = false
				break
			}
		}
		if ok {
			return true
		}
	}
	return false
}

// edgeFacts: the fact contributed by taking the edge pred→succ when pred ends in an If.
func (e *Fn) edgeFacts(pred, succ *ssa.BasicBlock) []lin.Form {
	if len(pred.Instrs) == 0 {
		return nil
	}
	iff, ok := pred.Instrs[len(pred.Instrs)-1].(*ssa.If)
	if !ok || pred.Succs[0] == pred.Succs[1] {
		return nil
	}
	c, pol := iff.Cond, pred.Succs[0] == succ
	for {
		u, ok := c.(*ssa.UnOp)
		if !ok || u.Op != token.NOT {
			break
		}
		c, pol = u.X, !pol
	}
	return e.cmpFacts(c, pol)
}

// loopPhi: some incoming edge comes from a block dominated by the φ's block (loop-carried).
func (e *Fn) loopPhi(p *ssa.Phi) bool {
	for _, pr := range p.Block().Preds {
		if p.Block().Dominates(pr) {
			return true
		}
	}
	return false
}

func sortAtoms(a []lin.Atom) {
	for i := 1; i < len(a); i++ {
		for j := i; j > 0 && a[j] < a[j-1]; j-- {
			a[j], a[j-1] = a[j-1], a[j]
		}
	}
}

// Prove decides goal ≥ 0 at instruction `at`.
func (e *Fn) Prove(at ssa.Instruction, goal lin.Form) bool {
	facts := e.FactsAt(at.Block())
	if e.proveWith(facts, goal) {
		return true
	}
	// strengthen with disequalities d ≠ 0 whose sign is known: d ≥ 0 ⇒ d ≥ 1, d ≤ 0 ⇒ d ≤ −1
	neqs := e.neqs[at.Block()]
	if len(neqs) == 0 {
		return false
	}
	ext := append([]lin.Form{}, facts...)
	added := false
	for _, d := range neqs {
		if e.proveWith(facts, d) {
			ext = append(ext, d.AddK(-1))
			added = true
		} else if e.proveWith(facts, d.Scale(-1)) {
			ext = append(ext, d.Scale(-1).AddK(-1))
			added = true
		}
	}
	return added && e.proveWith(ext, goal)
}
