package bounds

import (
	"fmt"
	"go/token"
	"go/types"

	"bngvet/internal/lin"

	"golang.org/x/tools/go/ssa"
)

// Site is one run-time-checked operation and the verdict of the prover.
type Site struct {
	Instr  ssa.Instruction
	Kind   string // index | slice | make | div | assert | panic | loop
	Expr   string // position-free rendering of the operation
	Coarse string // shape-insensitive rendering: fields by owning type, indices elided (for triage entries that survive loop-form changes)
	OK     bool
	Reason string // unproved goal(s)
}

// CheckFunc enumerates every operation of f that can panic on a bad index/length (and every loop that
// must make progress) and tries to discharge it.
func CheckFunc(p *Prog, f *ssa.Function) []Site {
	e := NewFn(f)
	if p != nil {
		e = p.Fn(f)
	}
	var out []Site
	for _, b := range f.Blocks {
		for _, in := range b.Instrs {
			switch x := in.(type) {
			case *ssa.IndexAddr:
				out = append(out, e.indexSite(in, x.X, x.Index))
			case *ssa.Index:
				out = append(out, e.indexSite(in, x.X, x.Index))
			case *ssa.Lookup:
				if _, ok := x.X.Type().Underlying().(*types.Map); ok {
					continue
				}
				out = append(out, e.indexSite(in, x.X, x.Index))
			case *ssa.Slice:
				out = append(out, e.sliceSite(x))
			case *ssa.MakeSlice:
				if s := e.makeSite(x); s != nil {
					out = append(out, *s)
				}
			case *ssa.BinOp:
				if (x.Op == token.QUO || x.Op == token.REM) && isInteger(x.Type()) {
					if s := e.divSite(x); s != nil {
						out = append(out, *s)
					}
				}
			case *ssa.TypeAssert:
				if !x.CommaOk {
					out = append(out, Site{Instr: in, Kind: "assert", Expr: fmt.Sprintf("%s.(%s)", vname(x.X), types.TypeString(x.AssertedType, short)), OK: false, Reason: "type assertion without comma-ok panics on a foreign dynamic type"})
				}
			case *ssa.Panic:
				out = append(out, Site{Instr: in, Kind: "panic", Expr: "panic(...)", OK: false, Reason: "explicit panic"})
			case *ssa.SliceToArrayPointer:
				n, _ := arrayLen(x.Type())
				g := e.Len(x.X).AddK(-n)
				ok := e.Prove(in, g)
				out = append(out, Site{Instr: in, Kind: "slice", Expr: fmt.Sprintf("(*[%d])(%s)", n, vname(x.X)), OK: ok, Reason: reason(ok, e, g)})
			}
		}
	}
	out = append(out, e.loopSites()...)
	return out
}

func short(p *types.Package) string { return p.Name() }

func reason(ok bool, e *Fn, goals ...lin.Form) string {
	if ok {
		return ""
	}
	s := "cannot prove"
	for _, g := range goals {
		s += " [" + e.Str(g) + " >= 0]"
	}
	return s
}

// vname renders a value position-free: parameters and fields by name, others by a structural sketch.
func vname(v ssa.Value) string { return sketch(v, 0) }

func sketch(v ssa.Value, d int) string {
	if d > 6 {
		return "…"
	}
	switch x := v.(type) {
	case *ssa.Parameter:
		// position, not name: renaming a parameter must not change an obligation key
		for i, p := range x.Parent().Params {
			if p == x {
				if i == 0 && x.Parent().Signature.Recv() != nil {
					return "recv"
				}
				return fmt.Sprintf("arg%d", i)
			}
		}
		return "arg"
	case *ssa.Const:
		if x.Value == nil {
			return "nil"
		}
		return x.Value.ExactString()
	case *ssa.FieldAddr:
		return sketch(x.X, d+1) + "." + fieldName(x.X.Type(), x.Field)
	case *ssa.Field:
		return sketch(x.X, d+1) + "." + fieldName(x.X.Type(), x.Field)
	case *ssa.UnOp:
		if x.Op == token.MUL {
			return sketch(x.X, d+1)
		}
		return x.Op.String() + sketch(x.X, d+1)
	case *ssa.IndexAddr:
		return sketch(x.X, d+1) + "[" + sketch(x.Index, d+1) + "]"
	case *ssa.Index:
		return sketch(x.X, d+1) + "[" + sketch(x.Index, d+1) + "]"
	case *ssa.Lookup:
		return sketch(x.X, d+1) + "[" + sketch(x.Index, d+1) + "]"
	case *ssa.Slice:
		lo, hi := "", ""
		if x.Low != nil {
			lo = sketch(x.Low, d+1)
		}
		if x.High != nil {
			hi = sketch(x.High, d+1)
		}
		return sketch(x.X, d+1) + "[" + lo + ":" + hi + "]"
	case *ssa.BinOp:
		return "(" + sketch(x.X, d+1) + x.Op.String() + sketch(x.Y, d+1) + ")"
	case *ssa.Convert:
		return types.TypeString(x.Type(), short) + "(" + sketch(x.X, d+1) + ")"
	case *ssa.ChangeType:
		return sketch(x.X, d+1)
	case *ssa.Call:
		if b, ok := x.Call.Value.(*ssa.Builtin); ok {
			s := b.Name() + "("
			for i, a := range x.Call.Args {
				if i > 0 {
					s += ","
				}
				s += sketch(a, d+1)
			}
			return s + ")"
		}
		if f := x.Call.StaticCallee(); f != nil {
			return f.Name() + "(…)"
		}
		if x.Call.IsInvoke() {
			return sketch(x.Call.Value, d+1) + "." + x.Call.Method.Name() + "(…)"
		}
		return "call(…)"
	case *ssa.Extract:
		return sketch(x.Tuple, d+1) + fmt.Sprintf("#%d", x.Index)
	case *ssa.Phi:
		return "φ" // (not the source variable's name: locals may be renamed)
	case *ssa.Alloc:
		return "var"
	case *ssa.MakeSlice:
		return "make(" + sketch(x.Len, d+1) + ")"
	case *ssa.Global:
		return x.Name()
	case *ssa.FreeVar:
		return "free"
	case *ssa.Next:
		return "next"
	case *ssa.TypeAssert:
		return sketch(x.X, d+1) + ".(T)"
	}
	return "?"
}

// csketch renders a value by what it is rather than how it was reached: a field is "Type.field" whatever path led to
// its struct, an index is "[*]", locals and parameters are anonymous.
func csketch(v ssa.Value, d int) string {
	if d > 6 {
		return "…"
	}
	owner := func(t types.Type, i int) string {
		if p, ok := t.Underlying().(*types.Pointer); ok {
			t = p.Elem()
		}
		name := "struct"
		if n, ok := t.(*types.Named); ok {
			name = n.Obj().Name()
		}
		return name + "." + fieldName(t, i)
	}
	switch x := v.(type) {
	case *ssa.Const:
		if x.Value == nil {
			return "nil"
		}
		return x.Value.ExactString()
	case *ssa.FieldAddr:
		return owner(x.X.Type(), x.Field)
	case *ssa.Field:
		return owner(x.X.Type(), x.Field)
	case *ssa.UnOp:
		if x.Op == token.MUL {
			return csketch(x.X, d+1)
		}
		return x.Op.String() + csketch(x.X, d+1)
	case *ssa.IndexAddr:
		return csketch(x.X, d+1) + "[*]"
	case *ssa.Index:
		return csketch(x.X, d+1) + "[*]"
	case *ssa.Lookup:
		return csketch(x.X, d+1) + "[*]"
	case *ssa.Slice:
		return csketch(x.X, d+1) + "[:]"
	case *ssa.BinOp:
		return "(" + csketch(x.X, d+1) + x.Op.String() + csketch(x.Y, d+1) + ")"
	case *ssa.Convert:
		return csketch(x.X, d+1)
	case *ssa.ChangeType:
		return csketch(x.X, d+1)
	case *ssa.Call:
		if b, ok := x.Call.Value.(*ssa.Builtin); ok {
			s := b.Name() + "("
			for i, a := range x.Call.Args {
				if i > 0 {
					s += ","
				}
				s += csketch(a, d+1)
			}
			return s + ")"
		}
		if f := x.Call.StaticCallee(); f != nil {
			return f.Name() + "(…)"
		}
		if x.Call.IsInvoke() {
			return x.Call.Method.Name() + "(…)"
		}
		return "call(…)"
	case *ssa.Extract:
		return csketch(x.Tuple, d+1) + fmt.Sprintf("#%d", x.Index)
	case *ssa.MakeSlice:
		return "make(" + csketch(x.Len, d+1) + ")"
	case *ssa.Global:
		return x.Name()
	case *ssa.TypeAssert:
		return csketch(x.X, d+1) + ".(T)"
	}
	return "_"
}

func fieldName(t types.Type, i int) string {
	if p, ok := t.Underlying().(*types.Pointer); ok {
		t = p.Elem()
	}
	if s, ok := t.Underlying().(*types.Struct); ok && i < s.NumFields() {
		return s.Field(i).Name()
	}
	return fmt.Sprint(i)
}

func (e *Fn) indexSite(in ssa.Instruction, x, idx ssa.Value) Site {
	i := e.Eval(idx)
	n := e.Len(x)
	g1 := i                 // i ≥ 0
	g2 := n.Sub(i).AddK(-1) // i < len
	ok1 := e.Prove(in, g1)
	ok2 := e.Prove(in, g2)
	s := Site{Instr: in, Kind: "index", Expr: vname(x) + "[" + vname(idx) + "]", Coarse: csketch(x, 0) + "[*]", OK: ok1 && ok2}
	if !s.OK {
		var gs []lin.Form
		if !ok1 {
			gs = append(gs, g1)
		}
		if !ok2 {
			gs = append(gs, g2)
		}
		s.Reason = reason(false, e, gs...)
	}
	return s
}

func (e *Fn) sliceSite(x *ssa.Slice) Site {
	var goals []lin.Form
	isStr := false
	if b, ok := x.X.Type().Underlying().(*types.Basic); ok && b.Info()&types.IsString != 0 {
		isStr = true
	}
	limit := e.Cap(x.X)
	if isStr {
		limit = e.Len(x.X)
	}
	lo := lin.Const(0)
	if x.Low != nil {
		lo = e.Eval(x.Low)
		goals = append(goals, lo) // lo ≥ 0
	}
	var hi lin.Form
	if x.High != nil {
		hi = e.Eval(x.High)
		if x.Max != nil {
			mx := e.Eval(x.Max)
			goals = append(goals, mx.Sub(hi), limit.Sub(mx))
		} else {
			goals = append(goals, limit.Sub(hi))
		}
	} else {
		hi = e.Len(x.X)
	}
	goals = append(goals, hi.Sub(lo)) // lo ≤ hi
	ok := true
	var failed []lin.Form
	for _, g := range goals {
		if !e.Prove(x, g) {
			ok = false
			failed = append(failed, g)
		}
	}
	return Site{Instr: x, Kind: "slice", Expr: vname(x), Coarse: csketch(x, 0), OK: ok, Reason: reason(ok, e, failed...)}
}

func (e *Fn) makeSite(x *ssa.MakeSlice) *Site {
	n := e.Eval(x.Len)
	if n.IsConst() && n.K >= 0 {
		return nil
	}
	ok := e.Prove(x, n)
	// an attacker-chosen 32/64-bit size is an allocation bomb: the size must be built from input lengths,
	// ≤16-bit quantities and constants, or be provably ≤ 1<<20
	bounded := e.boundedSize(x.Len, 0) || e.Prove(x, lin.Const(1<<20).Sub(n))
	s := &Site{Instr: x, Kind: "make", Expr: "make(" + vname(x.Len) + ")", Coarse: "make(" + csketch(x.Len, 0) + ")", OK: ok && bounded}
	if !ok {
		s.Reason = reason(false, e, n)
	} else if !bounded {
		s.Reason = "size not bounded by an input length or a ≤16-bit field"
	}
	return s
}

func (e *Fn) divSite(x *ssa.BinOp) *Site {
	d := e.Eval(x.Y)
	if d.IsConst() && d.K != 0 {
		return nil
	}
	g := d.AddK(-1)
	ok := e.Prove(x, g)
	if !ok {
		// negative divisors are fine too
		ok = e.Prove(x, d.Scale(-1).AddK(-1))
	}
	return &Site{Instr: x, Kind: "div", Expr: vname(x), Coarse: csketch(x, 0), OK: ok, Reason: reason(ok, e, g)}
}

// boundedSize: the value is a combination of lengths, ≤16-bit quantities and constants.
func (e *Fn) boundedSize(v ssa.Value, d int) bool {
	if d > 8 {
		return false
	}
	if b := bits(v.Type()); b > 0 && b <= 16 {
		return true
	}
	switch x := v.(type) {
	case *ssa.Const:
		return true
	case *ssa.Call:
		if b, ok := x.Call.Value.(*ssa.Builtin); ok {
			switch b.Name() {
			case "len", "cap", "copy":
				return true
			case "min":
				for _, a := range x.Call.Args {
					if e.boundedSize(a, d+1) {
						return true
					}
				}
				return false
			case "max":
				for _, a := range x.Call.Args {
					if !e.boundedSize(a, d+1) {
						return false
					}
				}
				return true
			}
		}
	case *ssa.Convert:
		return e.boundedSize(x.X, d+1)
	case *ssa.ChangeType:
		return e.boundedSize(x.X, d+1)
	case *ssa.BinOp:
		switch x.Op {
		case token.ADD, token.SUB:
			return e.boundedSize(x.X, d+1) && e.boundedSize(x.Y, d+1)
		case token.MUL:
			_, c1 := x.X.(*ssa.Const)
			_, c2 := x.Y.(*ssa.Const)
			return (c1 || c2) && e.boundedSize(x.X, d+1) && e.boundedSize(x.Y, d+1)
		case token.QUO, token.REM, token.SHR, token.AND:
			return e.boundedSize(x.X, d+1)
		}
	case *ssa.Phi:
		if e.loopPhi(x) {
			return false
		}
		for _, ed := range x.Edges {
			if !e.boundedSize(ed, d+1) {
				return false
			}
		}
		return true
	case *ssa.UnOp:
		if x.Op == token.MUL {
			if c := e.canonLoad(x); c != ssa.Value(x) {
				return e.boundedSize(c, d+1)
			}
		}
	}
	return false
}
