// Package bounds is the linear-form bounds prover over go/ssa used by C09/C15: it evaluates integer
// SSA values and slice lengths to linear forms over opaque atoms, collects the branch facts that hold
// at a program point, and decides index/slice/make/division obligations with lin.Prove.
package bounds

import (
	"fmt"
	"go/constant"
	"go/token"
	"go/types"

	"bngvet/internal/flow"
	"bngvet/internal/lin"

	"golang.org/x/tools/go/ssa"
)

type akind int

const (
	aVal akind = iota
	aLen
	aCap
)

type akey struct {
	v ssa.Value
	k akind
}

// Fn is the per-function evaluation context.
type Fn struct {
	F      *ssa.Function
	P      *Prog // optional: interprocedural context
	atoms  map[akey]lin.Atom
	names  []string
	keys   []akey
	axioms [][]lin.Form // per atom: forms ≥ 0 that always hold
	canon  map[*ssa.UnOp]ssa.Value
	inEval map[ssa.Value]bool
	priv   map[ssa.Value]bool
	neqs   map[*ssa.BasicBlock][]lin.Form
	curNeq []lin.Form
	phiLB  map[*ssa.Phi]*phiInv
	reach  map[*ssa.BasicBlock]map[*ssa.BasicBlock]bool
	facts  map[*ssa.BasicBlock][]lin.Form
}

type phiInv struct {
	done bool
	has  bool
	lb   int64
}

func NewFn(f *ssa.Function) *Fn {
	return &Fn{F: f, atoms: map[akey]lin.Atom{}, canon: map[*ssa.UnOp]ssa.Value{}, inEval: map[ssa.Value]bool{}, priv: map[ssa.Value]bool{}, neqs: map[*ssa.BasicBlock][]lin.Form{}, phiLB: map[*ssa.Phi]*phiInv{},
		reach: map[*ssa.BasicBlock]map[*ssa.BasicBlock]bool{}, facts: map[*ssa.BasicBlock][]lin.Form{}}
}

func (e *Fn) atom(v ssa.Value, k akind) lin.Form {
	key := akey{v, k}
	if a, ok := e.atoms[key]; ok {
		return lin.Var(a)
	}
	a := lin.Atom(len(e.names))
	e.atoms[key] = a
	nm := v.Name()
	switch k {
	case aLen:
		nm = "len(" + nm + ")"
	case aCap:
		nm = "cap(" + nm + ")"
	}
	e.names = append(e.names, nm)
	e.keys = append(e.keys, key)
	e.axioms = append(e.axioms, nil)
	x := lin.Var(a)
	if par, ok := v.(*ssa.Parameter); ok && e.P != nil && (k == aLen || k == aVal) {
		iv := e.P.paramRange(par)
		if iv.hasLo {
			e.axioms[a] = append(e.axioms[a], x.AddK(-iv.lo))
		}
		if iv.hasHi {
			e.axioms[a] = append(e.axioms[a], lin.Const(iv.hi).Sub(x))
		}
	}
	switch k {
	case aLen:
		e.axioms[a] = append(e.axioms[a], x)
		e.lenAxioms(v, a)
	case aCap:
		// cap ≥ len
		e.axioms[a] = append(e.axioms[a], x.Sub(e.Len(v)))
	case aVal:
		if lo, hi, ok := typeRange(v.Type()); ok {
			if lo == 0 {
				e.axioms[a] = append(e.axioms[a], x)
			}
			if hi > 0 {
				e.axioms[a] = append(e.axioms[a], lin.Const(hi).Sub(x))
			}
			if lo < 0 {
				e.axioms[a] = append(e.axioms[a], x.AddK(-lo))
			}
		}
		e.valAxioms(v, a)
	}
	return x
}

func (e *Fn) Name(a lin.Atom) string { return e.names[a] }

func (e *Fn) Str(f lin.Form) string { return f.String(e.Name) }

// typeRange: value range implied by the static type. hi==0 means "no useful upper bound".
func typeRange(t types.Type) (lo, hi int64, ok bool) {
	b, isb := t.Underlying().(*types.Basic)
	if !isb {
		return 0, 0, false
	}
	switch b.Kind() {
	case types.Uint8:
		return 0, 255, true
	case types.Uint16:
		return 0, 65535, true
	case types.Uint32:
		return 0, 1<<32 - 1, true
	case types.Uint, types.Uint64, types.Uintptr:
		return 0, 0, true
	case types.Int8:
		return -128, 127, true
	case types.Int16:
		return -32768, 32767, true
	case types.Int32:
		return -(1 << 31), 1<<31 - 1, true
	}
	return 0, 0, false
}

func isWide(t types.Type) bool {
	b, ok := t.Underlying().(*types.Basic)
	if !ok {
		return false
	}
	switch b.Kind() {
	case types.Int, types.Int64, types.UntypedInt:
		return true
	}
	return false
}

func isWideUnsigned(t types.Type) bool {
	b, ok := t.Underlying().(*types.Basic)
	if !ok {
		return false
	}
	switch b.Kind() {
	case types.Uint, types.Uint64, types.Uintptr:
		return true
	}
	return false
}

func isUnsigned(t types.Type) bool {
	b, ok := t.Underlying().(*types.Basic)
	return ok && b.Info()&types.IsUnsigned != 0
}

func isInteger(t types.Type) bool {
	b, ok := t.Underlying().(*types.Basic)
	return ok && b.Info()&types.IsInteger != 0
}

func bits(t types.Type) int {
	b, ok := t.Underlying().(*types.Basic)
	if !ok {
		return 0
	}
	switch b.Kind() {
	case types.Int8, types.Uint8:
		return 8
	case types.Int16, types.Uint16:
		return 16
	case types.Int32, types.Uint32:
		return 32
	case types.Int, types.Uint, types.Int64, types.Uint64, types.Uintptr, types.UntypedInt:
		return 64
	}
	return 0
}

// Eval returns the linear form of an integer SSA value.
func (e *Fn) Eval(v ssa.Value) lin.Form {
	switch x := v.(type) {
	case *ssa.Const:
		if x.Value != nil && x.Value.Kind() == constant.Int {
			if k, ok := constant.Int64Val(x.Value); ok {
				return lin.Const(k)
			}
		}
		return e.atom(v, aVal)
	case *ssa.BinOp:
		if !isInteger(x.Type()) {
			return e.atom(v, aVal)
		}
		switch x.Op {
		case token.ADD, token.SUB:
			if isWide(x.Type()) {
				a, b := e.Eval(x.X), e.Eval(x.Y)
				if x.Op == token.ADD {
					return a.Add(b)
				}
				return a.Sub(b)
			}
			if isWideUnsigned(x.Type()) {
				// 64-bit unsigned: addition is linear (wrap at 2^64 is out of reach for lengths/offsets);
				// subtraction only when it provably does not wrap below zero
				a, b := e.Eval(x.X), e.Eval(x.Y)
				if x.Op == token.ADD {
					return a.Add(b)
				}
				if !e.inEval[x] {
					e.inEval[x] = true
					ok := e.Prove(x, a.Sub(b))
					delete(e.inEval, x)
					if ok {
						return a.Sub(b)
					}
				}
			}
		case token.MUL:
			if isWide(x.Type()) || isWideUnsigned(x.Type()) {
				a, b := e.Eval(x.X), e.Eval(x.Y)
				if a.IsConst() && abs(a.K) < 1<<20 {
					return b.Scale(a.K)
				}
				if b.IsConst() && abs(b.K) < 1<<20 {
					return a.Scale(b.K)
				}
			}
		}
		return e.atom(v, aVal)
	case *ssa.Convert:
		from, to := x.X.Type(), x.Type()
		if isInteger(from) && isInteger(to) {
			fb, tb := bits(from), bits(to)
			fu, tu := isUnsigned(from), isUnsigned(to)
			// value-preserving conversions only
			if (fu && tb > fb) || (!fu && !tu && tb >= fb) || (fu && tu && tb >= fb) {
				return e.Eval(x.X)
			}
			// signed -> unsigned of at least the same width: preserved when the operand is provably ≥ 0 here
			if !fu && tu && tb >= fb && !e.inEval[x] {
				e.inEval[x] = true
				f := e.Eval(x.X)
				ok := e.Prove(x, f)
				delete(e.inEval, x)
				if ok {
					return f
				}
			}
		}
		return e.atom(v, aVal)
	case *ssa.ChangeType:
		return e.Eval(x.X)
	case *ssa.Call:
		if b, ok := x.Call.Value.(*ssa.Builtin); ok {
			switch b.Name() {
			case "len":
				return e.Len(x.Call.Args[0])
			case "cap":
				return e.Cap(x.Call.Args[0])
			}
		}
		return e.atom(v, aVal)
	case *ssa.UnOp:
		if x.Op == token.MUL {
			c := e.canonLoad(x)
			if c != ssa.Value(x) {
				return e.Eval(c)
			}
		}
		return e.atom(v, aVal)
	case *ssa.Phi:
		return e.atom(v, aVal)
	}
	return e.atom(v, aVal)
}

func abs(x int64) int64 {
	if x < 0 {
		return -x
	}
	return x
}

// arrayLen returns N when t is [N]T or *[N]T.
func arrayLen(t types.Type) (int64, bool) {
	if p, ok := t.Underlying().(*types.Pointer); ok {
		t = p.Elem()
	}
	if a, ok := t.Underlying().(*types.Array); ok {
		return a.Len(), true
	}
	return 0, false
}

// Len returns the linear form of len(v) for a slice, string, array or pointer-to-array value.
func (e *Fn) Len(v ssa.Value) lin.Form {
	if n, ok := arrayLen(v.Type()); ok {
		return lin.Const(n)
	}
	switch x := v.(type) {
	case *ssa.Const:
		if x.Value == nil {
			return lin.Const(0) // nil slice
		}
		if x.Value.Kind() == constant.String {
			return lin.Const(int64(len(constant.StringVal(x.Value))))
		}
	case *ssa.Slice:
		var hi lin.Form
		if x.High != nil {
			hi = e.Eval(x.High)
		} else {
			hi = e.Len(x.X)
		}
		if x.Low != nil {
			return hi.Sub(e.Eval(x.Low))
		}
		return hi
	case *ssa.MakeSlice:
		return e.Eval(x.Len)
	case *ssa.ChangeType:
		return e.Len(x.X)
	case *ssa.Convert:
		// string <-> []byte keep the length; string(rune) etc. do not
		if isBytesOrString(x.X.Type()) && isBytesOrString(x.Type()) {
			return e.Len(x.X)
		}
	case *ssa.Call:
		if b, ok := x.Call.Value.(*ssa.Builtin); ok && b.Name() == "append" && len(x.Call.Args) == 2 {
			return e.Len(x.Call.Args[0]).Add(e.Len(x.Call.Args[1]))
		}
	case *ssa.UnOp:
		if x.Op == token.MUL {
			c := e.canonLoad(x)
			if c != ssa.Value(x) {
				return e.Len(c)
			}
		}
	}
	return e.atom(v, aLen)
}

func isBytesOrString(t types.Type) bool {
	switch u := t.Underlying().(type) {
	case *types.Basic:
		return u.Info()&types.IsString != 0
	case *types.Slice:
		b, ok := u.Elem().Underlying().(*types.Basic)
		return ok && b.Kind() == types.Uint8
	}
	return false
}

// Cap returns the linear form of cap(v).
func (e *Fn) Cap(v ssa.Value) lin.Form {
	if n, ok := arrayLen(v.Type()); ok {
		return lin.Const(n)
	}
	switch x := v.(type) {
	case *ssa.MakeSlice:
		return e.Eval(x.Cap)
	case *ssa.Slice:
		if x.Max != nil {
			if x.Low != nil {
				return e.Eval(x.Max).Sub(e.Eval(x.Low))
			}
			return e.Eval(x.Max)
		}
		if x.Low != nil {
			return e.Cap(x.X).Sub(e.Eval(x.Low))
		}
		return e.Cap(x.X)
	case *ssa.ChangeType:
		return e.Cap(x.X)
	case *ssa.UnOp:
		if x.Op == token.MUL {
			c := e.canonLoad(x)
			if c != ssa.Value(x) {
				return e.Cap(c)
			}
		}
	}
	if _, ok := v.Type().Underlying().(*types.Basic); ok { // string
		return e.Len(v)
	}
	return e.atom(v, aCap)
}

// lenAxioms adds facts about len(v) that follow from how v was produced.
func (e *Fn) lenAxioms(v ssa.Value, a lin.Atom) {
	x := lin.Var(a)
	switch c := v.(type) {
	case *ssa.Call:
		if f := c.Call.StaticCallee(); f != nil {
			switch {
			case flow.FuncIs(f, "crypto/md5", "digest", "Sum") || isHashSum(c, 16):
				e.axioms[a] = append(e.axioms[a], x.AddK(-16))
			}
		}
		if n := hashSumLen(c); n > 0 {
			e.axioms[a] = append(e.axioms[a], x.AddK(-n))
		}
	}
}

func isHashSum(c *ssa.Call, n int) bool { return false }

// hashSumLen: h.Sum(nil) on a value produced by md5.New()/sha256.New()/sha1.New() has a known minimum length.
func hashSumLen(c *ssa.Call) int64 {
	if !c.Call.IsInvoke() || c.Call.Method.Name() != "Sum" {
		return 0
	}
	src, ok := c.Call.Value.(*ssa.Call)
	if !ok {
		return 0
	}
	f := src.Call.StaticCallee()
	if f == nil || f.Pkg == nil || f.Name() != "New" {
		return 0
	}
	switch f.Pkg.Pkg.Path() {
	case "crypto/md5":
		return 16
	case "crypto/sha1":
		return 20
	case "crypto/sha256":
		return 32
	}
	return 0
}

// valAxioms adds facts about an integer value that follow from the call that produced it.
func (e *Fn) valAxioms(v ssa.Value, a lin.Atom) {
	x := lin.Var(a)
	switch c := v.(type) {
	case *ssa.BinOp:
		e.binopAxioms(c, a)
	case *ssa.Extract:
		call, ok := c.Tuple.(*ssa.Call)
		if !ok || c.Index != 0 {
			return
		}
		if buf := readBuffer(call); buf != nil && e.readTrusted(call) {
			// n, ... := conn.Read*(buf): 0 ≤ n ≤ len(buf)   (raw syscalls return -1 on error: no lower bound)
			e.axioms[a] = append(e.axioms[a], e.Len(buf).Sub(x))
			if !rawSyscall(call) {
				e.axioms[a] = append(e.axioms[a], x)
			}
		}
	case *ssa.Call:
		if b, ok := c.Call.Value.(*ssa.Builtin); ok {
			switch b.Name() {
			case "copy":
				e.axioms[a] = append(e.axioms[a], x, e.Len(c.Call.Args[0]).Sub(x), e.Len(c.Call.Args[1]).Sub(x))
			case "min":
				for _, arg := range c.Call.Args {
					e.axioms[a] = append(e.axioms[a], e.Eval(arg).Sub(x))
				}
			case "max":
				for _, arg := range c.Call.Args {
					e.axioms[a] = append(e.axioms[a], x.Sub(e.Eval(arg)))
				}
			}
			return
		}
		f := c.Call.StaticCallee()
		if f == nil || f.Pkg == nil {
			return
		}
		p := f.Pkg.Pkg.Path()
		if (p == "strings" || p == "bytes") && len(c.Call.Args) >= 1 {
			switch f.Name() {
			case "Index", "IndexByte", "IndexAny", "IndexRune", "LastIndex", "LastIndexByte", "IndexFunc":
				// -1 ≤ i ≤ len(s)-1
				e.axioms[a] = append(e.axioms[a], x.AddK(1), e.Len(c.Call.Args[0]).Sub(x).AddK(-1))
			}
		}
	}
}

// readBuffer returns the buffer argument when call is a read into a caller-supplied []byte whose first
// result is the byte count bounded by len(buffer).
func readBuffer(call *ssa.Call) ssa.Value {
	name := ""
	if call.Call.IsInvoke() {
		name = call.Call.Method.Name()
	} else if f := call.Call.StaticCallee(); f != nil {
		name = f.Name()
	}
	switch name {
	case "Read", "ReadFrom", "ReadFromUDP", "ReadFromIP", "ReadMsgUDP", "ReadFromUnix", "Recvfrom", "ReadAt", "ReadFull", "recv", "Recv":
	default:
		return nil
	}
	args := call.Call.Args
	for _, a := range args {
		if isBytesOrString(a.Type()) {
			if _, ok := a.Type().Underlying().(*types.Slice); ok {
				return a
			}
		}
	}
	return nil
}

// binopAxioms: range facts for shifts, divisions, remainders and masks that stay opaque in Eval.
func (e *Fn) binopAxioms(b *ssa.BinOp, a lin.Atom) {
	if !isInteger(b.Type()) || e.inEval[b] {
		return
	}
	e.inEval[b] = true
	defer delete(e.inEval, b)
	r := lin.Var(a)
	x := e.Eval(b.X)
	y := e.Eval(b.Y)
	xNonneg := isUnsigned(b.X.Type()) || e.triviallyNonneg(x)
	add := func(f ...lin.Form) { e.axioms[a] = append(e.axioms[a], f...) }
	switch b.Op {
	case token.SHR:
		if y.IsConst() && y.K >= 1 && y.K < 31 {
			// r = floor(x / 2^k): 2^k·r ≤ x ≤ 2^k·r + 2^k − 1
			k := int64(1) << uint(y.K)
			add(x.Sub(r.Scale(k)), r.Scale(k).AddK(k-1).Sub(x))
		}
		if xNonneg {
			add(r, x.Sub(r))
		}
	case token.QUO:
		if y.IsConst() && y.K >= 1 && y.K < 1<<20 && xNonneg {
			add(r, x.Sub(r.Scale(y.K)), r.Scale(y.K).AddK(y.K-1).Sub(x))
		}
	case token.REM:
		if y.IsConst() && y.K >= 1 {
			add(lin.Const(y.K-1).Sub(r), r.AddK(y.K-1))
			if xNonneg {
				add(r)
			}
		} else if xNonneg && (isUnsigned(b.Y.Type()) || e.triviallyNonneg(y)) {
			// x % y with x ≥ 0 and y ≥ 1 (a zero divisor panics at the division site, which is its own obligation): 0 ≤ r ≤ y-1
			add(r, y.Sub(r).AddK(-1))
		}
	case token.AND:
		if y.IsConst() && y.K >= 0 {
			add(r, lin.Const(y.K).Sub(r))
		} else if x.IsConst() && x.K >= 0 {
			add(r, lin.Const(x.K).Sub(r))
		}
	}
}

// readTrusted: library reads are trusted by name; reads implemented in the analysed module must satisfy the
// summary "count ≤ len(buffer) on every return" in every implementation the call can dispatch to.
func (e *Fn) readTrusted(call *ssa.Call) bool {
	if e.P == nil {
		f := call.Call.StaticCallee()
		return f != nil && f.Pkg != nil && !e.inModuleGuess(f)
	}
	return e.P.readBounded(call)
}

func (e *Fn) inModuleGuess(f *ssa.Function) bool {
	return e.F.Pkg != nil && f.Pkg != nil && moduleOf(e.F.Pkg.Pkg.Path()) == moduleOf(f.Pkg.Pkg.Path())
}

func moduleOf(path string) string {
	n := 0
	for i, c := range path {
		if c == '/' {
			n++
			if n == 3 {
				return path[:i]
			}
		}
	}
	return path
}

func rawSyscall(call *ssa.Call) bool {
	f := call.Call.StaticCallee()
	if f == nil || f.Pkg == nil {
		return false
	}
	switch f.Pkg.Pkg.Path() {
	case "syscall", "golang.org/x/sys/unix":
		return true
	}
	return false
}

func (e *Fn) String() string { return fmt.Sprintf("bounds.Fn(%s)", e.F) }
