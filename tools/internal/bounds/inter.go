package bounds

import (
	"go/constant"
	"go/token"
	"go/types"
	"regexp"

	"bngvet/internal/flow"
	"bngvet/internal/lin"

	"golang.org/x/tools/go/callgraph"
	"golang.org/x/tools/go/ssa"
)

// Prog gives the per-function contexts access to each other: parameter ranges established by every
// caller (in the call graph) become axioms of the callee.
type Prog struct {
	CG      *callgraph.Graph
	InScope func(*ssa.Function) bool // callers that are analysed (module code)
	fns     map[*ssa.Function]*Fn
	pre     map[*ssa.Parameter]*interval
	depth   int
	All     []*ssa.Function // every function whose stores are considered when resolving a field's regexp
	reField map[*types.Var][]string
	reInit  bool
	readOK  map[*ssa.Function]int // 1 = result#0 ≤ len(first []byte param) on every return, 2 = not
}

type interval struct {
	busy         bool
	hasLo, hasHi bool
	lo, hi       int64
}

func NewProg(cg *callgraph.Graph, inScope func(*ssa.Function) bool) *Prog {
	return &Prog{CG: cg, InScope: inScope, fns: map[*ssa.Function]*Fn{}, pre: map[*ssa.Parameter]*interval{}, readOK: map[*ssa.Function]int{}}
}

func (p *Prog) Fn(f *ssa.Function) *Fn {
	if e, ok := p.fns[f]; ok {
		return e
	}
	e := NewFn(f)
	e.P = p
	p.fns[f] = e
	return e
}

// paramRange returns the range of len(param) (slice/string params) or of the value (integer params)
// that every call site establishes.  Unknown or incomplete caller sets give no information.
func (p *Prog) paramRange(par *ssa.Parameter) *interval {
	if iv, ok := p.pre[par]; ok {
		if iv.busy {
			return &interval{}
		}
		return iv
	}
	iv := &interval{busy: true}
	p.pre[par] = iv
	defer func() { iv.busy = false }()
	if p.depth > 4 {
		return iv
	}
	p.depth++
	defer func() { p.depth-- }()

	f := par.Parent()
	idx := -1
	for i, q := range f.Params {
		if q == par {
			idx = i
		}
	}
	node := p.CG.Nodes[f]
	if idx < 0 || node == nil || len(node.In) == 0 || f.Parent() != nil {
		return iv
	}
	isLen := isSliceOrString(par.Type())
	if !isLen && !isInteger(par.Type()) {
		return iv
	}
	first := true
	for _, edge := range node.In {
		site := edge.Site
		caller := edge.Caller.Func
		if site == nil || caller == nil || caller.Synthetic != "" || !p.InScope(caller) {
			iv.hasLo, iv.hasHi = false, false
			return iv
		}
		if _, isGo := site.(*ssa.Go); isGo {
			// arguments are evaluated at the go statement: fine
		}
		com := site.Common()
		var arg ssa.Value
		if com.IsInvoke() {
			if idx == 0 {
				iv.hasLo, iv.hasHi = false, false
				return iv
			}
			if idx-1 >= len(com.Args) {
				iv.hasLo, iv.hasHi = false, false
				return iv
			}
			arg = com.Args[idx-1]
		} else {
			// closures: bindings are not params; static/dynamic function calls map 1:1
			if idx >= len(com.Args) {
				iv.hasLo, iv.hasHi = false, false
				return iv
			}
			arg = com.Args[idx]
		}
		if !types.Identical(arg.Type(), par.Type()) && !types.AssignableTo(arg.Type(), par.Type()) {
			iv.hasLo, iv.hasHi = false, false
			return iv
		}
		ce := p.Fn(caller)
		var form lin.Form
		if isLen {
			form = ce.Len(arg)
		} else {
			form = ce.Eval(arg)
		}
		lo, hasLo := ce.lowerBound(site, form)
		hi, hasHi := ce.upperBound(site, form)
		if first {
			iv.lo, iv.hasLo, iv.hi, iv.hasHi = lo, hasLo, hi, hasHi
			first = false
		} else {
			if !hasLo {
				iv.hasLo = false
			} else if iv.hasLo && lo < iv.lo {
				iv.lo = lo
			}
			if !hasHi {
				iv.hasHi = false
			} else if iv.hasHi && hi > iv.hi {
				iv.hi = hi
			}
		}
		if !iv.hasLo && !iv.hasHi {
			return iv
		}
	}
	if isLen && iv.hasLo && iv.lo <= 0 {
		iv.hasLo = false // len ≥ 0 is already an axiom
	}
	return iv
}

const boundMax = 1 << 16

// lowerBound finds the largest c in [−1, boundMax] with form ≥ c provable at site.
func (e *Fn) lowerBound(at ssa.Instruction, form lin.Form) (int64, bool) {
	if form.IsConst() {
		return form.K, true
	}
	if !e.Prove(at, form.AddK(1)) { // form ≥ -1 ?
		return 0, false
	}
	lo, hi := int64(-1), int64(boundMax)
	if e.Prove(at, form.AddK(-hi)) {
		return hi, true
	}
	for lo < hi-1 { // invariant: provable at lo, not provable at hi
		mid := (lo + hi) / 2
		if e.Prove(at, form.AddK(-mid)) {
			lo = mid
		} else {
			hi = mid
		}
	}
	return lo, true
}

// upperBound finds the smallest c in [0, boundMax] with form ≤ c provable at site.
func (e *Fn) upperBound(at ssa.Instruction, form lin.Form) (int64, bool) {
	if form.IsConst() {
		return form.K, true
	}
	neg := form.Scale(-1)
	if !e.Prove(at, neg.AddK(boundMax)) {
		return 0, false
	}
	lo, hi := int64(-1), int64(boundMax) // not provable at lo, provable at hi
	for lo < hi-1 {
		mid := (lo + hi) / 2
		if e.Prove(at, neg.AddK(mid)) {
			hi = mid
		} else {
			lo = mid
		}
	}
	return hi, true
}

// submatchLen returns the length of the slice a (*regexp.Regexp).Find*Submatch call yields when it is non-nil:
// 1 + number of capture groups of the pattern, when the receiver is a struct field (or global) only ever
// assigned regexp.MustCompile/Compile of constant patterns.  0 when unknown.
func (p *Prog) submatchLen(call *ssa.Call) int64 {
	f := call.Call.StaticCallee()
	if f == nil || f.Pkg == nil || f.Pkg.Pkg.Path() != "regexp" {
		return 0
	}
	mult := int64(1)
	switch f.Name() {
	case "FindStringSubmatch", "FindSubmatch":
	case "FindStringSubmatchIndex", "FindSubmatchIndex":
		mult = 2
	default:
		return 0
	}
	if len(call.Call.Args) == 0 {
		return 0
	}
	pats := p.regexpPatterns(call.Call.Args[0])
	if len(pats) == 0 {
		return 0
	}
	n := int64(-1)
	for _, pat := range pats {
		re, err := regexp.Compile(pat)
		if err != nil {
			return 0
		}
		k := int64(re.NumSubexp() + 1)
		if n == -1 || k < n {
			n = k
		}
	}
	return n * mult
}

func (p *Prog) regexpPatterns(recv ssa.Value) []string {
	switch x := recv.(type) {
	case *ssa.Call:
		if pat, ok := compiledPattern(x); ok {
			return []string{pat}
		}
	case *ssa.UnOp:
		if x.Op != token.MUL {
			return nil
		}
		var fv *types.Var
		switch a := x.X.(type) {
		case *ssa.FieldAddr:
			fv = fieldVar(a.X.Type(), a.Field)
		case *ssa.Global:
			return p.globalPatterns(a)
		}
		if fv == nil {
			return nil
		}
		p.initRegexpFields()
		return p.reField[fv]
	}
	return nil
}

func (p *Prog) globalPatterns(g *ssa.Global) []string {
	var out []string
	for _, f := range p.All {
		for _, b := range f.Blocks {
			for _, in := range b.Instrs {
				st, ok := in.(*ssa.Store)
				if !ok || st.Addr != ssa.Value(g) {
					continue
				}
				c, ok := st.Val.(*ssa.Call)
				if !ok {
					return nil
				}
				pat, ok := compiledPattern(c)
				if !ok {
					return nil
				}
				out = append(out, pat)
			}
		}
	}
	return out
}

func compiledPattern(c *ssa.Call) (string, bool) {
	f := c.Call.StaticCallee()
	if f == nil || f.Pkg == nil || f.Pkg.Pkg.Path() != "regexp" || (f.Name() != "MustCompile" && f.Name() != "Compile") {
		return "", false
	}
	k, ok := c.Call.Args[0].(*ssa.Const)
	if !ok || k.Value == nil || k.Value.Kind() != constant.String {
		return "", false
	}
	return constant.StringVal(k.Value), true
}

func fieldVar(t types.Type, i int) *types.Var {
	if p, ok := t.Underlying().(*types.Pointer); ok {
		t = p.Elem()
	}
	if s, ok := t.Underlying().(*types.Struct); ok && i < s.NumFields() {
		return s.Field(i)
	}
	return nil
}

func (p *Prog) initRegexpFields() {
	if p.reInit {
		return
	}
	p.reInit = true
	p.reField = map[*types.Var][]string{}
	bad := map[*types.Var]bool{}
	for _, f := range p.All {
		for _, b := range f.Blocks {
			for _, in := range b.Instrs {
				st, ok := in.(*ssa.Store)
				if !ok {
					continue
				}
				fa, ok := st.Addr.(*ssa.FieldAddr)
				if !ok {
					continue
				}
				fv := fieldVar(fa.X.Type(), fa.Field)
				if fv == nil || !isRegexpPtr(fv.Type()) {
					continue
				}
				c, ok := st.Val.(*ssa.Call)
				if !ok {
					bad[fv] = true
					continue
				}
				pat, ok := compiledPattern(c)
				if !ok {
					bad[fv] = true
					continue
				}
				p.reField[fv] = append(p.reField[fv], pat)
			}
		}
	}
	for fv := range bad {
		delete(p.reField, fv)
	}
}

func isRegexpPtr(t types.Type) bool {
	pt, ok := t.(*types.Pointer)
	if !ok {
		return false
	}
	n, ok := pt.Elem().(*types.Named)
	return ok && n.Obj().Name() == "Regexp" && n.Obj().Pkg() != nil && n.Obj().Pkg().Path() == "regexp"
}

// readBounded reports whether every module implementation the call may dispatch to returns a count that is
// ≤ len(its first []byte parameter) on every return.
func (p *Prog) readBounded(call *ssa.Call) bool {
	node := p.CG.Nodes[call.Parent()]
	if node == nil {
		return false
	}
	n := 0
	for _, e := range node.Out {
		if e.Site != ssa.CallInstruction(call) {
			continue
		}
		g := e.Callee.Func
		n++
		if !p.InScope(g) {
			continue // library implementation: trusted by name
		}
		if p.readOK[g] == 0 {
			p.readOK[g] = 2
			if p.checkReadImpl(g) {
				p.readOK[g] = 1
			}
		}
		if p.readOK[g] != 1 {
			return false
		}
	}
	return n > 0
}

func (p *Prog) checkReadImpl(g *ssa.Function) bool {
	var buf *ssa.Parameter
	for _, q := range g.Params {
		if _, ok := q.Type().Underlying().(*types.Slice); ok && isBytesOrString(q.Type()) {
			buf = q
			break
		}
	}
	if buf == nil || len(g.Blocks) == 0 {
		return false
	}
	e := p.Fn(g)
	for _, b := range g.Blocks {
		ret, ok := b.Instrs[len(b.Instrs)-1].(*ssa.Return)
		if !ok || b == g.Recover || len(ret.Results) == 0 {
			continue
		}
		if !e.Prove(ret, e.Len(buf).Sub(e.Eval(flow.ReturnValues(ret)[0]))) {
			return false
		}
	}
	return true
}
