package cexec

import (
	"fmt"
	"sort"
	"strconv"
	"strings"

	"bngvet/internal/cfront"
	"bngvet/internal/lin"
)

// Mode of exploration.
type Mode int

const (
	Merge Mode = iota
	Paths
)

const (
	atomEnd  lin.Atom = 0 // data_end - data
	atomBase lin.Atom = 1 // numeric address of data (only ever cancels out)
)

// Access is the verdict for one memory access expression (aggregated over all visits).
type Access struct {
	Node   *cfront.Node
	Func   string
	Store  bool
	Region string // pkt stack mapval ctx …
	OK     bool
	Why    string
	Visits int
	Expr   string
}

// Ret is one execution of a top-level return statement.
type Ret struct {
	Node *cfront.Node
	St   *State
	Val  Val
}

// Exec holds one analysis run over one program function.
type Exec struct {
	TU       *cfront.TU
	Mode     Mode
	Opaque   map[string]bool // helpers that are not inlined (Paths mode keeps tables small)
	nextSym  lin.Atom
	SymOrg   map[lin.Atom]string
	regions  map[string]*Region
	Access   map[string]*Access
	Problems []string // constructs the interpreter could not model (each is a failed obligation)
	Returns  []Ret
	Events   []Event // every event in visit order (Merge mode: global log)
	Loops    []LoopInfo
	depth    int
	stack    []string
	steps    int
	MaxSteps int
	curFn    string
	gotos    map[string][]*State // forward gotos waiting for their label (by LabelDecl id), per function activation
	keepCond *cfront.Node        // conditional operator whose alternatives are kept apart (operand of a return)
}

// LoopInfo records how a loop was handled.
type LoopInfo struct {
	Node  *cfront.Node
	Func  string
	Trips int
	Const bool
}

type res struct {
	st *State
	v  Val
}

type retS struct {
	st   *State
	v    Val
	node *cfront.Node
}

type flow struct {
	next, brk, cont []*State
	ret             []retS
}

// New prepares an interpreter for one translation unit.
func New(tu *cfront.TU, mode Mode) *Exec {
	return &Exec{TU: tu, Mode: mode, Opaque: map[string]bool{}, nextSym: 2, SymOrg: map[lin.Atom]string{}, regions: map[string]*Region{},
		Access: map[string]*Access{}, MaxSteps: 400000}
}

func (x *Exec) problem(n *cfront.Node, format string, a ...any) {
	msg := fmt.Sprintf(format, a...)
	if n != nil {
		msg = n.Pos() + ": " + msg
	}
	for _, p := range x.Problems {
		if p == msg {
			return
		}
	}
	x.Problems = append(x.Problems, msg)
}

func (x *Exec) fresh(st *State, iv Interval) lin.Atom {
	a := x.nextSym
	x.nextSym++
	st.iv[a] = iv
	return a
}

func (x *Exec) freshInt(st *State, w int64, signed bool, org string) Val {
	a := x.fresh(st, typeRange(w, signed))
	x.SymOrg[a] = org
	return Val{K: VInt, HasL: true, L: lin.Var(a), W: w, Signed: signed, Org: org}
}

func (x *Exec) region(kind int, name string, size int64) *Region {
	if r, ok := x.regions[name]; ok {
		return r
	}
	r := &Region{Kind: kind, Name: name, Size: size}
	x.regions[name] = r
	return r
}

func (x *Exec) mapValRegion(maps []string, size int64) *Region {
	r := x.region(RMapVal, "mapval:"+strings.Join(maps, "|"), size)
	r.Maps = maps
	return r
}

func (x *Exec) pktPtr() Val {
	return Val{K: VPtr, Reg: x.region(RPkt, "pkt", -1), L: lin.Const(0)}
}

// Run interprets a program entry function; its single parameter is the context pointer.
func (x *Exec) Run(fn *cfront.Node) {
	st := newState()
	st.iv[atomEnd] = Interval{0, 1 << 20}
	st.iv[atomBase] = Interval{0, posInf}
	x.curFn = fn.Name
	var body *cfront.Node
	for _, c := range fn.Inner {
		switch c.Kind {
		case "ParmVarDecl":
			ctx := x.region(RCtx, "ctx", -1)
			x.storeCell(st, x.stackRegion(c), 0, 8, Val{K: VPtr, Reg: ctx, L: lin.Const(0)})
		case "CompoundStmt":
			body = c
		}
	}
	x.stack = []string{fn.Name}
	x.gotos = nil
	fl := x.execStmt(body, []*State{st})
	if len(x.gotos) > 0 {
		x.problem(fn, "goto in %s to a label that is not ahead in an enclosing block", fn.Name)
		x.gotos = nil
	}
	for _, s := range fl.next {
		if s != nil && !s.dead {
			x.problem(fn, "control can reach the end of %s without a return", fn.Name)
		}
	}
}

func (x *Exec) stackRegion(decl *cfront.Node) *Region {
	name := "stack:" + decl.ID + ":" + decl.Name
	if r, ok := x.regions[name]; ok {
		return r
	}
	sz, err := x.TU.SizeOfStr(decl.Desugared())
	if err != nil {
		sz = -1
	}
	r := x.region(RStack, name, sz)
	r.Decl = decl
	return r
}

func cellKey(r *Region, off, size int64) string {
	return fmt.Sprintf("%s@%d:%d", r.Name, off, size)
}

func (x *Exec) storeCell(st *State, r *Region, off, size int64, v Val) {
	// drop overlapping cells
	pre := r.Name + "@"
	for k := range st.mem {
		if !strings.HasPrefix(k, pre) {
			continue
		}
		var o, s int64
		rest := k[len(pre):]
		i := strings.Index(rest, ":")
		o, _ = strconv.ParseInt(rest[:i], 10, 64)
		s, _ = strconv.ParseInt(rest[i+1:], 10, 64)
		if o < off+size && off < o+s {
			delete(st.mem, k)
		}
	}
	st.mem[cellKey(r, off, size)] = v
}

func (x *Exec) havocRegion(st *State, r *Region) {
	pre := r.Name + "@"
	for k := range st.mem {
		if strings.HasPrefix(k, pre) {
			delete(st.mem, k)
		}
	}
	delete(st.zero, r.Name)
}

// Cells returns the known cells of a region (offset -> value), for snapshotting keys.
func (x *Exec) Cells(st *State, r *Region) map[int64]Val {
	out := map[int64]Val{}
	pre := r.Name + "@"
	for k, v := range st.mem {
		if strings.HasPrefix(k, pre) {
			rest := k[len(pre):]
			o, _ := strconv.ParseInt(rest[:strings.Index(rest, ":")], 10, 64)
			out[o] = v
		}
	}
	return out
}

func (x *Exec) tick(n *cfront.Node) bool {
	x.steps++
	if x.steps > x.MaxSteps {
		x.problem(n, "analysis step budget exhausted in %s", x.curFn)
		return false
	}
	return true
}

// ---------- statements ----------

func live(ss []*State) []*State {
	out := ss[:0:0]
	for _, s := range ss {
		if s != nil && !s.dead {
			out = append(out, s)
		}
	}
	return out
}

func (x *Exec) merge(ss []*State) []*State {
	ss = live(ss)
	if x.Mode == Paths || len(ss) <= 1 {
		return ss
	}
	acc := ss[0]
	for _, s := range ss[1:] {
		acc = x.joinStates(acc, s)
	}
	return []*State{acc}
}

func (x *Exec) mergeRes(rs []res) []res {
	if x.Mode == Paths || len(rs) <= 1 {
		return rs
	}
	acc := rs[0]
	for _, r := range rs[1:] {
		if r.st == nil || r.st.dead {
			continue
		}
		if acc.st == nil || acc.st.dead {
			acc = r
			continue
		}
		n := x.joinStates(acc.st, r.st)
		v := x.joinVals(n, acc.st, r.st, acc.v, r.v)
		acc = res{n, v}
	}
	return []res{acc}
}

func (x *Exec) execStmt(n *cfront.Node, in []*State) flow {
	in = live(in)
	if n == nil || len(in) == 0 || !x.tick(n) {
		return flow{}
	}
	switch n.Kind {
	case "<null>", "NullStmt":
		return flow{next: in}
	case "CompoundStmt":
		var out flow
		cur := in
		for _, c := range n.Inner {
			// a label ahead: the states that jumped to it join the fall-through here
			if c.Kind == "LabelStmt" && len(x.gotos[c.DeclID]) > 0 {
				cur = x.merge(append(append([]*State(nil), cur...), x.gotos[c.DeclID]...))
				delete(x.gotos, c.DeclID)
			}
			if len(live(cur)) == 0 {
				if len(x.gotos) == 0 {
					break
				}
				continue // nothing flows here, but a later label of this block may be a goto target
			}
			f := x.execStmt(c, cur)
			out.brk = append(out.brk, f.brk...)
			out.cont = append(out.cont, f.cont...)
			out.ret = append(out.ret, f.ret...)
			cur = f.next
		}
		out.next = cur
		return out
	case "LabelStmt":
		return x.execStmt(n.Kid(len(n.Inner)-1), in)
	case "GotoStmt":
		if n.TargetID == "" {
			x.problem(n, "goto without a resolvable label")
			return flow{}
		}
		if x.gotos == nil {
			x.gotos = map[string][]*State{}
		}
		x.gotos[n.TargetID] = append(x.gotos[n.TargetID], in...)
		return flow{}
	case "DeclStmt":
		cur := in
		for _, d := range n.Inner {
			if d.Kind != "VarDecl" {
				continue
			}
			cur = x.declVar(d, cur)
		}
		return flow{next: cur}
	case "AttributedStmt":
		for _, c := range n.Inner {
			if !strings.HasSuffix(c.Kind, "Attr") {
				return x.execStmt(c, in)
			}
		}
		return flow{next: in}
	case "IfStmt":
		var out flow
		var after []*State
		for _, st := range in {
			t, f := x.branch(n.Kid(0), st)
			ft := x.execStmt(n.Kid(1), t)
			out.brk = append(out.brk, ft.brk...)
			out.cont = append(out.cont, ft.cont...)
			out.ret = append(out.ret, ft.ret...)
			after = append(after, ft.next...)
			if n.HasElse && n.Kid(2) != nil {
				fe := x.execStmt(n.Kid(2), f)
				out.brk = append(out.brk, fe.brk...)
				out.cont = append(out.cont, fe.cont...)
				out.ret = append(out.ret, fe.ret...)
				after = append(after, fe.next...)
			} else {
				after = append(after, f...)
			}
		}
		out.next = x.merge(after)
		out.brk = x.merge(out.brk)
		out.cont = x.merge(out.cont)
		return out
	case "ReturnStmt":
		var out flow
		for _, st := range in {
			if n.Kid(0) == nil {
				out.ret = append(out.ret, retS{st, Val{K: VUnk}, n})
				continue
			}
			// `return c ? A : B` is two returns: the alternatives are not joined
			top := n.Kid(0)
			for top != nil && (top.Kind == "ImplicitCastExpr" || top.Kind == "ParenExpr" || top.Kind == "CStyleCastExpr") {
				top = top.Kid(0)
			}
			if top != nil && top.Kind == "ConditionalOperator" {
				x.keepCond = top
			}
			for _, r := range x.eval(n.Kid(0), st) {
				out.ret = append(out.ret, retS{r.st, r.v, n})
				if x.depth == 0 {
					x.Returns = append(x.Returns, Ret{n, r.st, r.v})
					if x.Mode == Paths {
						r.st.Trace = append(r.st.Trace, Event{Kind: "return", Node: n, Val: r.v})
					}
				}
			}
		}
		return out
	case "BreakStmt":
		return flow{brk: in}
	case "ContinueStmt":
		return flow{cont: in}
	case "ForStmt":
		return x.execFor(n, in)
	case "WhileStmt", "DoStmt":
		return x.execWhile(n, in)
	case "SwitchStmt":
		return x.execSwitch(n, in)
	default:
		// expression statement
		var next []*State
		for _, st := range in {
			for _, r := range x.eval(n, st) {
				next = append(next, r.st)
			}
		}
		return flow{next: x.mergeFew(next)}
	}
}

// mergeFew: after a plain statement a handful of states (the distinct outcomes an inlined helper returned: NULL /
// pointer, -1 / 0) are kept apart until the next control-flow join, so that a test of the stored result
// (`p = find(...); if (!p) return`) still separates the outcome that carries the helper's bounds facts.
func (x *Exec) mergeFew(ss []*State) []*State {
	ss = live(ss)
	if len(ss) <= 3 {
		return ss
	}
	return x.merge(ss)
}

func (x *Exec) declVar(d *cfront.Node, in []*State) []*State {
	var out []*State
	reg := x.stackRegion(d)
	var init *cfront.Node
	for _, c := range d.Inner {
		if !strings.HasSuffix(c.Kind, "Attr") {
			init = c
		}
	}
	for _, st := range in {
		x.havocRegion(st, reg)
		if init == nil {
			out = append(out, st)
			continue
		}
		out = append(out, x.initInto(st, reg, 0, d.Desugared(), init)...)
	}
	return x.mergeFew(out)
}

// initInto stores the value of an initialiser expression into region+off.
func (x *Exec) initInto(st *State, reg *Region, off int64, typ string, init *cfront.Node) []*State {
	t, err := cfront.ParseType(typ)
	if err != nil {
		x.problem(init, "%v", err)
		return []*State{st}
	}
	if init.Kind == "ImplicitValueInitExpr" {
		sz, _ := x.TU.SizeOf(t)
		x.zeroRange(st, reg, off, sz)
		return []*State{st}
	}
	if init.Kind == "InitListExpr" {
		sz, _ := x.TU.SizeOf(t)
		x.zeroRange(st, reg, off, sz)
		switch t.Kind {
		case "record":
			rec := x.TU.Layout.Recs[t.Rec]
			if rec == nil {
				x.problem(init, "initialiser of %s: no layout", t.Rec)
				return []*State{st}
			}
			direct := directFields(rec)
			kids := initKids(init)
			if len(kids) > len(direct) {
				x.problem(init, "initialiser of %s has %d elements for %d members", t.Rec, len(kids), len(direct))
				return []*State{st}
			}
			cur := []*State{st}
			for i, k := range kids {
				f := direct[i]
				var nxt []*State
				for _, s := range cur {
					nxt = append(nxt, x.initInto(s, reg, off+f.Off, f.Type, k)...)
				}
				cur = nxt
			}
			return cur
		case "array":
			esz, _ := x.TU.SizeOf(t.Elem)
			cur := []*State{st}
			for i, k := range initKids(init) {
				var nxt []*State
				for _, s := range cur {
					nxt = append(nxt, x.initInto(s, reg, off+int64(i)*esz, typeString(t.Elem), k)...)
				}
				cur = nxt
			}
			return cur
		default:
			ks := initKids(init)
			if len(ks) == 1 {
				return x.initInto(st, reg, off, typ, ks[0])
			}
			return []*State{st}
		}
	}
	var out []*State
	for _, r := range x.eval(init, st) {
		sz, _ := x.TU.SizeOf(t)
		if t.Kind == "record" || t.Kind == "array" {
			// aggregate copy: contents unknown
			x.clobberRange(r.st, reg, off, sz)
		} else {
			x.storeCell(r.st, reg, off, sz, x.castTo(r.st, r.v, t))
		}
		out = append(out, r.st)
	}
	return out
}

func initKids(init *cfront.Node) []*cfront.Node {
	var ks []*cfront.Node
	for _, c := range init.Inner {
		if c.Kind == "<null>" {
			continue
		}
		ks = append(ks, c)
	}
	return ks
}

func directFields(rec *cfront.Rec) []*cfront.Field {
	// members flattened from anonymous records are not separately initialisable; keep fields whose decl parent is the record decl
	var out []*cfront.Field
	for _, f := range rec.Fields {
		if f.Decl.Parent == rec.Decl {
			out = append(out, f)
		}
	}
	return out
}

func typeString(t *cfront.CType) string {
	switch t.Kind {
	case "int":
		for k, v := range map[string]int64{"unsigned char": 1, "unsigned short": 2, "unsigned int": 4, "unsigned long long": 8} {
			if v == t.Size && !t.Signed {
				return k
			}
		}
		for k, v := range map[string]int64{"signed char": 1, "short": 2, "int": 4, "long long": 8} {
			if v == t.Size && t.Signed {
				return k
			}
		}
	case "ptr":
		return typeString(t.Elem) + " *"
	case "record":
		return t.Rec
	case "array":
		return fmt.Sprintf("%s[%d]", typeString(t.Elem), t.Len)
	case "void":
		return "void"
	case "enum":
		return "unsigned int"
	}
	return "int"
}

func (x *Exec) zeroRange(st *State, reg *Region, off, size int64) {
	if off == 0 && (size == reg.Size || reg.Size < 0) {
		x.havocRegion(st, reg)
		st.zero[reg.Name] = true
		return
	}
	x.clobberRange(st, reg, off, size)
	// explicit zero cells byte-wise would be imprecise for wider reads; record 1/2/4/8-byte aligned zero cells
	for _, w := range []int64{size} {
		if w == 1 || w == 2 || w == 4 || w == 8 {
			st.mem[cellKey(reg, off, w)] = zeroVal(w)
		}
	}
}

func (x *Exec) clobberRange(st *State, reg *Region, off, size int64) {
	pre := reg.Name + "@"
	for k := range st.mem {
		if !strings.HasPrefix(k, pre) {
			continue
		}
		rest := k[len(pre):]
		i := strings.Index(rest, ":")
		o, _ := strconv.ParseInt(rest[:i], 10, 64)
		s, _ := strconv.ParseInt(rest[i+1:], 10, 64)
		if o < off+size && off < o+s {
			delete(st.mem, k)
		}
	}
	if st.zero[reg.Name] {
		// the rest of the region stays zero: materialise nothing, but reads of the clobbered range must not see zero
		st.mem[cellKey(reg, off, size)] = Val{K: VUnk}
	}
}

func (x *Exec) execFor(n *cfront.Node, in []*State) flow {
	// inner: init, condvar, cond, inc, body
	var out flow
	init, cond, inc, body := n.Kid(0), n.Kid(2), n.Kid(3), n.Kid(4)
	cur := in
	if init != nil && init.Kind != "<null>" {
		cur = x.execStmt(init, cur).next
	}
	trips := 0
	constTrip := true
	var exits []*State
	for {
		cur = live(cur)
		if len(cur) == 0 {
			break
		}
		if trips > 1024 {
			x.problem(n, "loop does not terminate within 1024 abstract iterations")
			constTrip = false
			break
		}
		var enter []*State
		for _, st := range cur {
			if cond == nil || cond.Kind == "<null>" {
				enter = append(enter, st)
				continue
			}
			t, f := x.branch(cond, st)
			if len(live(t)) > 0 && len(live(f)) > 0 {
				constTrip = false
			}
			enter = append(enter, t...)
			exits = append(exits, f...)
		}
		enter = live(enter)
		if len(enter) == 0 {
			break
		}
		if !constTrip {
			x.problem(n, "loop condition is not decided by constants: trip count not bounded statically")
			exits = append(exits, enter...)
			break
		}
		trips++
		fb := x.execStmt(body, enter)
		out.ret = append(out.ret, fb.ret...)
		exits = append(exits, fb.brk...)
		nxt := x.merge(append(fb.next, fb.cont...))
		if inc != nil && inc.Kind != "<null>" {
			var after []*State
			for _, st := range nxt {
				for _, r := range x.eval(inc, st) {
					after = append(after, r.st)
				}
			}
			nxt = after
		}
		cur = nxt
	}
	x.Loops = append(x.Loops, LoopInfo{n, x.curFn, trips, constTrip})
	out.next = x.merge(exits)
	return out
}

func (x *Exec) execSwitch(n *cfront.Node, in []*State) flow {
	var out flow
	body := n.Kid(1)
	if body == nil || body.Kind != "CompoundStmt" {
		x.problem(n, "switch without compound body")
		return flow{next: in}
	}
	// flatten: list of (labels, statements)
	type item struct {
		label   *cfront.Node // CaseStmt/DefaultStmt or nil
		stmt    *cfront.Node
		caseVal int64
		isCase  bool
	}
	var items []item
	var flat func(s *cfront.Node)
	flat = func(s *cfront.Node) {
		switch s.Kind {
		case "CaseStmt":
			v, _ := strconv.ParseInt(constOf(s.Kid(0)), 10, 64)
			items = append(items, item{label: s, isCase: true, caseVal: v})
			flat(s.Kid(len(s.Inner) - 1))
		case "DefaultStmt":
			items = append(items, item{label: s})
			flat(s.Kid(len(s.Inner) - 1))
		default:
			items = append(items, item{stmt: s})
		}
	}
	for _, s := range body.Inner {
		flat(s)
	}
	var after []*State
	for _, st := range in {
		for _, r := range x.eval(n.Kid(0), st) {
			runFrom := func(start int, s *State) {
				cur := []*State{s}
				for _, it := range items[start:] {
					if it.stmt == nil {
						continue
					}
					f := x.execStmt(it.stmt, cur)
					out.ret = append(out.ret, f.ret...)
					out.cont = append(out.cont, f.cont...)
					after = append(after, f.brk...)
					cur = f.next
					if len(cur) == 0 {
						break
					}
				}
				after = append(after, cur...)
			}
			if c, ok := r.v.IsConst(); ok {
				found := -1
				def := -1
				for i, it := range items {
					if it.label != nil && it.isCase && it.caseVal == c {
						found = i
						break
					}
					if it.label != nil && !it.isCase {
						def = i
					}
				}
				if found < 0 {
					found = def
				}
				if found < 0 {
					after = append(after, r.st)
				} else {
					runFrom(found, r.st)
				}
				continue
			}
			// symbolic selector: every label is possible
			hasDef := false
			for i, it := range items {
				if it.label == nil {
					continue
				}
				s2 := r.st.clone()
				if it.isCase && r.v.HasL {
					d := r.v.L.AddK(-it.caseVal)
					s2.addFact(d)
					s2.addFact(d.Scale(-1))
					if x.Mode == Paths {
						s2.PathCond = append(s2.PathCond, fmt.Sprintf("%s == %d", r.v.String(), it.caseVal))
						l, lc := operandStr(r.v)
						cv := it.caseVal
						s2.Atoms = append(s2.Atoms, Atom{Op: "==", L: l, LC: lc, R: strconv.FormatInt(cv, 10), RC: &cv, Holds: true, Node: it.label.Pos()})
					}
				} else if !it.isCase {
					hasDef = true
					if x.Mode == Paths {
						// the default label is reached exactly when no case value matches
						l, lc := operandStr(r.v)
						for _, o := range items {
							if o.label != nil && o.isCase {
								cv := o.caseVal
								s2.Atoms = append(s2.Atoms, Atom{Op: "==", L: l, LC: lc, R: strconv.FormatInt(cv, 10), RC: &cv, Holds: false, Node: o.label.Pos()})
							}
						}
					}
				}
				if !s2.dead {
					runFrom(i, s2)
				}
			}
			if !hasDef {
				after = append(after, r.st)
			}
		}
	}
	out.next = x.merge(after)
	return out
}

func constOf(n *cfront.Node) string {
	for n != nil {
		if n.Value != "" {
			return n.Value
		}
		n = n.Kid(0)
	}
	return ""
}

// ---------- conditions ----------

// branch evaluates a condition and returns the states in which it holds / fails.
func (x *Exec) branch(e *cfront.Node, st *State) (t, f []*State) {
	if e == nil || st == nil || st.dead {
		return nil, nil
	}
	switch e.Kind {
	case "ParenExpr":
		return x.branch(e.Kid(0), st)
	case "ImplicitCastExpr", "CStyleCastExpr":
		if e.CastKind == "IntegralToBoolean" || e.CastKind == "NoOp" || (e.CastKind == "IntegralCast" && isBoolish(e.Kid(0))) {
			return x.branch(e.Kid(0), st)
		}
	case "UnaryOperator":
		if e.Opcode == "!" {
			f, t = x.branch(e.Kid(0), st)
			return t, f
		}
	case "BinaryOperator":
		switch e.Opcode {
		case "&&":
			ta, fa := x.branch(e.Kid(0), st)
			for _, s := range ta {
				tb, fb := x.branch(e.Kid(1), s)
				t = append(t, tb...)
				fa = append(fa, fb...)
			}
			return x.merge(t), x.merge(fa)
		case "||":
			ta, fa := x.branch(e.Kid(0), st)
			for _, s := range fa {
				tb, fb := x.branch(e.Kid(1), s)
				ta = append(ta, tb...)
				f = append(f, fb...)
			}
			return x.merge(ta), x.merge(f)
		}
	}
	for _, r := range x.eval(e, st) {
		ts := x.assume(r.st.clone(), r.v, true)
		fs := x.assume(r.st, r.v, false)
		if x.Mode == Paths && ts != nil && fs != nil {
			d := x.describe(r.v)
			ts.PathCond = append(ts.PathCond, d)
			fs.PathCond = append(fs.PathCond, "!("+d+")")
			for _, a := range x.atomsOf(r.v, e) {
				ts.Atoms = append(ts.Atoms, a)
				a.Holds = !a.Holds
				fs.Atoms = append(fs.Atoms, a)
			}
		}
		if ts != nil {
			t = append(t, ts)
		}
		if fs != nil {
			f = append(f, fs)
		}
	}
	return x.merge(t), x.merge(f)
}

func isBoolish(e *cfront.Node) bool {
	for e != nil && (e.Kind == "ParenExpr" || e.Kind == "ImplicitCastExpr") {
		e = e.Kid(0)
	}
	if e == nil {
		return false
	}
	if e.Kind == "BinaryOperator" {
		switch e.Opcode {
		case "==", "!=", "<", "<=", ">", ">=", "&&", "||":
			return true
		}
	}
	return e.Kind == "UnaryOperator" && e.Opcode == "!"
}

func (x *Exec) describe(v Val) string {
	if v.Cond != nil {
		return x.describeCond(v.Cond)
	}
	return v.String() + " != 0"
}

func (x *Exec) describeCond(c *CondV) string {
	switch c.Op {
	case "!":
		return "!(" + x.describeCond(c.X) + ")"
	case "&&", "||":
		return "(" + x.describeCond(c.X) + " " + c.Op + " " + x.describeCond(c.Y) + ")"
	case "nz":
		return c.A.String() + " != 0"
	}
	return c.A.String() + " " + c.Op + " " + c.B.String()
}

// assume refines st with (v != 0) == want; nil when infeasible.  st is consumed.
func (x *Exec) assume(st *State, v Val, want bool) *State {
	if st == nil || st.dead {
		return nil
	}
	if v.Cond != nil {
		return x.assumeCond(st, v.Cond, want)
	}
	switch v.K {
	case VInt:
		if !v.HasL {
			return st
		}
		r := st.Range(v.L)
		if want {
			if r.Lo == 0 && r.Hi == 0 {
				return nil
			}
			if r.Lo >= 0 {
				st.addFact(v.L.AddK(-1))
			} else if r.Hi <= 0 {
				st.addFact(v.L.Scale(-1).AddK(-1))
			}
		} else {
			if r.Lo > 0 || r.Hi < 0 {
				return nil
			}
			st.addFact(v.L)
			st.addFact(v.L.Scale(-1))
		}
	case VPtr:
		nullable := v.Reg.Kind == RMapVal || v.Reg.Kind == RRing
		if want {
			if st.isnull[v.Reg.Name] {
				return nil
			}
			if nullable {
				st.nonnull[v.Reg.Name] = true
				for _, m := range v.Reg.Maps {
					st.Looked[m] = true
				}
				if len(v.Reg.Maps) > 1 {
					delete(st.Looked, "")
				}
			}
		} else {
			if !nullable || st.nonnull[v.Reg.Name] {
				return nil
			}
			st.isnull[v.Reg.Name] = true
		}
	case VEnd:
		if !want {
			return nil
		}
	}
	if st.dead {
		return nil
	}
	return st
}

func negOp(op string) string {
	switch op {
	case "==":
		return "!="
	case "!=":
		return "=="
	case "<":
		return ">="
	case "<=":
		return ">"
	case ">":
		return "<="
	case ">=":
		return "<"
	}
	return op
}

func (x *Exec) assumeCond(st *State, c *CondV, want bool) *State {
	switch c.Op {
	case "!":
		return x.assumeCond(st, c.X, !want)
	case "nz":
		return x.assume(st, *c.A, want)
	case "&&", "||":
		// captured logical values are only produced in value contexts; treat as opaque
		return st
	}
	op := c.Op
	if !want {
		op = negOp(op)
	}
	a, b := *c.A, *c.B
	// pointer against NULL
	if a.K == VPtr || b.K == VPtr {
		p, o := a, b
		if b.K == VPtr && a.K != VPtr {
			p, o = b, a
			switch op {
			case "<":
				op = ">"
			case ">":
				op = "<"
			case "<=":
				op = ">="
			case ">=":
				op = "<="
			}
		}
		if k, ok := o.IsConst(); ok && k == 0 {
			switch op {
			case "!=":
				return x.assume(st, p, true)
			case "==":
				return x.assume(st, p, false)
			}
			return st
		}
		if o.K == VEnd && p.Reg.Kind == RPkt {
			return x.assumeLin(st, p.L, op, lin.Var(atomEnd))
		}
		if o.K == VPtr && o.Reg == p.Reg {
			return x.assumeLin(st, p.L, op, o.L)
		}
		return st
	}
	if a.K == VEnd && b.K == VPtr && b.Reg.Kind == RPkt {
		return x.assumeLin(st, lin.Var(atomEnd), op, b.L)
	}
	if a.K == VInt && b.K == VInt && a.HasL && b.HasL {
		return x.assumeLin(st, a.L, op, b.L)
	}
	return st
}

// assumeLin refines with a op b over integers; nil if infeasible.
func (x *Exec) assumeLin(st *State, a lin.Form, op string, b lin.Form) *State {
	d := a.Sub(b) // a - b
	var need []lin.Form
	switch op {
	case "<":
		need = []lin.Form{d.Scale(-1).AddK(-1)}
	case "<=":
		need = []lin.Form{d.Scale(-1)}
	case ">":
		need = []lin.Form{d.AddK(-1)}
	case ">=":
		need = []lin.Form{d}
	case "==":
		need = []lin.Form{d, d.Scale(-1)}
	case "!=":
		if st.Prove(d) && st.Prove(d.Scale(-1)) {
			return nil
		}
		// tighten an interval end when d is a single symbol at its boundary
		if len(d.T) == 1 {
			for s, c := range d.T {
				if c == 1 || c == -1 {
					iv := st.iv[s]
					v := -d.K * c
					if iv.Lo == v {
						iv.Lo++
					}
					if iv.Hi == v {
						iv.Hi--
					}
					st.iv[s] = iv
					if iv.Lo > iv.Hi {
						return nil
					}
				}
			}
		}
		return st
	}
	for _, f := range need {
		// infeasible when the negation (-f-1 >= 0) is provable
		if st.Prove(f.Scale(-1).AddK(-1)) {
			return nil
		}
	}
	for _, f := range need {
		st.addFact(f)
	}
	if st.dead {
		return nil
	}
	return st
}

// ---------- helpers for engines ----------

// SortedAccess lists access verdicts in source order.
func (x *Exec) SortedAccess() []*Access {
	out := make([]*Access, 0, len(x.Access))
	for _, a := range x.Access {
		out = append(out, a)
	}
	sort.Slice(out, func(i, j int) bool {
		if out[i].Node.Line != out[j].Node.Line {
			return out[i].Node.Line < out[j].Node.Line
		}
		return out[i].Node.ID < out[j].Node.ID
	})
	return out
}

func operandStr(v Val) (string, *int64) {
	if c, ok := v.IsConst(); ok {
		return fmt.Sprint(c), &c
	}
	switch v.K {
	case VPtr:
		return "nonnull:" + v.Reg.Name, nil
	case VEnd:
		return "data_end", nil
	}
	if v.Org != "" {
		return v.Org, nil
	}
	return "?", nil
}

// atomsOf renders a branch value as structured atoms (single comparison or truthiness; negations folded).
func (x *Exec) atomsOf(v Val, e *cfront.Node) []Atom {
	pos := e.Pos()
	var conv func(c *CondV, holds bool) []Atom
	conv = func(c *CondV, holds bool) []Atom {
		switch c.Op {
		case "!":
			return conv(c.X, !holds)
		case "nz":
			l, lc := operandStr(*c.A)
			return []Atom{{Op: "nz", L: l, LC: lc, Holds: holds, Node: pos}}
		case "&&", "||":
			return nil
		}
		l, lc := operandStr(*c.A)
		r, rc := operandStr(*c.B)
		if c.A.K == VPtr && c.A.Reg.Kind == RPkt {
			l = "pkt+" + formKey(c.A.L)
		}
		return []Atom{canonAtom(Atom{Op: c.Op, L: l, R: r, LC: lc, RC: rc, Holds: holds, Node: pos})}
	}
	if v.Cond != nil {
		return conv(v.Cond, true)
	}
	l, lc := operandStr(v)
	return []Atom{{Op: "nz", L: l, LC: lc, Holds: true, Node: pos}}
}

// RunFunc interprets one function on its own (not a program entry): pointer parameters that name packet memory are
// bound to a packet pointer at an unknown non-negative offset, `void *data_end` to the end marker, pointers to
// records to fresh stack objects, integers to fresh symbols.  Used to extract the decision table of a helper.
func (x *Exec) RunFunc(fn *cfront.Node) {
	st := newState()
	st.iv[atomEnd] = Interval{0, 1 << 20}
	st.iv[atomBase] = Interval{0, posInf}
	x.curFn = fn.Name
	var body *cfront.Node
	for _, c := range fn.Inner {
		switch c.Kind {
		case "ParmVarDecl":
			reg := x.stackRegion(c)
			t, err := cfront.ParseType(c.Desugared())
			var v Val
			switch {
			case err != nil:
				v = Val{K: VUnk}
			case t.Kind == "ptr" && strings.Contains(c.Name, "end"):
				v = Val{K: VEnd}
			case t.Kind == "ptr" && t.Elem.Kind == "record":
				sz, _ := x.TU.SizeOf(t.Elem)
				v = Val{K: VPtr, Reg: x.region(RStack, "arg:"+c.Name, sz), L: lin.Const(0)}
			case t.Kind == "ptr":
				off := x.fresh(st, Interval{0, 1 << 16})
				v = Val{K: VPtr, Reg: x.region(RPkt, "pkt", -1), L: lin.Var(off), Lbl: "arg:" + c.Name, LblOK: true}
			default:
				w, sg := intInfo(t)
				v = x.freshInt(st, w, sg, "arg:"+c.Name)
			}
			sz := reg.Size
			if sz < 0 {
				sz = 8
			}
			x.storeCell(st, reg, 0, sz, v)
		case "CompoundStmt":
			body = c
		}
	}
	x.stack = []string{fn.Name}
	x.execStmt(body, []*State{st})
}

// canonAtom orders the operands of a comparison canonically, so that `a == b` and `b == a` (and `K < x`, `x > K`)
// are one atom: a constant goes to the right, a packet field to the left of a map/stack value.
func canonAtom(a Atom) Atom {
	swap := false
	switch {
	case a.LC != nil && a.RC == nil:
		swap = true
	case a.LC == nil && a.RC == nil && !strings.HasPrefix(a.L, "pkt") && strings.HasPrefix(a.R, "pkt"):
		swap = true
	}
	if !swap {
		return a
	}
	mirror := map[string]string{"==": "==", "!=": "!=", "<": ">", ">": "<", "<=": ">=", ">=": "<="}
	m, ok := mirror[a.Op]
	if !ok {
		return a
	}
	a.Op = m
	a.L, a.R = a.R, a.L
	a.LC, a.RC = a.RC, a.LC
	return a
}

// execWhile unrolls a while / do-while loop by evaluating its condition in the abstract state: the loop is followed
// for as long as the condition can still hold, up to a fixed number of rounds.  A loop whose counter is a constant
// along the path (`while (left > 0 && a[left-1] == b[left-1]) left--`) terminates by itself; one whose condition never
// becomes false within the bound is reported as not modelled (never silently cut off).
func (x *Exec) execWhile(n *cfront.Node, in []*State) flow {
	const maxRounds = 70
	var out flow
	cond, body := n.Kid(0), n.Kid(1)
	if n.Kind == "DoStmt" {
		body, cond = n.Kid(0), n.Kid(1)
	}
	cur := in
	var exits []*State
	first := n.Kind == "DoStmt"
	for round := 0; ; round++ {
		var t []*State
		if first {
			t = cur
			first = false
		} else {
			for _, st := range cur {
				tt, ff := x.branch(cond, st)
				t = append(t, tt...)
				exits = append(exits, ff...)
			}
		}
		t = live(t)
		if len(t) == 0 {
			break
		}
		if round >= maxRounds {
			x.problem(n, "%s loop: the condition can still hold after %d rounds (no bound established)", n.Kind, maxRounds)
			exits = append(exits, t...)
			break
		}
		fl := x.execStmt(body, x.merge(t))
		out.ret = append(out.ret, fl.ret...)
		exits = append(exits, fl.brk...)
		cur = x.merge(append(append([]*State(nil), fl.next...), fl.cont...))
		if len(live(cur)) == 0 {
			break
		}
	}
	out.next = x.merge(exits)
	return out
}
