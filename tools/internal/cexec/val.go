// Package cexec is an abstract interpreter over clang's AST for the repository's eBPF programs.
// It never runs anything: values are linear forms over opaque symbols with intervals, pointers are
// (region, byte offset) pairs, packet bounds are facts of the shape data+L <= data_end, and integers can
// carry a byte-composition (which byte of which input sits in which byte of the value).  Static
// `__always_inline` helpers are inlined at AST level, constant-trip loops are unrolled, and branch
// conditions refine the state.  Two modes: Merge (one state per program point, joined at merges — used for
// bounds, pass-unmodified and provenance rules) and Paths (every undecided branch forks — used to extract
// decision tables of small functions).
package cexec

import (
	"fmt"
	"sort"
	"strings"

	"bngvet/internal/cfront"
	"bngvet/internal/lin"
)

// Value kinds.
const (
	VInt = iota
	VPtr
	VEnd // the data_end pointer
	VUnk
)

// Region kinds.
const (
	RPkt = iota
	RStack
	RMapVal
	RCtx
	RMapObj
	RGlobal
	RRing
	RNull
)

// Region is an abstract memory object.
type Region struct {
	Kind int
	Name string // unique key: "pkt", "stack:<declid>:<name>", "mapval:<maps>", "ctx", "map:<name>", …
	Size int64  // -1 unknown
	Maps []string
	Decl *cfront.Node
}

// Byte describes one byte of an integer value: byte Idx of source Src; Src=="" means constant Idx (0..255).
type Byte struct {
	Src string
	Idx int64
}

func (b Byte) String() string {
	if b.Src == "" {
		return fmt.Sprintf("#%d", b.Idx)
	}
	return fmt.Sprintf("%s[%d]", b.Src, b.Idx)
}

// CondV is a captured boolean: the 0/1 value of a comparison or logical combination.
type CondV struct {
	Op   string // == != < <= > >= ! && || nz (truthiness of A)
	A, B *Val
	X, Y *CondV // for ! && ||
}

// Val is an abstract value.
type Val struct {
	K      int
	L      lin.Form // VInt (valid when HasL) / VPtr offset
	HasL   bool
	W      int64 // width in bytes of an integer
	Signed bool
	Comp   []Byte // LSB first; nil when unknown
	Org    string // provenance rendering
	Cond   *CondV
	Reg    *Region
	Lbl    string // pointer label: record.field the pointer was derived from
	LblOff int64
	LblOK  bool
	fold   *foldTag
}

type foldTag struct {
	kind string // and / shr
	base lin.Form
	k    int64
}

func (v Val) IsConst() (int64, bool) {
	if v.K == VInt && v.HasL && v.L.IsConst() {
		return v.L.K, true
	}
	return 0, false
}

func (v Val) String() string {
	switch v.K {
	case VInt:
		if c, ok := v.IsConst(); ok {
			return fmt.Sprintf("%d", c)
		}
		if v.Org != "" {
			return v.Org
		}
		return "int?"
	case VPtr:
		return fmt.Sprintf("&%s+%s", v.Reg.Name, v.L.String(func(a lin.Atom) string { return fmt.Sprintf("s%d", a) }))
	case VEnd:
		return "data_end"
	}
	return "?"
}

// Interval of an integer symbol.
type Interval struct{ Lo, Hi int64 }

const (
	negInf = -(1 << 62)
	posInf = 1 << 62
)

// Event is something a path did that rules care about.
type Event struct {
	Kind   string // pktstore mapstore lookup update delete call return pktload
	Node   *cfront.Node
	Lbl    string // target label (record.field) for stores / loads
	Off    int64
	Size   int64
	Val    Val
	Map    string
	Name   string
	Args   []Val
	Ptr    Val
	Looked []string // maps with a successful lookup on every path reaching this event
	Func   string
	Stack  []string // the inlined-call stack (outermost first) when the event happened
	NAtoms int      // number of path atoms in force when the event happened (Paths mode)
	St     *State   // fnreturn events: the state at the return
}

// State is one abstract machine state.
type State struct {
	mem      map[string]Val // cell key "<region>@<off>:<size>"
	zero     map[string]bool
	facts    []lin.Form // each >= 0
	iv       map[lin.Atom]Interval
	nonnull  map[string]bool
	isnull   map[string]bool
	Writes   map[string]*cfront.Node // may-set of packet stores (key node id)
	Looked   map[string]bool         // maps with a successful lookup on every path here
	PktGone  bool                    // packet pointers invalidated by a helper
	Trace    []Event                 // Paths mode only
	PathCond []string                // Paths mode only
	Atoms    []Atom                  // Paths mode only: structured form of PathCond
	dead     bool
}

func newState() *State {
	return &State{mem: map[string]Val{}, zero: map[string]bool{}, iv: map[lin.Atom]Interval{}, nonnull: map[string]bool{},
		isnull: map[string]bool{}, Writes: map[string]*cfront.Node{}, Looked: map[string]bool{}}
}

func (s *State) clone() *State {
	n := newState()
	for k, v := range s.mem {
		n.mem[k] = v
	}
	for k, v := range s.zero {
		n.zero[k] = v
	}
	n.facts = append([]lin.Form(nil), s.facts...)
	for k, v := range s.iv {
		n.iv[k] = v
	}
	for k, v := range s.nonnull {
		n.nonnull[k] = v
	}
	for k, v := range s.isnull {
		n.isnull[k] = v
	}
	for k, v := range s.Writes {
		n.Writes[k] = v
	}
	for k, v := range s.Looked {
		n.Looked[k] = v
	}
	n.PktGone = s.PktGone
	n.Trace = append([]Event(nil), s.Trace...)
	n.PathCond = append([]string(nil), s.PathCond...)
	n.Atoms = append([]Atom(nil), s.Atoms...)
	return n
}

func formKey(f lin.Form) string {
	return f.String(func(a lin.Atom) string { return fmt.Sprintf("s%d", a) })
}

// allFacts returns relational facts plus the interval facts of every symbol mentioned.
func (s *State) allFacts(extra ...lin.Form) []lin.Form {
	out := append([]lin.Form(nil), s.facts...)
	seen := map[lin.Atom]bool{}
	addIv := func(f lin.Form) {
		for a := range f.T {
			if seen[a] {
				continue
			}
			seen[a] = true
			if iv, ok := s.iv[a]; ok {
				if iv.Lo > negInf {
					out = append(out, lin.Var(a).AddK(-iv.Lo))
				}
				if iv.Hi < posInf {
					out = append(out, lin.Var(a).Scale(-1).AddK(iv.Hi))
				}
			}
		}
	}
	for _, f := range s.facts {
		addIv(f)
	}
	for _, f := range extra {
		addIv(f)
	}
	return out
}

// Prove: goal >= 0 ?
func (s *State) Prove(goal lin.Form) bool {
	if goal.IsConst() {
		return goal.K >= 0
	}
	return lin.Prove(s.allFacts(goal), goal)
}

// Range computes an interval for a form from symbol intervals (and, when cheap, relational facts).
func (s *State) Range(f lin.Form) Interval {
	lo, hi := f.K, f.K
	loInf, hiInf := false, false
	for a, c := range f.T {
		iv, ok := s.iv[a]
		if !ok {
			iv = Interval{negInf, posInf}
		}
		l, h := iv.Lo, iv.Hi
		if c < 0 {
			l, h = h, l
		}
		if l <= negInf || l >= posInf {
			loInf = true
		} else {
			lo += c * l
		}
		if h <= negInf || h >= posInf {
			hiInf = true
		} else {
			hi += c * h
		}
	}
	r := Interval{lo, hi}
	if loInf {
		r.Lo = negInf
	}
	if hiInf {
		r.Hi = posInf
	}
	return r
}

func (s *State) addFact(f lin.Form) {
	if f.IsConst() {
		if f.K < 0 {
			s.dead = true
		}
		return
	}
	// single-symbol facts tighten the interval instead
	if len(f.T) == 1 {
		for a, c := range f.T {
			iv, ok := s.iv[a]
			if !ok {
				iv = Interval{negInf, posInf}
			}
			if c == 1 { // a + K >= 0
				if -f.K > iv.Lo {
					iv.Lo = -f.K
				}
			} else if c == -1 { // -a + K >= 0
				if f.K < iv.Hi {
					iv.Hi = f.K
				}
			} else {
				goto rel
			}
			s.iv[a] = iv
			if iv.Lo > iv.Hi {
				s.dead = true
			}
			return
		}
	}
rel:
	k := formKey(f)
	for _, g := range s.facts {
		if formKey(g) == k {
			return
		}
	}
	s.facts = append(s.facts, f)
}

// joinStates merges b into a copy of a (Merge mode).
func (x *Exec) joinStates(a, b *State) *State {
	if a == nil || a.dead {
		return b
	}
	if b == nil || b.dead {
		return a
	}
	n := newState()
	// facts: intersection
	bk := map[string]bool{}
	for _, f := range b.facts {
		bk[formKey(f)] = true
	}
	for _, f := range a.facts {
		if bk[formKey(f)] {
			n.facts = append(n.facts, f)
		}
	}
	// a fact of one side that the other side can prove survives too
	for _, f := range a.facts {
		if !bk[formKey(f)] && b.Prove(f) {
			n.facts = append(n.facts, f)
		}
	}
	ak := map[string]bool{}
	for _, f := range a.facts {
		ak[formKey(f)] = true
	}
	for _, f := range b.facts {
		if !ak[formKey(f)] && a.Prove(f) {
			n.facts = append(n.facts, f)
		}
	}
	for k, ia := range a.iv {
		if ib, ok := b.iv[k]; ok {
			n.iv[k] = Interval{min64(ia.Lo, ib.Lo), max64(ia.Hi, ib.Hi)}
		} else {
			n.iv[k] = ia // symbol unknown to b: b never constrained it beyond creation
		}
	}
	for k, ib := range b.iv {
		if _, ok := a.iv[k]; !ok {
			n.iv[k] = ib
		}
	}
	for k := range a.nonnull {
		if b.nonnull[k] {
			n.nonnull[k] = true
		}
	}
	for k := range a.isnull {
		if b.isnull[k] {
			n.isnull[k] = true
		}
	}
	for k := range a.zero {
		if b.zero[k] {
			n.zero[k] = true
		}
	}
	for k, v := range a.Writes {
		n.Writes[k] = v
	}
	for k, v := range b.Writes {
		n.Writes[k] = v
	}
	for k := range a.Looked {
		if b.Looked[k] {
			n.Looked[k] = true
		}
	}
	n.PktGone = a.PktGone || b.PktGone
	// memory: cell-wise join
	keys := map[string]bool{}
	for k := range a.mem {
		keys[k] = true
	}
	for k := range b.mem {
		keys[k] = true
	}
	ks := make([]string, 0, len(keys))
	for k := range keys {
		ks = append(ks, k)
	}
	sort.Strings(ks)
	for _, k := range ks {
		va, oka := a.mem[k]
		vb, okb := b.mem[k]
		reg := k[:strings.LastIndex(k, "@")]
		if !oka && a.zero[reg] {
			va, oka = zeroVal(vb.W), true
		}
		if !okb && b.zero[reg] {
			vb, okb = zeroVal(va.W), true
		}
		if !oka || !okb {
			continue
		}
		n.mem[k] = x.joinVals(n, a, b, va, vb)
	}
	return n
}

func zeroVal(w int64) Val {
	v := Val{K: VInt, HasL: true, L: lin.Const(0), W: w}
	for i := int64(0); i < w; i++ {
		v.Comp = append(v.Comp, Byte{"", 0})
	}
	return v
}

func sameComp(a, b []Byte) bool {
	if len(a) != len(b) || a == nil {
		return false
	}
	for i := range a {
		if a[i] != b[i] {
			return false
		}
	}
	return true
}

func (x *Exec) joinVals(n, sa, sb *State, a, b Val) Val {
	if a.K != b.K {
		// pointer vs NULL constant
		if a.K == VPtr {
			if c, ok := b.IsConst(); ok && c == 0 {
				n.nonnull[a.Reg.Name] = false
				delete(n.nonnull, a.Reg.Name)
				return a
			}
		}
		if b.K == VPtr {
			if c, ok := a.IsConst(); ok && c == 0 {
				delete(n.nonnull, b.Reg.Name)
				return b
			}
		}
		return Val{K: VUnk}
	}
	switch a.K {
	case VEnd:
		return a
	case VPtr:
		if formKey(a.L) != formKey(b.L) {
			if a.Reg == b.Reg {
				// same object, different offsets: hull through a fresh symbol
				ra, rb := sa.Range(a.L), sb.Range(b.L)
				s := x.fresh(n, Interval{min64(ra.Lo, rb.Lo), max64(ra.Hi, rb.Hi)})
				return Val{K: VPtr, Reg: a.Reg, L: lin.Var(s)}
			}
			return Val{K: VUnk}
		}
		if a.Reg == b.Reg {
			r := a
			if a.Lbl != b.Lbl || a.LblOff != b.LblOff {
				r.LblOK = false
			}
			return r
		}
		if a.Reg.Kind == RMapVal && b.Reg.Kind == RMapVal && a.Reg.Size == b.Reg.Size {
			r := x.mapValRegion(unionStr(a.Reg.Maps, b.Reg.Maps), a.Reg.Size)
			if sa.nonnull[a.Reg.Name] && sb.nonnull[b.Reg.Name] {
				n.nonnull[r.Name] = true
			} else {
				delete(n.nonnull, r.Name)
			}
			if sa.isnull[a.Reg.Name] && sb.isnull[b.Reg.Name] {
				n.isnull[r.Name] = true
			}
			out := a
			out.Reg = r
			return out
		}
		return Val{K: VUnk}
	case VInt:
		w := a.W
		if b.W > w {
			w = b.W
		}
		if a.HasL && b.HasL && formKey(a.L) == formKey(b.L) {
			r := a
			if !sameComp(a.Comp, b.Comp) {
				r.Comp = nil
			}
			if a.Org != b.Org {
				r.Org = joinOrg(a.Org, b.Org)
			}
			r.Cond = nil
			r.fold = nil
			return r
		}
		iv := Interval{negInf, posInf}
		if a.HasL && b.HasL {
			ra, rb := sa.Range(a.L), sb.Range(b.L)
			iv = Interval{min64(ra.Lo, rb.Lo), max64(ra.Hi, rb.Hi)}
		} else {
			iv = typeRange(w, a.Signed || b.Signed)
		}
		s := x.fresh(n, iv)
		r := Val{K: VInt, HasL: true, L: lin.Var(s), W: w, Signed: a.Signed || b.Signed, Org: joinOrg(a.Org, b.Org)}
		if sameComp(a.Comp, b.Comp) {
			r.Comp = a.Comp
		}
		return r
	}
	return Val{K: VUnk}
}

func joinOrg(a, b string) string {
	if a == b {
		return a
	}
	if a == "" || b == "" {
		return a + b
	}
	parts := map[string]bool{}
	for _, p := range strings.Split(a, " | ") {
		parts[p] = true
	}
	for _, p := range strings.Split(b, " | ") {
		parts[p] = true
	}
	ks := make([]string, 0, len(parts))
	for k := range parts {
		ks = append(ks, k)
	}
	sort.Strings(ks)
	s := strings.Join(ks, " | ")
	if len(s) > 400 {
		s = s[:400] + "…"
	}
	return s
}

func unionStr(a, b []string) []string {
	m := map[string]bool{}
	for _, s := range a {
		m[s] = true
	}
	for _, s := range b {
		m[s] = true
	}
	out := make([]string, 0, len(m))
	for s := range m {
		out = append(out, s)
	}
	sort.Strings(out)
	return out
}

func typeRange(w int64, signed bool) Interval {
	if w <= 0 || w >= 8 {
		if signed {
			return Interval{negInf, posInf}
		}
		return Interval{0, posInf}
	}
	if signed {
		return Interval{-(1 << (8*uint(w) - 1)), 1<<(8*uint(w)-1) - 1}
	}
	return Interval{0, 1<<(8*uint(w)) - 1}
}

func min64(a, b int64) int64 {
	if a < b {
		return a
	}
	return b
}
func max64(a, b int64) int64 {
	if a > b {
		return a
	}
	return b
}

// Atom is one undecided branch condition a path went through: (L Op R) == Holds.
type Atom struct {
	Op     string // == != < <= > >= nz
	L, R   string // operand renderings: provenance (pkt:…, map:…, nonnull:<region>) or a decimal constant
	LC, RC *int64 // constant operands
	Holds  bool
	Node   string // position
}

func (a Atom) String() string {
	s := a.L + " " + a.Op + " " + a.R
	if a.Op == "nz" {
		s = a.L
	}
	if !a.Holds {
		return "!(" + s + ")"
	}
	return s
}

// Facts exposes the packet-length knowledge of a state: Prove(len <= k) / Prove(len >= k).
func (s *State) ProvesLenAtMost(k int64) bool  { return s.Prove(lin.Const(k).Sub(lin.Var(0))) }
func (s *State) ProvesLenAtLeast(k int64) bool { return s.Prove(lin.Var(0).AddK(-k)) }

// SymRange returns the interval currently known for a symbol.
func (s *State) SymRange(a lin.Atom) Interval {
	if iv, ok := s.iv[a]; ok {
		return iv
	}
	return Interval{negInf, posInf}
}

// SingleSym returns the symbol of a value that is exactly one symbol (coefficient 1, no constant).
func (v Val) SingleSym() (lin.Atom, bool) {
	if v.K != VInt || !v.HasL || v.L.K != 0 || len(v.L.T) != 1 {
		return 0, false
	}
	for a, c := range v.L.T {
		if c == 1 {
			return a, true
		}
	}
	return 0, false
}

// Within reports whether the event happened in fn or in a helper (transitively) inlined into it.
func (e Event) Within(fn string) bool {
	for _, f := range e.Stack {
		if f == fn {
			return true
		}
	}
	return e.Func == fn
}
