package cexec

import (
	"fmt"
	"sort"
	"strconv"
	"strings"

	"bngvet/internal/cfront"
	"bngvet/internal/lin"
)

func one(st *State, v Val) []res { return []res{{st, v}} }

func constVal(k int64, w int64, signed bool) Val {
	v := Val{K: VInt, HasL: true, L: lin.Const(k), W: w, Signed: signed}
	if w > 0 && w <= 8 && k >= 0 {
		for i := int64(0); i < w; i++ {
			v.Comp = append(v.Comp, Byte{"", (k >> (8 * uint(i))) & 0xff})
		}
	}
	return v
}

func (x *Exec) typeOf(n *cfront.Node) *cfront.CType {
	t, err := cfront.ParseType(n.Desugared())
	if err != nil {
		x.problem(n, "%v", err)
		return &cfront.CType{Kind: "int", Size: 4, Signed: true}
	}
	return t
}

func intInfo(t *cfront.CType) (int64, bool) {
	switch t.Kind {
	case "int", "enum":
		return t.Size, t.Signed
	case "ptr":
		return 8, false
	}
	return 8, false
}

// castTo converts an integer value to the target type, keeping the linear form only when it provably fits.
func (x *Exec) castTo(st *State, v Val, t *cfront.CType) Val {
	if v.K != VInt || (t.Kind != "int" && t.Kind != "enum") {
		return v
	}
	w, sg := intInfo(t)
	out := v
	out.W, out.Signed = w, sg
	if v.HasL {
		r := st.Range(v.L)
		tr := typeRange(w, sg)
		if r.Lo < tr.Lo || r.Hi > tr.Hi {
			// may wrap/truncate: forget the numeric relation
			nv := x.freshInt(st, w, sg, v.Org)
			out.L, out.HasL = nv.L, true
			out.Cond, out.fold = nil, nil
			if v.Comp != nil && int64(len(v.Comp)) >= w && r.Lo >= 0 {
				out.Comp = append([]Byte(nil), v.Comp[:w]...)
				return out
			}
			out.Comp = nil
			return out
		}
	}
	if v.Comp != nil {
		c := append([]Byte(nil), v.Comp...)
		for int64(len(c)) < w {
			if v.Signed {
				c = nil
				break
			}
			c = append(c, Byte{"", 0})
		}
		if c != nil && int64(len(c)) > w {
			c = c[:w]
		}
		out.Comp = c
	}
	return out
}

// eval computes the rvalue of an expression.
func (x *Exec) eval(e *cfront.Node, st *State) []res {
	if st == nil || st.dead || e == nil {
		return nil
	}
	if !x.tick(e) {
		return nil
	}
	switch e.Kind {
	case "ParenExpr", "ConstantExpr":
		return x.eval(e.Kid(0), st)
	case "IntegerLiteral", "CharacterLiteral":
		k, err := strconv.ParseInt(e.Value, 10, 64)
		if err != nil {
			u, _ := strconv.ParseUint(e.Value, 10, 64)
			k = int64(u)
		}
		w, sg := intInfo(x.typeOf(e))
		return one(st, constVal(k, w, sg))
	case "ImplicitCastExpr", "CStyleCastExpr":
		return x.evalCast(e, st)
	case "DeclRefExpr":
		if e.Ref != nil && e.Ref.Kind == "EnumConstantDecl" {
			if d := x.TU.ByID[e.Ref.ID]; d != nil {
				if v, ok := x.enumValue(d); ok {
					return one(st, constVal(v, 4, true))
				}
			}
			x.problem(e, "enum constant %s has no value", e.Ref.Name)
			return one(st, Val{K: VUnk})
		}
		if e.Ref != nil && e.Ref.Kind == "FunctionDecl" {
			return one(st, Val{K: VUnk, Org: "func:" + e.Ref.Name})
		}
		// array / struct lvalue used as rvalue without cast should not happen; load scalar
		return x.loadExpr(e, st)
	case "MemberExpr", "ArraySubscriptExpr":
		return x.loadExpr(e, st)
	case "UnaryOperator":
		return x.evalUnary(e, st)
	case "BinaryOperator":
		return x.evalBinary(e, st)
	case "CompoundAssignOperator":
		return x.evalCompoundAssign(e, st)
	case "ConditionalOperator":
		var out []res
		t, f := x.branch(e.Kid(0), st)
		ty := x.typeOf(e)
		for _, s := range t {
			for _, r := range x.eval(e.Kid(1), s) {
				out = append(out, res{r.st, x.castTo(r.st, r.v, ty)})
			}
		}
		for _, s := range f {
			for _, r := range x.eval(e.Kid(2), s) {
				out = append(out, res{r.st, x.castTo(r.st, r.v, ty)})
			}
		}
		if e == x.keepCond {
			return out
		}
		return x.mergeRes(out)
	case "UnaryExprOrTypeTraitExpr":
		ts := e.ArgType
		if ts == "" && e.Kid(0) != nil {
			ts = e.Kid(0).Desugared()
		}
		sz, err := x.TU.SizeOfStr(ts)
		if err != nil {
			x.problem(e, "sizeof: %v", err)
			return one(st, Val{K: VUnk})
		}
		return one(st, constVal(sz, 8, false))
	case "CallExpr":
		return x.evalCall(e, st)
	case "InitListExpr", "ImplicitValueInitExpr":
		return one(st, Val{K: VUnk})
	case "StringLiteral":
		return one(st, Val{K: VPtr, Reg: x.region(RGlobal, "global:str", -1), L: lin.Const(0)})
	}
	x.problem(e, "unsupported expression kind %s", e.Kind)
	return one(st, Val{K: VUnk})
}

func (x *Exec) enumValue(d *cfront.Node) (int64, bool) {
	// explicit initialiser, or previous + 1
	if s := constOf(d.Kid(0)); s != "" {
		v, err := strconv.ParseInt(s, 10, 64)
		return v, err == nil
	}
	p := d.Parent
	if p == nil {
		return 0, false
	}
	prev := int64(-1)
	for _, c := range p.Inner {
		if c.Kind != "EnumConstantDecl" {
			continue
		}
		if s := constOf(c.Kid(0)); s != "" {
			prev, _ = strconv.ParseInt(s, 10, 64)
		} else {
			prev++
		}
		if c == d {
			return prev, true
		}
	}
	return 0, false
}

func (x *Exec) evalCast(e *cfront.Node, st *State) []res {
	in := e.Kid(0)
	switch e.CastKind {
	case "LValueToRValue":
		return x.loadExpr(in, st)
	case "ArrayToPointerDecay":
		return x.lval(in, st)
	case "FunctionToPointerDecay", "BuiltinFnToFnPtr":
		return x.eval(in, st)
	case "NullToPointer":
		return one(st, constVal(0, 8, false))
	case "NoOp", "BitCast", "ToVoid", "LValueBitCast":
		var out []res
		for _, r := range x.eval(in, st) {
			v := r.v
			if e.CastKind == "BitCast" && v.K == VPtr {
				// pointer reinterpretation keeps the object and offset; the label stays (byte granular)
			}
			out = append(out, res{r.st, v})
		}
		return out
	case "IntegralToPointer":
		var out []res
		for _, r := range x.eval(in, st) {
			v := r.v
			if v.K == VInt && v.HasL {
				// an address computed as integer: base + offset form → packet pointer
				if c, ok := v.L.T[atomBase]; ok && c == 1 {
					l := v.L.Sub(lin.Var(atomBase))
					if _, hasEnd := l.T[atomEnd]; hasEnd && len(l.T) == 1 && l.K == 0 {
						out = append(out, res{r.st, Val{K: VEnd}})
						continue
					}
					out = append(out, res{r.st, Val{K: VPtr, Reg: x.region(RPkt, "pkt", -1), L: l}})
					continue
				}
				if k, ok := v.IsConst(); ok && k == 0 {
					out = append(out, res{r.st, v})
					continue
				}
				out = append(out, res{r.st, Val{K: VUnk, Org: v.Org}})
				continue
			}
			out = append(out, res{r.st, v})
		}
		return out
	case "PointerToIntegral":
		var out []res
		for _, r := range x.eval(in, st) {
			switch r.v.K {
			case VPtr:
				if r.v.Reg.Kind == RPkt {
					out = append(out, res{r.st, Val{K: VInt, HasL: true, L: r.v.L.Add(lin.Var(atomBase)), W: 8}})
					continue
				}
				out = append(out, res{r.st, Val{K: VUnk}})
			case VEnd:
				out = append(out, res{r.st, Val{K: VInt, HasL: true, L: lin.Var(atomEnd).Add(lin.Var(atomBase)), W: 8}})
			default:
				out = append(out, res{r.st, r.v})
			}
		}
		return out
	case "IntegralCast", "IntegralToBoolean", "BooleanToSignedIntegral":
		var out []res
		ty := x.typeOf(e)
		for _, r := range x.eval(in, st) {
			v := r.v
			// ctx->data is modelled as a pointer already: integer casts of pointers keep them
			if v.K == VPtr || v.K == VEnd {
				out = append(out, res{r.st, v})
				continue
			}
			out = append(out, res{r.st, x.castTo(r.st, v, ty)})
		}
		return out
	case "PointerToBoolean":
		return x.eval(in, st)
	}
	x.problem(e, "unsupported cast kind %s", e.CastKind)
	return x.eval(in, st)
}

// lval computes the address of an lvalue expression as a pointer value.
func (x *Exec) lval(e *cfront.Node, st *State) []res {
	switch e.Kind {
	case "ParenExpr":
		return x.lval(e.Kid(0), st)
	case "DeclRefExpr":
		if e.Ref == nil {
			break
		}
		d := x.TU.ByID[e.Ref.ID]
		if d == nil {
			x.problem(e, "reference to unknown declaration %s", e.Ref.Name)
			return one(st, Val{K: VUnk})
		}
		if d.Parent == x.TU.Root {
			if _, ok := x.TU.Layout.Maps[d.Name]; ok {
				return one(st, Val{K: VPtr, Reg: x.region(RMapObj, "map:"+d.Name, -1), L: lin.Const(0)})
			}
			sz, _ := x.TU.SizeOfStr(d.Desugared())
			return one(st, Val{K: VPtr, Reg: x.region(RGlobal, "global:"+d.Name, sz), L: lin.Const(0), Lbl: "global." + d.Name, LblOK: true})
		}
		return one(st, Val{K: VPtr, Reg: x.stackRegion(d), L: lin.Const(0)})
	case "MemberExpr":
		var base []res
		var recType string
		// members of anonymous struct/union members are flattened into the enclosing record's layout
		be, arrow := e.Kid(0), e.IsArrow
		for be != nil && be.Kind == "MemberExpr" && be.Name == "" {
			arrow = be.IsArrow
			be = be.Kid(0)
		}
		if e.Name == "" {
			x.problem(e, "anonymous member used as a value")
			return one(st, Val{K: VUnk})
		}
		if arrow {
			base = x.eval(be, st)
			pt := x.typeOf(be)
			if pt.Kind == "ptr" && pt.Elem.Kind == "record" {
				recType = pt.Elem.Rec
			}
		} else {
			base = x.lval(be, st)
			bt := x.typeOf(be)
			if bt.Kind == "record" {
				recType = bt.Rec
			}
		}
		f, rec := x.TU.FieldByMember(recType, e.RefMember, e.Name)
		var out []res
		for _, r := range base {
			v := r.v
			if v.K != VPtr {
				out = append(out, res{r.st, Val{K: VUnk}})
				continue
			}
			if f == nil || rec == nil {
				x.problem(e, "member %s of %q has no layout", e.Name, recType)
				out = append(out, res{r.st, Val{K: VUnk}})
				continue
			}
			off := f.Off
			if f.Bitfield {
				off = 0 // the access is attributed to the whole record (see load/store)
			}
			nv := Val{K: VPtr, Reg: v.Reg, L: v.L.AddK(off)}
			if v.Reg.Kind == RPkt || v.Reg.Kind == RMapVal || v.Reg.Kind == RCtx || v.Reg.Kind == RRing {
				nv.Lbl, nv.LblOff, nv.LblOK = strings.TrimPrefix(strings.TrimPrefix(rec.Name, "struct "), "union ")+"."+f.Name, 0, true
				if f.Bitfield {
					nv.Lbl += ":bits"
				}
			} else if v.LblOK {
				nv.Lbl, nv.LblOff, nv.LblOK = v.Lbl, v.LblOff+off, true
			}
			out = append(out, res{r.st, nv})
		}
		return out
	case "ArraySubscriptExpr":
		var out []res
		et := x.typeOf(e)
		esz, _ := x.TU.SizeOf(et)
		for _, rb := range x.eval(e.Kid(0), st) {
			for _, ri := range x.eval(e.Kid(1), rb.st) {
				out = append(out, res{ri.st, x.ptrAdd(ri.st, rb.v, ri.v, esz, 1)})
			}
		}
		return out
	case "UnaryOperator":
		if e.Opcode == "*" {
			return x.eval(e.Kid(0), st)
		}
	case "ImplicitCastExpr", "CStyleCastExpr":
		if e.CastKind == "NoOp" || e.CastKind == "LValueBitCast" {
			return x.lval(e.Kid(0), st)
		}
	}
	x.problem(e, "unsupported lvalue %s", e.Kind)
	return one(st, Val{K: VUnk})
}

// ptrAdd: p + sign*idx*esz.
func (x *Exec) ptrAdd(st *State, p, idx Val, esz int64, sign int64) Val {
	if p.K == VEnd {
		return Val{K: VUnk}
	}
	if p.K != VPtr {
		return Val{K: VUnk}
	}
	if idx.K != VInt || !idx.HasL {
		return Val{K: VPtr, Reg: p.Reg, L: lin.Var(x.fresh(st, Interval{negInf, posInf}))}
	}
	nv := Val{K: VPtr, Reg: p.Reg, L: p.L.Add(idx.L.Scale(esz * sign))}
	if c, ok := idx.IsConst(); ok && p.LblOK {
		nv.Lbl, nv.LblOff, nv.LblOK = p.Lbl, p.LblOff+c*esz*sign, true
	}
	return nv
}

func (x *Exec) accessSize(e *cfront.Node) (int64, *cfront.CType) {
	t := x.typeOf(e)
	sz, err := x.TU.SizeOf(t)
	if err != nil {
		x.problem(e, "%v", err)
	}
	return sz, t
}

func isBitfieldMember(x *Exec, e *cfront.Node) (bool, int64) {
	for e != nil && e.Kind == "ParenExpr" {
		e = e.Kid(0)
	}
	if e == nil || e.Kind != "MemberExpr" {
		return false, 0
	}
	d := x.TU.ByID[e.RefMember]
	if d != nil && d.IsBitfield {
		var recType string
		if e.IsArrow {
			if pt := x.typeOf(e.Kid(0)); pt.Kind == "ptr" && pt.Elem.Kind == "record" {
				recType = pt.Elem.Rec
			}
		} else if bt := x.typeOf(e.Kid(0)); bt.Kind == "record" {
			recType = bt.Rec
		}
		if r := x.TU.Layout.Recs[recType]; r != nil {
			return true, r.Size
		}
		return true, 0
	}
	return false, 0
}

func (x *Exec) loadExpr(e *cfront.Node, st *State) []res {
	var out []res
	sz, t := x.accessSize(e)
	if t.Kind == "array" || t.Kind == "record" {
		// aggregates are only used through their address
		return x.lval(e, st)
	}
	bf, recSize := isBitfieldMember(x, e)
	for _, r := range x.lval(e, st) {
		if bf {
			ck := ""
			if r.v.K == VPtr && r.v.Reg.Kind == RPkt {
				ck = "pktcache@" + formKey(r.v.L) + ":" + r.v.Lbl
				if cv, ok := r.st.mem[ck]; ok {
					x.checkAccess(r.st, r.v, recSize, e, false)
					out = append(out, res{r.st, cv})
					continue
				}
			}
			v := x.load(r.st, r.v, recSize, t, e)
			nv := x.freshInt(r.st, 1, false, v.Org)
			nv.Org = "pktbits:" + r.v.Lbl
			for a := range nv.L.T {
				x.SymOrg[a] = nv.Org
			}
			// bit-field widths: clang gives the width as a ConstantExpr child of the FieldDecl
			if d := x.TU.ByID[e.RefMember]; d != nil {
				if w, err := strconv.ParseInt(constOf(d.Kid(0)), 10, 64); err == nil && w > 0 && w < 32 {
					for a := range nv.L.T {
						r.st.iv[a] = Interval{0, 1<<uint(w) - 1}
					}
				}
			}
			w, sg := intInfo(t)
			nv.W, nv.Signed = w, sg
			if ck != "" {
				r.st.mem[ck] = nv
			}
			out = append(out, res{r.st, nv})
			continue
		}
		out = append(out, res{r.st, x.load(r.st, r.v, sz, t, e)})
	}
	return out
}

func (x *Exec) noteAccess(e *cfront.Node, store bool, region string, ok bool, why string) {
	k := e.ID
	if store {
		k += ":w"
	}
	a := x.Access[k]
	if a == nil {
		a = &Access{Node: e, Func: x.stack[len(x.stack)-1], Store: store, Region: region, OK: true}
		x.Access[k] = a
	}
	a.Visits++
	if !ok && a.OK {
		a.OK = false
		a.Why = why
	}
}

// checkAccess decides whether [p, p+size) is inside its object.
func (x *Exec) checkAccess(st *State, p Val, size int64, e *cfront.Node, store bool) {
	if p.K != VPtr {
		x.noteAccess(e, store, "unknown", false, "the pointer's origin is not tracked")
		return
	}
	switch p.Reg.Kind {
	case RPkt:
		if st.PktGone {
			x.noteAccess(e, store, "pkt", false, "packet pointers were invalidated by a helper call before this access")
			return
		}
		okHi := st.Prove(lin.Var(atomEnd).Sub(p.L).AddK(-size))
		okLo := st.Prove(p.L)
		why := ""
		if !okHi {
			why = fmt.Sprintf("no dominating check establishes data + %s + %d <= data_end", x.formStr(p.L), size)
		} else if !okLo {
			why = "offset may be negative"
		}
		x.noteAccess(e, store, "pkt", okHi && okLo, why)
	case RStack, RGlobal:
		if p.Reg.Size < 0 {
			x.noteAccess(e, store, "stack", true, "")
			return
		}
		ok := st.Prove(p.L) && st.Prove(lin.Const(p.Reg.Size-size).Sub(p.L))
		x.noteAccess(e, store, "stack", ok, fmt.Sprintf("offset %s (+%d) not provably inside the %d-byte object %s", x.formStr(p.L), size, p.Reg.Size, p.Reg.Name))
	case RMapVal, RRing:
		if !st.nonnull[p.Reg.Name] {
			x.noteAccess(e, store, "mapval", false, "pointer returned by a map lookup/reserve is dereferenced without a NULL check on this path")
			return
		}
		ok := p.Reg.Size < 0 || (st.Prove(p.L) && st.Prove(lin.Const(p.Reg.Size-size).Sub(p.L)))
		x.noteAccess(e, store, "mapval", ok, fmt.Sprintf("offset %s (+%d) outside the %d-byte map value", x.formStr(p.L), size, p.Reg.Size))
	case RCtx:
		x.noteAccess(e, store, "ctx", true, "")
	default:
		x.noteAccess(e, store, "other", false, "access through "+p.Reg.Name)
	}
}

func (x *Exec) formStr(f lin.Form) string {
	return f.String(func(a lin.Atom) string {
		if a == atomEnd {
			return "len"
		}
		if o := x.SymOrg[a]; o != "" {
			return "<" + o + ">"
		}
		return fmt.Sprintf("s%d", a)
	})
}

func (x *Exec) load(st *State, p Val, size int64, t *cfront.CType, e *cfront.Node) Val {
	x.checkAccess(st, p, size, e, false)
	if p.K != VPtr {
		return Val{K: VUnk}
	}
	w, sg := intInfo(t)
	off, offConst := int64(0), p.L.IsConst()
	if offConst {
		off = p.L.K
	}
	switch p.Reg.Kind {
	case RCtx:
		switch {
		case strings.HasSuffix(p.Lbl, ".data"):
			return x.pktPtr()
		case strings.HasSuffix(p.Lbl, ".data_end"):
			return Val{K: VEnd}
		}
		return x.freshInt(st, w, sg, "ctx:"+p.Lbl)
	case RPkt:
		org := "pkt:?"
		if p.LblOK {
			org = "pkt:" + p.Lbl
			if p.LblOff != 0 {
				org += fmt.Sprintf("+%d", p.LblOff)
			}
		}
		v := x.freshInt(st, w, sg, org)
		if p.LblOK && t.Kind != "ptr" {
			for i := int64(0); i < size; i++ {
				v.Comp = append(v.Comp, Byte{"pkt:" + p.Lbl, p.LblOff + i})
			}
		}
		if x.Mode == Paths {
			st.Trace = append(st.Trace, Event{Kind: "pktload", Node: e, Lbl: p.Lbl, Off: p.LblOff, Size: size, Val: v})
		}
		return v
	case RStack, RMapVal, RRing, RGlobal:
		if offConst {
			if v, ok := st.mem[cellKey(p.Reg, off, size)]; ok {
				if v.K == VUnk && t.Kind != "ptr" {
					return x.freshInt(st, w, sg, "mem:"+p.Reg.Name)
				}
				return v
			}
			if st.zero[p.Reg.Name] {
				if !overlaps(st, p.Reg, off, size) {
					return zeroVal(size)
				}
			}
		}
		if t.Kind == "ptr" {
			return Val{K: VUnk}
		}
		org := "mem:" + p.Reg.Name
		var comp []Byte
		if p.Reg.Kind == RMapVal {
			org = "map:" + strings.Join(p.Reg.Maps, "|") + ":" + p.Lbl
			if p.LblOK {
				for i := int64(0); i < size; i++ {
					comp = append(comp, Byte{org, p.LblOff + i})
				}
			}
		} else if p.Reg.Kind == RGlobal {
			org = p.Reg.Name
		}
		v := x.freshInt(st, w, sg, org)
		v.Comp = comp
		if offConst && (p.Reg.Kind == RMapVal) {
			st.mem[cellKey(p.Reg, off, size)] = v // stable within one program run (concurrency is out of scope)
		}
		return v
	}
	return Val{K: VUnk}
}

func overlaps(st *State, r *Region, off, size int64) bool {
	pre := r.Name + "@"
	for k := range st.mem {
		if !strings.HasPrefix(k, pre) {
			continue
		}
		rest := k[len(pre):]
		i := strings.Index(rest, ":")
		o, _ := strconv.ParseInt(rest[:i], 10, 64)
		s, _ := strconv.ParseInt(rest[i+1:], 10, 64)
		if o < off+size && off < o+s {
			return true
		}
	}
	return false
}

func (x *Exec) store(st *State, p Val, size int64, v Val, e *cfront.Node) {
	x.checkAccess(st, p, size, e, true)
	if p.K != VPtr {
		return
	}
	switch p.Reg.Kind {
	case RPkt:
		for k := range st.mem {
			if strings.HasPrefix(k, "pktcache@") {
				delete(st.mem, k)
			}
		}
		st.Writes[e.ID] = e
		ev := Event{Kind: "pktstore", Node: e, Lbl: p.Lbl, Off: p.LblOff, Size: size, Val: v, Ptr: p, Looked: lookedKeys(st), Func: x.stack[len(x.stack)-1], Stack: append([]string(nil), x.stack...), NAtoms: len(st.Atoms)}
		x.Events = append(x.Events, ev)
		if x.Mode == Paths {
			st.Trace = append(st.Trace, ev)
		}
	case RStack, RMapVal, RRing, RCtx:
		if p.L.IsConst() {
			x.storeCell(st, p.Reg, p.L.K, size, v)
		} else {
			x.havocRegion(st, p.Reg)
		}
		if p.Reg.Kind != RStack {
			ev := Event{Kind: "mapstore", Node: e, Lbl: p.Lbl, Off: p.LblOff, Size: size, Val: v, Ptr: p, Map: strings.Join(p.Reg.Maps, "|"), NAtoms: len(st.Atoms), Func: x.stack[len(x.stack)-1], Stack: append([]string(nil), x.stack...)}
			if p.Reg.Kind == RCtx {
				ev.Kind = "ctxstore"
			}
			x.Events = append(x.Events, ev)
			if x.Mode == Paths {
				st.Trace = append(st.Trace, ev)
			}
		}
	}
}

func (x *Exec) evalUnary(e *cfront.Node, st *State) []res {
	switch e.Opcode {
	case "&":
		return x.lval(e.Kid(0), st)
	case "*":
		return x.loadExpr(e, st)
	case "!":
		var out []res
		for _, r := range x.eval(e.Kid(0), st) {
			v := r.v
			var c *CondV
			if v.Cond != nil {
				c = &CondV{Op: "!", X: v.Cond}
			} else {
				vv := v
				c = &CondV{Op: "!", X: &CondV{Op: "nz", A: &vv}}
			}
			nv := x.freshInt(r.st, 4, true, "!"+v.String())
			for a := range nv.L.T {
				r.st.iv[a] = Interval{0, 1}
			}
			nv.Cond = c
			out = append(out, res{r.st, nv})
		}
		return out
	case "-", "~", "+":
		var out []res
		ty := x.typeOf(e)
		w, sg := intInfo(ty)
		for _, r := range x.eval(e.Kid(0), st) {
			v := r.v
			if v.K == VInt && v.HasL {
				switch e.Opcode {
				case "+":
					out = append(out, res{r.st, v})
					continue
				case "-":
					nv := Val{K: VInt, HasL: true, L: v.L.Scale(-1), W: w, Signed: sg, Org: "-(" + v.Org + ")"}
					out = append(out, res{r.st, x.castTo(r.st, nv, ty)})
					continue
				case "~":
					if c, ok := v.IsConst(); ok {
						out = append(out, res{r.st, x.castTo(r.st, constVal(^c, w, sg), ty)})
						continue
					}
					rg := r.st.Range(v.L)
					x.event(r.st, Event{Kind: "bitnot", Node: e, Val: v, Off: rg.Lo, Size: rg.Hi})
					nv := x.freshInt(r.st, w, sg, "~("+v.Org+")")
					nv.fold = &foldTag{kind: "not", base: v.L}
					out = append(out, res{r.st, nv})
					continue
				}
			}
			out = append(out, res{r.st, x.freshInt(r.st, w, sg, e.Opcode+"("+v.Org+")")})
		}
		return out
	case "++", "--":
		var out []res
		sz, t := x.accessSize(e.Kid(0))
		for _, r := range x.lval(e.Kid(0), st) {
			old := x.load(r.st, r.v, sz, t, e.Kid(0))
			d := int64(1)
			if e.Opcode == "--" {
				d = -1
			}
			var nv Val
			if old.K == VInt && old.HasL {
				nv = Val{K: VInt, HasL: true, L: old.L.AddK(d), W: old.W, Signed: old.Signed, Org: fmt.Sprintf("(%s%+d)", old.Org, d)}
				nv = x.castTo(r.st, nv, t)
			} else if old.K == VPtr {
				pt := x.typeOf(e.Kid(0))
				esz := int64(1)
				if pt.Kind == "ptr" {
					esz, _ = x.TU.SizeOf(pt.Elem)
				}
				nv = x.ptrAdd(r.st, old, constVal(d, 8, true), esz, 1)
			} else {
				nv = Val{K: VUnk}
			}
			x.store(r.st, r.v, sz, nv, e)
			if e.IsPostfix {
				out = append(out, res{r.st, old})
			} else {
				out = append(out, res{r.st, nv})
			}
		}
		return out
	}
	x.problem(e, "unsupported unary operator %s", e.Opcode)
	return one(st, Val{K: VUnk})
}

func (x *Exec) evalCompoundAssign(e *cfront.Node, st *State) []res {
	var out []res
	sz, t := x.accessSize(e.Kid(0))
	op := strings.TrimSuffix(e.Opcode, "=")
	for _, rl := range x.lval(e.Kid(0), st) {
		for _, rr := range x.eval(e.Kid(1), rl.st) {
			old := x.load(rr.st, rl.v, sz, t, e.Kid(0))
			var nv Val
			if old.K == VPtr {
				pt := x.typeOf(e.Kid(0))
				esz := int64(1)
				if pt.Kind == "ptr" {
					esz, _ = x.TU.SizeOf(pt.Elem)
				}
				sign := int64(1)
				if op == "-" {
					sign = -1
				}
				nv = x.ptrAdd(rr.st, old, rr.v, esz, sign)
			} else {
				nv = x.arith(rr.st, op, old, rr.v, t, e)
			}
			x.store(rr.st, rl.v, sz, nv, e)
			out = append(out, res{rr.st, nv})
		}
	}
	return out
}

func (x *Exec) evalBinary(e *cfront.Node, st *State) []res {
	op := e.Opcode
	switch op {
	case "=":
		var out []res
		sz, t := x.accessSize(e.Kid(0))
		bf, _ := isBitfieldMember(x, e.Kid(0))
		for _, rl := range x.lval(e.Kid(0), st) {
			for _, rr := range x.eval(e.Kid(1), rl.st) {
				v := rr.v
				if t.Kind == "int" || t.Kind == "enum" {
					v = x.castTo(rr.st, v, t)
				}
				if bf {
					sz = 1
				}
				x.store(rr.st, rl.v, sz, v, e)
				out = append(out, res{rr.st, v})
			}
		}
		return out
	case ",":
		var out []res
		for _, r := range x.eval(e.Kid(0), st) {
			out = append(out, x.eval(e.Kid(1), r.st)...)
		}
		return out
	case "&&", "||":
		t, f := x.branch(e, st)
		var out []res
		for _, s := range t {
			out = append(out, res{s, constVal(1, 4, true)})
		}
		for _, s := range f {
			out = append(out, res{s, constVal(0, 4, true)})
		}
		return x.mergeRes(out)
	}
	var out []res
	ty := x.typeOf(e)
	for _, ra := range x.eval(e.Kid(0), st) {
		for _, rb := range x.eval(e.Kid(1), ra.st) {
			a, b := ra.v, rb.v
			s := rb.st
			switch op {
			case "==", "!=", "<", "<=", ">", ">=":
				nv := x.freshInt(s, 4, true, "("+a.String()+" "+op+" "+b.String()+")")
				for at := range nv.L.T {
					s.iv[at] = Interval{0, 1}
				}
				aa, bb := a, b
				nv.Cond = &CondV{Op: op, A: &aa, B: &bb}
				if (op == "==" || op == "!=") && a.K == VInt && b.K == VInt && (a.Comp != nil || b.Comp != nil) {
					x.event(s, Event{Kind: "cmp", Node: e, Args: []Val{a, b}})
				}
				// a symbol compared with a constant (either side)
				if cb, okb := b.IsConst(); okb {
					if _, oka := a.SingleSym(); oka {
						x.event(s, Event{Kind: "cmpk", Node: e, Val: a, Off: cb, Name: op})
					}
				} else if ca, oka := a.IsConst(); oka {
					if _, okb2 := b.SingleSym(); okb2 {
						x.event(s, Event{Kind: "cmpk", Node: e, Val: b, Off: ca, Name: op})
					}
				}
				// decide when possible
				if t1 := x.assume(s.clone(), nv, true); t1 == nil {
					nv = constVal(0, 4, true)
					nv.Cond = &CondV{Op: op, A: &aa, B: &bb}
				} else if f1 := x.assume(s.clone(), nv, false); f1 == nil {
					nv = constVal(1, 4, true)
					nv.Cond = &CondV{Op: op, A: &aa, B: &bb}
				}
				out = append(out, res{s, nv})
				continue
			case "+", "-":
				if a.K == VPtr || b.K == VPtr || a.K == VEnd || b.K == VEnd {
					out = append(out, res{s, x.ptrArith(s, e, op, a, b)})
					continue
				}
			}
			out = append(out, res{s, x.arith(s, op, a, b, ty, e)})
		}
	}
	return out
}

func (x *Exec) ptrArith(st *State, e *cfront.Node, op string, a, b Val) Val {
	// pointer difference
	if op == "-" && (a.K == VPtr || a.K == VEnd) && (b.K == VPtr || b.K == VEnd) {
		la, oka := ptrForm(a)
		lb, okb := ptrForm(b)
		if oka && okb {
			return Val{K: VInt, HasL: true, L: la.Sub(lb), W: 8, Signed: true}
		}
		return Val{K: VUnk}
	}
	p, i := a, b
	pe := e.Kid(0)
	if b.K == VPtr {
		p, i = b, a
		pe = e.Kid(1)
	}
	if p.K != VPtr {
		return Val{K: VUnk}
	}
	esz := int64(1)
	if pt := x.typeOf(pe); pt.Kind == "ptr" {
		esz, _ = x.TU.SizeOf(pt.Elem)
	}
	sign := int64(1)
	if op == "-" {
		sign = -1
	}
	return x.ptrAdd(st, p, i, esz, sign)
}

func ptrForm(v Val) (lin.Form, bool) {
	switch v.K {
	case VEnd:
		return lin.Var(atomEnd), true
	case VPtr:
		if v.Reg.Kind == RPkt {
			return v.L, true
		}
	}
	return lin.Form{}, false
}

// arith implements integer arithmetic on abstract values.
func (x *Exec) arith(st *State, op string, a, b Val, ty *cfront.CType, e *cfront.Node) Val {
	w, sg := intInfo(ty)
	org := "(" + a.String() + " " + op + " " + b.String() + ")"
	if len(org) > 8000 {
		org = org[:8000] + "…"
	}
	unknown := func() Val { return x.freshInt(st, w, sg, org) }
	if a.K != VInt || b.K != VInt {
		return unknown()
	}
	ca, oka := a.IsConst()
	cb, okb := b.IsConst()
	if oka && okb {
		var r int64
		switch op {
		case "+":
			r = ca + cb
		case "-":
			r = ca - cb
		case "*":
			r = ca * cb
		case "/":
			if cb == 0 {
				return unknown()
			}
			r = ca / cb
		case "%":
			if cb == 0 {
				return unknown()
			}
			r = ca % cb
		case "&":
			r = ca & cb
		case "|":
			r = ca | cb
		case "^":
			r = ca ^ cb
		case "<<":
			r = ca << uint(cb&63)
		case ">>":
			r = ca >> uint(cb&63)
		default:
			return unknown()
		}
		v := constVal(r, w, sg)
		return x.castTo(st, v, ty)
	}
	var ra, rb Interval
	if a.HasL {
		ra = st.Range(a.L)
	} else {
		ra = typeRange(a.W, a.Signed)
	}
	if b.HasL {
		rb = st.Range(b.L)
	} else {
		rb = typeRange(b.W, b.Signed)
	}
	mk := func(l lin.Form) Val {
		return x.castTo(st, Val{K: VInt, HasL: true, L: l, W: w, Signed: sg, Org: org}, ty)
	}
	rng := func(lo, hi int64) Val {
		tr := typeRange(w, sg)
		if lo < tr.Lo {
			lo = tr.Lo
		}
		if hi > tr.Hi {
			hi = tr.Hi
		}
		v := x.freshInt(st, w, sg, org)
		for at := range v.L.T {
			st.iv[at] = Interval{lo, hi}
		}
		return v
	}
	switch op {
	case "+":
		if a.HasL && b.HasL {
			// one's-complement fold: (s & 0xffff) + (s >> 16)
			if a.fold != nil && b.fold != nil && a.fold.kind == "and" && b.fold.kind == "shr" && a.fold.k == 0xffff && b.fold.k == 16 &&
				formKey(a.fold.base) == formKey(b.fold.base) {
				br := st.Range(a.fold.base)
				if br.Lo >= 0 && br.Hi < posInf {
					lo, hi := foldRange(br)
					return rng(lo, hi)
				}
			}
			v := mk(a.L.Add(b.L))
			v.Comp = addComp(a, b)
			return v
		}
	case "-":
		if a.HasL && b.HasL {
			return mk(a.L.Sub(b.L))
		}
	case "*":
		if okb && a.HasL {
			return mk(a.L.Scale(cb))
		}
		if oka && b.HasL {
			return mk(b.L.Scale(ca))
		}
		if ra.Lo >= 0 && rb.Lo >= 0 && ra.Hi < 1<<31 && rb.Hi < 1<<31 {
			return rng(ra.Lo*rb.Lo, ra.Hi*rb.Hi)
		}
	case "/":
		if okb && cb > 0 && ra.Lo >= 0 && ra.Hi < posInf {
			return rng(ra.Lo/cb, ra.Hi/cb)
		}
	case "%":
		if okb && cb > 0 && ra.Lo >= 0 {
			return rng(0, min64(cb-1, ra.Hi))
		}
	case "&":
		var v Val
		switch {
		case okb && cb >= 0:
			v = rng(0, min64(cb, max64(ra.Hi, 0)))
			if ra.Lo < 0 {
				v = rng(0, cb)
			}
			if a.HasL {
				v.fold = &foldTag{kind: "and", base: a.L, k: cb}
			}
			v.Comp = maskComp(a.Comp, cb, w)
		case oka && ca >= 0:
			v = rng(0, ca)
			if b.HasL {
				v.fold = &foldTag{kind: "and", base: b.L, k: ca}
			}
			v.Comp = maskComp(b.Comp, ca, w)
		case ra.Lo >= 0 && rb.Lo >= 0:
			v = rng(0, min64(ra.Hi, rb.Hi))
		default:
			v = unknown()
		}
		return v
	case "|", "^":
		if ra.Lo >= 0 && rb.Lo >= 0 && ra.Hi < posInf && rb.Hi < posInf {
			v := rng(0, pow2ceil(max64(ra.Hi, rb.Hi))-1)
			if op == "|" {
				v.Comp = orComp(a, b, w)
				if op == "|" {
					v2 := v
					for at := range v2.L.T {
						iv := st.iv[at]
						iv.Lo = max64(ra.Lo, rb.Lo)
						st.iv[at] = iv
					}
				}
			}
			return v
		}
	case "<<":
		if okb && cb >= 0 && cb < 62 {
			var v Val
			if a.HasL && ra.Lo >= 0 && ra.Hi < (1<<(62-uint(cb))) {
				v = mk(a.L.Scale(1 << uint(cb)))
			} else {
				v = unknown()
			}
			v.Comp = shlComp(a.Comp, cb, w)
			return v
		}
	case ">>":
		if okb && cb >= 0 && cb < 63 && ra.Lo >= 0 && ra.Hi < posInf {
			v := rng(ra.Lo>>uint(cb), ra.Hi>>uint(cb))
			if a.HasL {
				v.fold = &foldTag{kind: "shr", base: a.L, k: cb}
			}
			v.Comp = shrComp(a.Comp, cb, w)
			return v
		}
	}
	return unknown()
}

// foldRange: range of (s & 0xffff) + (s >> 16) for s in br (exact over the first, last and a middle block).
func foldRange(br Interval) (int64, int64) {
	lo, hi := int64(posInf), int64(negInf)
	h0, h1 := br.Lo>>16, br.Hi>>16
	try := func(h int64) {
		if h < h0 || h > h1 {
			return
		}
		sLo, sHi := max64(br.Lo, h<<16), min64(br.Hi, (h<<16)+0xffff)
		if sLo > sHi {
			return
		}
		l, u := sLo-(h<<16)+h, sHi-(h<<16)+h
		if l < lo {
			lo = l
		}
		if u > hi {
			hi = u
		}
	}
	try(h0)
	try(h0 + 1)
	try(h1 - 1)
	try(h1)
	return lo, hi
}

func pow2ceil(v int64) int64 {
	p := int64(1)
	for p <= v {
		p <<= 1
	}
	return p
}

// ---- byte compositions ----

func padComp(c []Byte, w int64) []Byte {
	if c == nil {
		return nil
	}
	out := append([]Byte(nil), c...)
	for int64(len(out)) < w {
		out = append(out, Byte{"", 0})
	}
	return out[:w]
}

func isZeroByte(b Byte) bool { return b.Src == "" && b.Idx == 0 }

func shlComp(c []Byte, k, w int64) []Byte {
	if c == nil || k%8 != 0 {
		return nil
	}
	out := make([]Byte, 0, w)
	for i := int64(0); i < k/8 && int64(len(out)) < w; i++ {
		out = append(out, Byte{"", 0})
	}
	for _, b := range c {
		if int64(len(out)) >= w {
			break
		}
		out = append(out, b)
	}
	return padComp(out, w)
}

func shrComp(c []Byte, k, w int64) []Byte {
	if c == nil || k%8 != 0 {
		return nil
	}
	n := k / 8
	if n >= int64(len(c)) {
		return padComp([]Byte{}, w)
	}
	return padComp(c[n:], w)
}

func maskComp(c []Byte, m, w int64) []Byte {
	if c == nil {
		return nil
	}
	out := padComp(c, w)
	for i := range out {
		bm := (m >> (8 * uint(i))) & 0xff
		switch bm {
		case 0xff:
		case 0:
			out[i] = Byte{"", 0}
		default:
			if !isZeroByte(out[i]) {
				return nil
			}
		}
	}
	return out
}

func orComp(a, b Val, w int64) []Byte {
	ca, cb := padComp(a.Comp, w), padComp(b.Comp, w)
	if ca == nil || cb == nil {
		return nil
	}
	out := make([]Byte, w)
	for i := range out {
		switch {
		case isZeroByte(ca[i]):
			out[i] = cb[i]
		case isZeroByte(cb[i]):
			out[i] = ca[i]
		default:
			return nil
		}
	}
	return out
}

func addComp(a, b Val) []Byte {
	w := a.W
	if b.W > w {
		w = b.W
	}
	return orComp(a, b, w) // disjoint bytes: addition equals or
}

func bswapComp(c []Byte, w int64) []Byte {
	c = padComp(c, w)
	if c == nil {
		return nil
	}
	out := make([]Byte, w)
	for i := range c {
		out[int(w)-1-i] = c[i]
	}
	return out
}

func lookedKeys(st *State) []string {
	var ks []string
	for k := range st.Looked {
		ks = append(ks, k)
	}
	sort.Strings(ks)
	return ks
}
