package cexec

import (
	"fmt"
	"strings"

	"bngvet/internal/cfront"
	"bngvet/internal/lin"
)

func calleeName(e *cfront.Node) (string, *cfront.Node) {
	c := e.Kid(0)
	for c != nil && (c.Kind == "ImplicitCastExpr" || c.Kind == "ParenExpr") {
		c = c.Kid(0)
	}
	if c != nil && c.Kind == "DeclRefExpr" && c.Ref != nil {
		return c.Ref.Name, c
	}
	return "", nil
}

type argRow struct {
	st *State
	vs []Val
}

// evalArgs evaluates call arguments left to right.
func (x *Exec) evalArgs(args []*cfront.Node, st *State) []argRow {
	cur := []argRow{{st, nil}}
	for _, a := range args {
		var nxt []argRow
		for _, c := range cur {
			for _, r := range x.eval(a, c.st) {
				nxt = append(nxt, argRow{r.st, append(append([]Val(nil), c.vs...), r.v)})
			}
		}
		cur = nxt
	}
	return cur
}

func (x *Exec) event(st *State, ev Event) {
	ev.Looked = lookedKeys(st)
	ev.Func = x.stack[len(x.stack)-1]
	ev.Stack = append([]string(nil), x.stack...)
	ev.NAtoms = len(st.Atoms)
	x.Events = append(x.Events, ev)
	if x.Mode == Paths {
		st.Trace = append(st.Trace, ev)
	}
}

func (x *Exec) evalCall(e *cfront.Node, st *State) []res {
	name, _ := calleeName(e)
	args := e.Inner[1:]
	ty := x.typeOf(e)
	w, sg := intInfo(ty)
	if strings.HasPrefix(name, "__sync_fetch_and_") || strings.HasPrefix(name, "__sync_add_and_") || strings.HasPrefix(name, "__sync_sub_and_") {
		name = "__sync_fetch_and_add"
	}
	var out []res
	for _, row := range x.evalArgs(args, st) {
		s, vs := row.st, row.vs
		argOr := func(i int) Val {
			if i < len(vs) {
				return vs[i]
			}
			return Val{K: VUnk}
		}
		mapName := func(v Val) string {
			if v.K == VPtr && v.Reg.Kind == RMapObj {
				return strings.TrimPrefix(v.Reg.Name, "map:")
			}
			return "?"
		}
		keySnap := func(v Val) Event {
			ev := Event{}
			if v.K == VPtr && v.Reg.Kind == RStack {
				cells := x.Cells(s, v.Reg)
				for off, cv := range cells {
					ev.Args = append(ev.Args, Val{K: VInt, HasL: true, L: lin.Const(off), Org: "off"}, cv)
				}
			}
			return ev
		}
		switch name {
		case "bpf_map_lookup_elem":
			m := mapName(argOr(0))
			var size int64 = -1
			if bm := x.TU.Layout.Maps[m]; bm != nil {
				size = bm.ValueSize
			}
			reg := x.mapValRegion([]string{m}, size)
			// a fresh lookup: forget what an earlier lookup of the same map established
			delete(s.nonnull, reg.Name)
			delete(s.isnull, reg.Name)
			x.havocRegion(s, reg)
			ev := keySnap(argOr(1))
			ev.Kind, ev.Node, ev.Map, ev.Ptr = "lookup", e, m, argOr(1)
			x.event(s, ev)
			out = append(out, res{s, Val{K: VPtr, Reg: reg, L: lin.Const(0)}})
		case "bpf_map_update_elem", "bpf_map_delete_elem":
			ev := keySnap(argOr(1))
			ev.Kind, ev.Node, ev.Map, ev.Ptr = strings.TrimSuffix(strings.TrimPrefix(name, "bpf_map_"), "_elem"), e, mapName(argOr(0)), argOr(1)
			x.event(s, ev)
			out = append(out, res{s, x.freshInt(s, w, sg, name)})
		case "bpf_ktime_get_ns":
			out = append(out, res{s, x.freshInt(s, 8, false, "ktime_ns")})
		case "bpf_xdp_adjust_tail", "bpf_xdp_adjust_head", "bpf_skb_change_tail", "bpf_skb_pull_data", "bpf_skb_store_bytes", "bpf_l3_csum_replace", "bpf_l4_csum_replace":
			s.PktGone = true
			s.facts = nil
			x.event(s, Event{Kind: "call", Node: e, Name: name, Args: vs})
			out = append(out, res{s, x.freshInt(s, w, sg, name)})
		case "bpf_ringbuf_reserve":
			size := int64(-1)
			if c, ok := argOr(1).IsConst(); ok {
				size = c
			}
			reg := x.region(RRing, "ring:"+e.ID, size)
			delete(s.nonnull, reg.Name)
			delete(s.isnull, reg.Name)
			x.havocRegion(s, reg)
			out = append(out, res{s, Val{K: VPtr, Reg: reg, L: lin.Const(0)}})
		case "bpf_ringbuf_submit", "bpf_ringbuf_discard", "bpf_perf_event_output", "bpf_trace_printk", "bpf_redirect", "bpf_get_prandom_u32", "bpf_get_smp_processor_id":
			x.event(s, Event{Kind: "call", Node: e, Name: name, Args: vs})
			out = append(out, res{s, x.freshInt(s, w, sg, name)})
		case "__builtin_bswap16", "__builtin_bswap32", "__builtin_bswap64":
			bw := map[string]int64{"__builtin_bswap16": 2, "__builtin_bswap32": 4, "__builtin_bswap64": 8}[name]
			a := argOr(0)
			if c, ok := a.IsConst(); ok {
				var r int64
				for i := int64(0); i < bw; i++ {
					r |= ((c >> (8 * uint(i))) & 0xff) << (8 * uint(bw-1-i))
				}
				out = append(out, res{s, constVal(r, bw, false)})
				continue
			}
			nv := x.freshInt(s, bw, false, "bswap("+a.String()+")")
			nv.Comp = bswapComp(a.Comp, bw)
			out = append(out, res{s, nv})
		case "__sync_fetch_and_add", "__sync_fetch_and_sub", "__sync_add_and_fetch":
			p := argOr(0)
			size := int64(8)
			if pt := x.typeOf(args[0]); pt.Kind == "ptr" {
				size, _ = x.TU.SizeOf(pt.Elem)
			}
			x.checkAccess(s, p, size, e, true)
			if p.K == VPtr {
				if p.Reg.Kind == RPkt {
					s.Writes[e.ID] = e
					x.event(s, Event{Kind: "pktstore", Node: e, Lbl: p.Lbl, Off: p.LblOff, Size: size, Ptr: p})
				} else if p.L.IsConst() {
					delete(s.mem, cellKey(p.Reg, p.L.K, size))
					x.event(s, Event{Kind: "atomicadd", Node: e, Lbl: p.Lbl, Map: strings.Join(p.Reg.Maps, "|"), Ptr: p, Val: argOr(1)})
				}
			}
			out = append(out, res{s, x.freshInt(s, w, sg, name)})
		case "__builtin_memset":
			p := argOr(0)
			n, okn := argOr(2).IsConst()
			c, okc := argOr(1).IsConst()
			if !okn {
				x.problem(e, "memset with a non-constant length")
				n = 1
			}
			x.checkAccess(s, p, n, e, true)
			if p.K == VPtr {
				switch p.Reg.Kind {
				case RPkt:
					s.Writes[e.ID] = e
					x.event(s, Event{Kind: "pktstore", Node: e, Lbl: p.Lbl, Off: p.LblOff, Size: n, Val: constVal(c, 1, false), Ptr: p, Name: "memset"})
				case RStack, RMapVal, RRing:
					if p.L.IsConst() && okc && c == 0 {
						x.zeroRange(s, p.Reg, p.L.K, n)
					} else {
						x.havocRegion(s, p.Reg)
					}
				}
			}
			out = append(out, res{s, p})
		case "__builtin_memcpy", "__builtin_memmove":
			d, sp := argOr(0), argOr(1)
			n, okn := argOr(2).IsConst()
			if !okn {
				x.problem(e, "memcpy with a non-constant length")
				n = 1
			}
			x.checkAccess(s, sp, n, e, false)
			x.checkAccess(s, d, n, e, true)
			if d.K == VPtr {
				if d.Reg.Kind == RPkt {
					s.Writes[e.ID] = e
					x.event(s, Event{Kind: "pktstore", Node: e, Lbl: d.Lbl, Off: d.LblOff, Size: n, Ptr: d, Name: "memcpy"})
				} else {
					x.havocRegion(s, d.Reg)
				}
			}
			out = append(out, res{s, d})
		default:
			fn := x.TU.Funcs[name]
			if fn == nil || x.Opaque[name] {
				if fn == nil && !strings.HasPrefix(name, "__builtin_") {
					x.problem(e, "call to %s: no body and no model", name)
				}
				// opaque helper of the unit: assume it may write through pointer arguments into non-packet memory only
				for _, v := range vs {
					if v.K == VPtr && (v.Reg.Kind == RStack || v.Reg.Kind == RMapVal) {
						x.havocRegion(s, v.Reg)
					}
				}
				x.event(s, Event{Kind: "call", Node: e, Name: name, Args: vs})
				out = append(out, res{s, x.freshInt(s, w, sg, name+"()")})
				continue
			}
			out = append(out, x.inline(fn, vs, s, e)...)
			continue
		}
	}
	return out
}

func (x *Exec) inline(fn *cfront.Node, args []Val, st *State, call *cfront.Node) []res {
	for _, f := range x.stack {
		if f == fn.Name {
			x.problem(call, "recursive call of %s", fn.Name)
			return one(st, Val{K: VUnk})
		}
	}
	if x.depth > 16 {
		x.problem(call, "inlining depth exceeded at %s", fn.Name)
		return one(st, Val{K: VUnk})
	}
	var body *cfront.Node
	i := 0
	for _, c := range fn.Inner {
		switch c.Kind {
		case "ParmVarDecl":
			reg := x.stackRegion(c)
			x.havocRegion(st, reg)
			if i < len(args) {
				t, err := cfront.ParseType(c.Desugared())
				v := args[i]
				if err == nil {
					v = x.castTo(st, v, t)
				}
				sz := reg.Size
				if sz < 0 {
					sz = 8
				}
				x.storeCell(st, reg, 0, sz, v)
			}
			i++
		case "CompoundStmt":
			body = c
		}
	}
	x.depth++
	x.stack = append(x.stack, fn.Name)
	if x.Mode == Paths {
		st.Trace = append(st.Trace, Event{Kind: "enter", Node: call, Name: fn.Name, Args: args})
	}
	savedGotos := x.gotos
	x.gotos = nil
	fl := x.execStmt(body, []*State{st})
	if len(x.gotos) > 0 {
		x.problem(call, "goto in %s to a label that is not ahead in an enclosing block", fn.Name)
	}
	x.gotos = savedGotos
	x.stack = x.stack[:len(x.stack)-1]
	x.depth--
	var out []res
	rt, _ := cfront.ParseType(strings.TrimSpace(strings.SplitN(fn.Type, "(", 2)[0]))
	for _, r := range fl.ret {
		x.Events = append(x.Events, Event{Kind: "fnreturn", Node: r.node, Name: fn.Name, Val: r.v, St: r.st.clone()})
		v := r.v
		if rt != nil {
			v = x.castTo(r.st, v, rt)
		}
		out = append(out, res{r.st, v})
	}
	for _, s := range fl.next {
		out = append(out, res{s, Val{K: VUnk}})
	}
	if x.Mode == Paths {
		return out
	}
	// keep return states with distinct constant values apart: callers branch on them (`if (parse(…) < 0)`),
	// and joining them first would discard the facts established on the success path
	groups := map[string][]res{}
	var order []string
	for _, r := range out {
		k := "?"
		if c, ok := r.v.IsConst(); ok {
			k = fmt.Sprint(c)
		}
		if _, ok := groups[k]; !ok {
			order = append(order, k)
		}
		groups[k] = append(groups[k], r)
	}
	var merged []res
	for _, k := range order {
		merged = append(merged, x.mergeRes(groups[k])...)
	}
	return merged
}
