package cfront

import (
	"fmt"
	"os"
	"path/filepath"
	"regexp"
	"sort"
	"strconv"
	"strings"
)

// Field is one member of a record (members of anonymous struct/union members are flattened into the parent).
type Field struct {
	Path     string
	Name     string
	Off      int64 // byte offset in the record (-1 for bit-fields)
	Size     int64
	Type     string // desugared type
	Bitfield bool
	Decl     *Node
	pix      int
}

// Rec is the clang-computed layout of one record.
type Rec struct {
	Name   string // "struct X" or clang's spelling of an unnamed record
	Size   int64
	Fields []*Field
	ByID   map[string]*Field // FieldDecl id -> field
	ByName map[string]*Field
	Decl   *Node
	Packed bool
	pid    int
}

// BPFMap is one map definition (`struct { __uint(type, …); __type(key, …); … } name SEC(".maps")`).
type BPFMap struct {
	Name      string
	Type      string // HASH, ARRAY, PERCPU_ARRAY, …
	KeyType   string // desugared C type of the key ("" when only key_size is given)
	ValueType string
	KeySize   int64
	ValueSize int64
	Decl      *Node
	typeNum   int
}

// Layout is everything the probe unit yields.
type Layout struct {
	Recs map[string]*Rec // named and unnamed records by clang's desugared spelling
	Maps map[string]*BPFMap
}

var mapTypeNames = []string{"HASH", "ARRAY", "PROG_ARRAY", "PERF_EVENT_ARRAY", "PERCPU_HASH", "PERCPU_ARRAY", "LRU_HASH",
	"LRU_PERCPU_HASH", "LPM_TRIE", "ARRAY_OF_MAPS", "HASH_OF_MAPS", "DEVMAP", "RINGBUF", "QUEUE", "STACK"}

var rePtrArr = regexp.MustCompile(`\(\*\)\[(\d+)\]`)
var reStructName = regexp.MustCompile(`\b(struct|union) ([A-Za-z_][A-Za-z0-9_]*)`)

// recordDeclOfType finds the RecordDecl a desugared record type string refers to.
func (tu *TU) recordDeclOfType(t string, field *Node) *Node {
	t = strings.TrimSpace(t)
	if d, ok := tu.Recs[t]; ok {
		return d
	}
	if !strings.Contains(t, "unnamed") && !strings.Contains(t, "anonymous") {
		return nil
	}
	// `struct {…} name;` / anonymous members: the RecordDecl is the closest preceding sibling of the declarator
	if field == nil || field.Parent == nil {
		return nil
	}
	var last *Node
	for _, sib := range field.Parent.Inner {
		if sib == field {
			return last
		}
		if sib.Kind == "RecordDecl" && sib.Name == "" && sib.Complete {
			last = sib
		}
	}
	return nil
}

// ResolveTypeName strips typeof() and resolves typedef names to their desugared type.
func (tu *TU) ResolveTypeName(t string) string {
	t = strings.TrimSpace(t)
	for strings.HasPrefix(t, "typeof(") && strings.HasSuffix(t, ")") {
		t = strings.TrimSpace(t[len("typeof(") : len(t)-1])
	}
	for i := 0; i < 8; i++ {
		d, ok := tu.Typedefs[t]
		if !ok {
			break
		}
		t = d
	}
	return t
}

func (tu *TU) indexAnon() {
	tu.Typedefs = map[string]string{}
	for _, d := range tu.Root.Inner {
		if d.Kind == "TypedefDecl" {
			tu.Typedefs[d.Name] = d.Desugared()
			typedefs.Store(d.Name, d.Desugared())
		}
	}
	tu.Root.Walk(func(n *Node) bool {
		if n.Kind == "RecordDecl" && n.Name != "" && n.Complete && n.Parent != tu.Root {
			if _, ok := tu.Recs[n.TagUsed+" "+n.Name]; !ok {
				tu.Recs[n.TagUsed+" "+n.Name] = n
			}
		}
		return n.Kind == "TranslationUnitDecl" || n.Kind == "RecordDecl"
	})
}

// usedRecordNames: records mentioned by any type string inside declarations written in the repository.
func (tu *TU) usedRecordNames() map[string]bool {
	used := map[string]bool{}
	for _, d := range tu.Root.Inner {
		if !tu.InRepo(d) {
			continue
		}
		d.Walk(func(n *Node) bool {
			for _, s := range []string{n.Type, n.Desugar, n.ArgType} {
				for _, m := range reStructName.FindAllStringSubmatch(s, -1) {
					used[m[1]+" "+m[2]] = true
				}
			}
			return true
		})
	}
	return used
}

// probe has clang's constant evaluator answer one sizeof/offsetof question per enum constant.
func (tu *TU) probe() error {
	tu.indexAnon()
	lay := &Layout{Recs: map[string]*Rec{}, Maps: map[string]*BPFMap{}}
	tu.Layout = lay
	var q []string
	add := func(name, expr string) { q = append(q, fmt.Sprintf("\t%s = %s,", name, expr)) }
	nrec := 0
	var addRec func(key string, decl *Node, texpr string)
	addRec = func(key string, decl *Node, texpr string) {
		if _, ok := lay.Recs[key]; ok {
			return
		}
		nrec++
		r := &Rec{Name: key, Decl: decl, ByID: map[string]*Field{}, ByName: map[string]*Field{}, Packed: decl.HasAttr("PackedAttr"), pid: nrec}
		lay.Recs[key] = r
		add(fmt.Sprintf("VP_R%d_size", r.pid), "sizeof("+texpr+")")
		var members func(d *Node)
		members = func(d *Node) {
			for _, f := range d.Inner {
				if f.Kind != "FieldDecl" {
					continue
				}
				if f.Name == "" {
					if f.IsBitfield {
						continue // unnamed bit-field padding
					}
					if sub := tu.recordDeclOfType(f.Desugared(), f); sub != nil {
						members(sub)
					}
					continue
				}
				fl := &Field{Path: f.Name, Name: f.Name, Type: f.Desugared(), Bitfield: f.IsBitfield, Decl: f, Off: -1, pix: len(r.Fields) + 1}
				r.Fields = append(r.Fields, fl)
				r.ByID[f.ID] = fl
				r.ByName[f.Name] = fl
				ft, err := ParseType(fl.Type)
				if !f.IsBitfield {
					add(fmt.Sprintf("VP_R%d_F%d_off", r.pid, fl.pix), fmt.Sprintf("__builtin_offsetof(%s, %s)", texpr, fl.Path))
					if err == nil && ft.Kind == "array" && ft.Len < 0 {
						fl.Size = 0
						fl.pix = -fl.pix // no size question
					} else {
						add(fmt.Sprintf("VP_R%d_F%d_size", r.pid, fl.pix), fmt.Sprintf("sizeof(((%s *)0)->%s)", texpr, fl.Path))
					}
				}
				if err == nil {
					el, arr := ft, false
					for el.Kind == "array" {
						el, arr = el.Elem, true
					}
					if el.Kind == "record" {
						if sub := tu.recordDeclOfType(el.Rec, f); sub != nil && sub.Complete {
							ex := fmt.Sprintf("__typeof__(((%s *)0)->%s)", texpr, fl.Path)
							if arr {
								ex = fmt.Sprintf("__typeof__(((%s *)0)->%s[0])", texpr, fl.Path)
							}
							addRec(el.Rec, sub, ex)
						}
					}
				}
			}
		}
		members(decl)
	}
	names := make([]string, 0, len(tu.Recs))
	for k := range tu.Recs {
		names = append(names, k)
	}
	sort.Strings(names)
	used := tu.usedRecordNames()
	for _, k := range names {
		if used[k] && tu.Recs[k].Parent == tu.Root {
			addRec(k, tu.Recs[k], k)
		}
	}

	var mapNames []string
	for name := range tu.Vars {
		mapNames = append(mapNames, name)
	}
	sort.Strings(mapNames)
	for _, name := range mapNames {
		v := tu.Vars[name]
		if !v.HasAttr("SectionAttr") || !tu.InRepo(v) {
			continue
		}
		rd := tu.recordDeclOfType(v.Desugared(), v)
		if rd == nil {
			continue
		}
		isMap := false
		for _, f := range rd.Inner {
			if f.Kind == "FieldDecl" && f.Name == "type" && rePtrArr.MatchString(f.Desugared()) {
				isMap = true
			}
		}
		if !isMap {
			continue
		}
		m := &BPFMap{Name: name, Decl: v, KeySize: -1, ValueSize: -1}
		lay.Maps[name] = m
		for _, f := range rd.Inner {
			if f.Kind != "FieldDecl" {
				continue
			}
			t := f.Desugared()
			switch f.Name {
			case "type":
				m.typeNum, _ = strconv.Atoi(rePtrArr.FindStringSubmatch(t)[1])
			case "key", "value":
				pt, err := ParseType(t)
				if err != nil || pt.Kind != "ptr" {
					return fmt.Errorf("cfront: map %s: unexpected %s type %q", name, f.Name, t)
				}
				ts := strings.TrimSpace(strings.TrimSuffix(strings.TrimSpace(t), "*"))
				if f.Name == "key" {
					m.KeyType = tu.ResolveTypeName(ts)
				} else {
					m.ValueType = tu.ResolveTypeName(ts)
				}
				add(fmt.Sprintf("VP_M_%s_%s", name, f.Name), fmt.Sprintf("sizeof(*%s.%s)", name, f.Name))
			case "key_size", "value_size":
				mm := rePtrArr.FindStringSubmatch(t)
				if mm == nil {
					return fmt.Errorf("cfront: map %s: unexpected %s type %q", name, f.Name, t)
				}
				n, _ := strconv.ParseInt(mm[1], 10, 64)
				if f.Name == "key_size" {
					m.KeySize = n
				} else {
					m.ValueSize = n
				}
			}
		}
	}
	for _, mt := range mapTypeNames {
		add("VP_T_"+mt, "BPF_MAP_TYPE_"+mt)
	}

	dir, err := os.MkdirTemp("", "bngvet-probe")
	if err != nil {
		return err
	}
	defer os.RemoveAll(dir)
	src := fmt.Sprintf("#include %q\nenum vp_probe {\n%s\n};\n", tu.Path, strings.Join(q, "\n"))
	pf := filepath.Join(dir, "probe.c")
	if err := os.WriteFile(pf, []byte(src), 0o644); err != nil {
		return err
	}
	raw, err := runClang(append(clangArgs(tu.Repo), "-Xclang", "-ast-dump=json", pf))
	if err != nil {
		return err
	}
	ptu := &TU{ByID: map[string]*Node{}, Funcs: map[string]*Node{}, Vars: map[string]*Node{}, Recs: map[string]*Node{}, Repo: tu.Repo}
	if err := ptu.build(raw); err != nil {
		return err
	}
	vals := map[string]int64{}
	for _, d := range ptu.Root.Inner {
		if d.Kind != "EnumDecl" || d.Name != "vp_probe" {
			continue
		}
		for _, ec := range d.Inner {
			if ec.Kind != "EnumConstantDecl" {
				continue
			}
			ec.Walk(func(c *Node) bool {
				if c.Kind == "ConstantExpr" && c.Value != "" {
					v, _ := strconv.ParseInt(c.Value, 10, 64)
					vals[ec.Name] = v
					return false
				}
				return true
			})
		}
	}
	get := func(k string) (int64, error) {
		v, ok := vals[k]
		if !ok {
			return 0, fmt.Errorf("cfront: probe constant %s was not evaluated by clang", k)
		}
		return v, nil
	}
	for _, r := range lay.Recs {
		if r.Size, err = get(fmt.Sprintf("VP_R%d_size", r.pid)); err != nil {
			return err
		}
		for _, f := range r.Fields {
			if f.Bitfield {
				continue
			}
			ix := f.pix
			if ix < 0 {
				ix = -ix
			}
			if f.Off, err = get(fmt.Sprintf("VP_R%d_F%d_off", r.pid, ix)); err != nil {
				return err
			}
			if f.pix > 0 {
				if f.Size, err = get(fmt.Sprintf("VP_R%d_F%d_size", r.pid, ix)); err != nil {
					return err
				}
			}
		}
	}
	tnum := map[int]string{}
	for _, mt := range mapTypeNames {
		if v, ok := vals["VP_T_"+mt]; ok {
			tnum[int(v)] = mt
		}
	}
	for _, m := range lay.Maps {
		m.Type = tnum[m.typeNum]
		if m.Type == "" {
			m.Type = fmt.Sprintf("#%d", m.typeNum)
		}
		if m.KeyType != "" {
			if m.KeySize, err = get("VP_M_" + m.Name + "_key"); err != nil {
				return err
			}
		}
		if m.ValueType != "" {
			if m.ValueSize, err = get("VP_M_" + m.Name + "_value"); err != nil {
				return err
			}
		}
	}
	return nil
}

// FieldByMember resolves a MemberExpr's referencedMemberDecl inside the record type of its base.
func (tu *TU) FieldByMember(recType string, memberID, name string) (*Field, *Rec) {
	recType = strings.TrimSpace(recType)
	r := tu.Layout.Recs[recType]
	if r == nil {
		return nil, nil
	}
	if f, ok := r.ByID[memberID]; ok {
		return f, r
	}
	if f, ok := r.ByName[name]; ok {
		return f, r
	}
	return nil, r
}

// Macros returns the object-like macros of the unit whose replacement is a single integer literal
// (clang -dM -E), by name.
func (tu *TU) Macros() (map[string]int64, error) {
	raw, err := runClang(append(clangArgs(tu.Repo)[:len(clangArgs(tu.Repo))-1], "-dM", "-E", tu.Path))
	if err != nil {
		return nil, err
	}
	out := map[string]int64{}
	for _, line := range strings.Split(string(raw), "\n") {
		f := strings.Fields(line)
		if len(f) != 3 || f[0] != "#define" || strings.Contains(f[1], "(") {
			continue
		}
		v := strings.Trim(f[2], "()")
		v = strings.TrimRight(v, "uUlL")
		n, err := strconv.ParseInt(v, 0, 64)
		if err != nil {
			if u, err2 := strconv.ParseUint(v, 0, 64); err2 == nil {
				n = int64(u)
			} else {
				continue
			}
		}
		out[f[1]] = n
	}
	return out, nil
}

// EnumConsts returns the enumerators declared in repository files with their values.
func (tu *TU) EnumConsts() map[string]int64 {
	out := map[string]int64{}
	for _, d := range tu.Root.Inner {
		if d.Kind != "EnumDecl" || !tu.InRepo(d) {
			continue
		}
		prev := int64(-1)
		for _, c := range d.Inner {
			if c.Kind != "EnumConstantDecl" {
				continue
			}
			v := prev + 1
			c.Walk(func(n *Node) bool {
				if n.Kind == "ConstantExpr" && n.Value != "" {
					v, _ = strconv.ParseInt(n.Value, 10, 64)
					return false
				}
				return true
			})
			out[c.Name] = v
			prev = v
		}
	}
	return out
}
