package cfront

import "strings"

// Render prints an expression in source-like form (used for position-free obligation keys and reports).
func Render(n *Node) string {
	if n == nil {
		return ""
	}
	switch n.Kind {
	case "ParenExpr":
		return "(" + Render(n.Kid(0)) + ")"
	case "ImplicitCastExpr", "ConstantExpr":
		return Render(n.Kid(0))
	case "CStyleCastExpr":
		return "(" + n.Type + ")" + Render(n.Kid(0))
	case "DeclRefExpr":
		if n.Ref != nil {
			return n.Ref.Name
		}
	case "IntegerLiteral", "CharacterLiteral":
		return n.Value
	case "MemberExpr":
		if n.Name == "" {
			return Render(n.Kid(0))
		}
		op := "."
		if n.IsArrow {
			op = "->"
		}
		// members reached through anonymous members keep the arrow of the innermost named base
		b := n.Kid(0)
		for b != nil && b.Kind == "MemberExpr" && b.Name == "" {
			if b.IsArrow {
				op = "->"
			} else {
				op = "."
			}
			b = b.Kid(0)
		}
		return Render(b) + op + n.Name
	case "ArraySubscriptExpr":
		return Render(n.Kid(0)) + "[" + Render(n.Kid(1)) + "]"
	case "UnaryOperator":
		if n.IsPostfix {
			return Render(n.Kid(0)) + n.Opcode
		}
		return n.Opcode + Render(n.Kid(0))
	case "BinaryOperator", "CompoundAssignOperator":
		return Render(n.Kid(0)) + " " + n.Opcode + " " + Render(n.Kid(1))
	case "ConditionalOperator":
		return Render(n.Kid(0)) + " ? " + Render(n.Kid(1)) + " : " + Render(n.Kid(2))
	case "CallExpr":
		var a []string
		for _, c := range n.Inner[1:] {
			a = append(a, Render(c))
		}
		return Render(n.Kid(0)) + "(" + strings.Join(a, ", ") + ")"
	case "UnaryExprOrTypeTraitExpr":
		if n.ArgType != "" {
			return "sizeof(" + n.ArgType + ")"
		}
		return "sizeof(" + Render(n.Kid(0)) + ")"
	case "ReturnStmt":
		return "return " + Render(n.Kid(0))
	}
	return n.Kind
}
