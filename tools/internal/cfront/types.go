package cfront

import (
	"fmt"
	"regexp"
	"strconv"
	"strings"
	"sync"
)

// CType is a parsed C type (from clang's desugared type strings).
type CType struct {
	Kind   string // int, ptr, array, record, void, func, enum
	Size   int64  // bytes (int, ptr, enum); records via Layout
	Signed bool
	Elem   *CType // ptr / array
	Len    int64  // array length (-1 = flexible / unknown)
	Rec    string // "struct X" / "union X" / "struct (unnamed ...)"
}

var scalar = map[string]struct {
	sz int64
	sg bool
}{
	"char": {1, true}, "signed char": {1, true}, "unsigned char": {1, false}, "_Bool": {1, false},
	"short": {2, true}, "unsigned short": {2, false}, "int": {4, true}, "unsigned int": {4, false}, "unsigned": {4, false},
	"long": {8, true}, "unsigned long": {8, false}, "long long": {8, true}, "unsigned long long": {8, false},
	"__int128": {16, true}, "unsigned __int128": {16, false},
}

var reArr = regexp.MustCompile(`^(.*?)\s*\[(\d*)\]((?:\[\d*\])*)$`)

// ParseType parses a desugared clang type string.
func ParseType(s string) (*CType, error) {
	s = strings.TrimSpace(s)
	for _, q := range []string{"const ", "volatile ", "restrict "} {
		for strings.HasPrefix(s, q) {
			s = strings.TrimPrefix(s, q)
		}
	}
	for _, q := range []string{" const", " volatile", " restrict", "const", "volatile"} {
		for strings.HasSuffix(s, q) && len(s) > len(q) {
			s = strings.TrimSpace(strings.TrimSuffix(s, q))
		}
	}
	if s == "void" {
		return &CType{Kind: "void", Size: 1}, nil
	}
	if strings.Contains(s, "(*)") || (strings.HasSuffix(s, ")") && strings.Contains(s, "(") && !strings.Contains(s, "unnamed") && !strings.Contains(s, "anonymous")) {
		if strings.Contains(s, "(*)") {
			// pointer to array / function
			i := strings.Index(s, "(*)")
			rest := s[i+3:]
			if strings.HasPrefix(rest, "[") {
				el, err := ParseType(s[:i] + rest)
				if err != nil {
					return nil, err
				}
				return &CType{Kind: "ptr", Size: 8, Elem: el}, nil
			}
			return &CType{Kind: "ptr", Size: 8, Elem: &CType{Kind: "func"}}, nil
		}
		return &CType{Kind: "func"}, nil
	}
	if strings.HasSuffix(s, "*") {
		el, err := ParseType(strings.TrimSuffix(s, "*"))
		if err != nil {
			return nil, err
		}
		return &CType{Kind: "ptr", Size: 8, Elem: el}, nil
	}
	if m := reArr.FindStringSubmatch(s); m != nil && !strings.Contains(m[1], "unnamed at") || m != nil && strings.HasSuffix(m[1], ")") {
		el, err := ParseType(m[1] + m[3])
		if err != nil {
			return nil, err
		}
		n := int64(-1)
		if m[2] != "" {
			n, _ = strconv.ParseInt(m[2], 10, 64)
		}
		return &CType{Kind: "array", Elem: el, Len: n}, nil
	}
	if sc, ok := scalar[s]; ok {
		return &CType{Kind: "int", Size: sc.sz, Signed: sc.sg}, nil
	}
	if strings.HasPrefix(s, "struct ") || strings.HasPrefix(s, "union ") {
		return &CType{Kind: "record", Rec: s}, nil
	}
	if strings.HasPrefix(s, "enum ") {
		return &CType{Kind: "enum", Size: 4, Signed: false}, nil
	}
	if d, ok := typedefs.Load(s); ok && d.(string) != s {
		return ParseType(d.(string))
	}
	return nil, fmt.Errorf("cfront: unparsed C type %q", s)
}

// typedefs collects typedef names of every parsed unit (they all come from the same kernel headers).
var typedefs sync.Map

// SizeOf returns the byte size of a type under the probed layouts.
func (tu *TU) SizeOf(t *CType) (int64, error) {
	switch t.Kind {
	case "int", "ptr", "enum":
		return t.Size, nil
	case "void", "func":
		return 1, nil // GNU void*/function pointer arithmetic
	case "array":
		if t.Len < 0 {
			return 0, nil
		}
		e, err := tu.SizeOf(t.Elem)
		return e * t.Len, err
	case "record":
		if r, ok := tu.Layout.Recs[t.Rec]; ok {
			return r.Size, nil
		}
		return 0, fmt.Errorf("cfront: no layout for %s", t.Rec)
	}
	return 0, fmt.Errorf("cfront: size of %v", t.Kind)
}

// SizeOfStr is SizeOf(ParseType(s)).
func (tu *TU) SizeOfStr(s string) (int64, error) {
	t, err := ParseType(s)
	if err != nil {
		return 0, err
	}
	return tu.SizeOf(t)
}
