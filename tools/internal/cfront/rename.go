package cfront

import (
	"bufio"
	"fmt"
	"os"
	"sort"
	"strings"
)

// BaselineCFuncs is the path of the list of C functions of the pinned tree ("bpf/x.c|name|type" per line).  The
// kernel-side rules name a few static helpers (for opacity, provenance of a value, what a rule is about); a helper
// that was merely renamed gets its baseline name back in the parsed tree: a baseline function that is gone while
// exactly one new function of the unit has the same type — and no other baseline function of that type is missing —
// is that function.  Entry points (SEC-annotated) are never renamed back: their names are the loader's interface.
var BaselineCFuncs string

// FuncLines lists the unit's functions in baseline format.
func (tu *TU) FuncLines() []string {
	var out []string
	for name, d := range tu.Funcs {
		if tu.InRepo(d) {
			out = append(out, tu.Rel+"|"+name+"|"+d.Type)
		}
	}
	sort.Strings(out)
	return out
}

func (tu *TU) undoRenames() {
	if BaselineCFuncs == "" {
		return
	}
	f, err := os.Open(BaselineCFuncs)
	if err != nil {
		return
	}
	defer f.Close()
	base := map[string]string{}
	sc := bufio.NewScanner(f)
	for sc.Scan() {
		p := strings.SplitN(strings.TrimSpace(sc.Text()), "|", 3)
		if len(p) == 3 && p[0] == tu.Rel {
			base[p[1]] = p[2]
		}
	}
	if len(base) == 0 {
		return
	}
	var missing, added []string
	for n := range base {
		if _, ok := tu.Funcs[n]; !ok {
			missing = append(missing, n)
		}
	}
	for n, d := range tu.Funcs {
		if _, ok := base[n]; !ok && tu.InRepo(d) && !d.HasAttr("SectionAttr") {
			added = append(added, n)
		}
	}
	sort.Strings(missing)
	sort.Strings(added)
	for _, m := range missing {
		var cands []string
		for _, a := range added {
			if tu.Funcs[a] != nil && tu.Funcs[a].Type == base[m] {
				cands = append(cands, a)
			}
		}
		nm := 0
		for _, m2 := range missing {
			if base[m2] == base[m] {
				nm++
			}
		}
		if len(cands) != 1 || nm != 1 {
			continue
		}
		d := tu.Funcs[cands[0]]
		old := d.Name
		delete(tu.Funcs, old)
		d.Name = m
		tu.Funcs[m] = d
		tu.Root.Walk(func(n *Node) bool {
			if n.Ref != nil && n.Ref.Kind == "FunctionDecl" && n.Ref.Name == old {
				n.Ref.Name = m
			}
			if n.Kind == "FunctionDecl" && n.Name == old { // earlier prototypes
				n.Name = m
			}
			return true
		})
		tu.RenameLog = append(tu.RenameLog, fmt.Sprintf("%s: function %s is treated as the renamed %s (same type, the only candidate)", tu.Rel, old, m))
	}
}
