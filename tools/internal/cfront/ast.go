// Package cfront is the C front end of the checker: it runs clang (syntax only) on one bpf/*.c
// translation unit with the shim headers in /verif/tools/cshim and turns clang's JSON AST into a
// small typed tree.  Nothing is compiled to BPF and nothing is executed.
package cfront

import (
	"bytes"
	"encoding/json"
	"fmt"
	"os"
	"os/exec"
	"path/filepath"
	"strconv"
	"strings"
)

// Node is one clang AST node (declaration, statement or expression).
type Node struct {
	ID      string
	Kind    string
	Name    string
	Type    string // qualType as written
	Desugar string // desugaredQualType ("" when equal to Type)
	Inner   []*Node
	Parent  *Node

	Opcode     string
	Value      string // literals, ConstantExpr
	CastKind   string
	IsArrow    bool
	IsPostfix  bool
	IsBitfield bool
	HasElse    bool
	HasInit    bool
	Implicit   bool
	Complete   bool   // RecordDecl completeDefinition
	TagUsed    string // struct / union
	Storage    string
	ArgType    string // sizeof(type)
	Ref        *Node  // referencedDecl (shallow: ID, Kind, Name, Type)
	RefMember  string // referencedMemberDecl id
	DeclID     string // LabelStmt: id of its LabelDecl
	TargetID   string // GotoStmt: id of the target LabelDecl
	File       string
	Line       int
	Col        int
	MacroLine  int // expansion line when the node comes from a macro
}

// TU is one parsed translation unit.
type TU struct {
	Path      string // absolute path of the .c file
	Rel       string // path relative to the repository (bpf/x.c)
	Repo      string
	Root      *Node
	ByID      map[string]*Node
	Funcs     map[string]*Node // FunctionDecl with a body, by name
	Vars      map[string]*Node // file-scope VarDecl by name
	Recs      map[string]*Node // complete named RecordDecl by "struct X"/"union X"
	Layout    *Layout
	Typedefs  map[string]string
	RenameLog []string // baseline names restored (rename.go)
}

// Desugared returns the canonical type string.
func (n *Node) Desugared() string {
	if n.Desugar != "" {
		return n.Desugar
	}
	return n.Type
}

func (n *Node) Pos() string {
	f := n.File
	if i := strings.Index(f, "/bpf/"); i >= 0 {
		f = f[i+1:]
	}
	l := n.Line
	if n.MacroLine != 0 {
		l = n.MacroLine
	}
	return fmt.Sprintf("%s:%d", f, l)
}

// Kid returns the i-th child or nil.
func (n *Node) Kid(i int) *Node {
	if n == nil || i >= len(n.Inner) {
		return nil
	}
	return n.Inner[i]
}

// Walk visits n and its descendants in source order; f returns false to skip the subtree.
func (n *Node) Walk(f func(*Node) bool) {
	if n == nil || !f(n) {
		return
	}
	for _, c := range n.Inner {
		c.Walk(f)
	}
}

// HasAttr reports whether a declaration carries the given attribute kind.
func (n *Node) HasAttr(kind string) bool {
	for _, c := range n.Inner {
		if c.Kind == kind {
			return true
		}
	}
	return false
}

func clangArgs(repo string) []string {
	shim := os.Getenv("BNGVET_CSHIM")
	if shim == "" {
		exe, _ := os.Executable()
		shim = filepath.Join(filepath.Dir(filepath.Dir(exe)), "tools", "cshim")
	}
	return []string{"-target", "bpf", "-D__TARGET_ARCH_x86", "-D__x86_64__", "-I/usr/include/x86_64-linux-gnu",
		"-I" + shim, "-I" + filepath.Join(repo, "bpf"), "-Wno-everything", "-fsyntax-only"}
}

type locState struct {
	file string
	line int
}

// Parse runs clang on repo/rel and builds the tree.
func Parse(repo, rel string) (*TU, error) {
	path := filepath.Join(repo, rel)
	args := append(clangArgs(repo), "-Xclang", "-ast-dump=json", path)
	raw, err := runClang(args)
	if err != nil {
		return nil, err
	}
	tu := &TU{Path: path, Rel: rel, Repo: repo, ByID: map[string]*Node{}, Funcs: map[string]*Node{}, Vars: map[string]*Node{}, Recs: map[string]*Node{}}
	if err := tu.build(raw); err != nil {
		return nil, err
	}
	tu.undoRenames()
	if err := tu.probe(); err != nil {
		return nil, err
	}
	return tu, nil
}

func runClang(args []string) ([]byte, error) {
	cmd := exec.Command("clang", args...)
	var out, errb bytes.Buffer
	cmd.Stdout, cmd.Stderr = &out, &errb
	if err := cmd.Run(); err != nil {
		return nil, fmt.Errorf("clang %s: %v\n%s", strings.Join(args, " "), err, errb.String())
	}
	return out.Bytes(), nil
}

func (tu *TU) build(raw []byte) error {
	dec := json.NewDecoder(bytes.NewReader(raw))
	dec.UseNumber()
	var top map[string]any
	if err := dec.Decode(&top); err != nil {
		return fmt.Errorf("decoding clang JSON: %v", err)
	}
	ls := &locState{}
	tu.Root = tu.conv(top, nil, ls)
	for _, d := range tu.Root.Inner {
		switch d.Kind {
		case "FunctionDecl":
			for _, c := range d.Inner {
				if c.Kind == "CompoundStmt" {
					tu.Funcs[d.Name] = d
				}
			}
		case "VarDecl":
			tu.Vars[d.Name] = d
		case "RecordDecl":
			if d.Name != "" && d.Complete {
				tu.Recs[d.TagUsed+" "+d.Name] = d
			}
		}
	}
	return nil
}

func str(m map[string]any, k string) string {
	if v, ok := m[k]; ok {
		switch x := v.(type) {
		case string:
			return x
		case json.Number:
			return x.String()
		case bool:
			return strconv.FormatBool(x)
		}
	}
	return ""
}

func (tu *TU) applyLoc(m map[string]any, ls *locState, n *Node, set bool) {
	if m == nil {
		return
	}
	// macro locations carry spellingLoc/expansionLoc; both update clang's "last printed" state in that order
	if sp, ok := m["spellingLoc"].(map[string]any); ok {
		tu.applyLoc(sp, ls, nil, false)
		if ex, ok := m["expansionLoc"].(map[string]any); ok {
			tu.applyLoc(ex, ls, nil, false)
			if set && n != nil {
				n.File, n.Line = ls.file, ls.line
				n.MacroLine = ls.line
			}
		}
		return
	}
	if f := str(m, "file"); f != "" {
		ls.file = f
	}
	if l := str(m, "line"); l != "" {
		ls.line, _ = strconv.Atoi(l)
	}
	if set && n != nil && len(m) > 0 {
		n.File, n.Line = ls.file, ls.line
		n.Col, _ = strconv.Atoi(str(m, "col"))
	}
}

func (tu *TU) conv(m map[string]any, parent *Node, ls *locState) *Node {
	n := &Node{ID: str(m, "id"), Kind: str(m, "kind"), Name: str(m, "name"), Parent: parent,
		Opcode: str(m, "opcode"), Value: str(m, "value"), CastKind: str(m, "castKind"), TagUsed: str(m, "tagUsed"),
		Storage: str(m, "storageClass"), RefMember: str(m, "referencedMemberDecl"), DeclID: str(m, "declId"), TargetID: str(m, "targetLabelDeclId")}
	if t, ok := m["type"].(map[string]any); ok {
		n.Type, n.Desugar = str(t, "qualType"), str(t, "desugaredQualType")
	}
	if t, ok := m["argType"].(map[string]any); ok {
		n.ArgType = str(t, "desugaredQualType")
		if n.ArgType == "" {
			n.ArgType = str(t, "qualType")
		}
	}
	n.IsArrow = m["isArrow"] == true
	n.IsPostfix = m["isPostfix"] == true
	n.IsBitfield = m["isBitfield"] == true
	n.HasElse = m["hasElse"] == true
	n.Implicit = m["isImplicit"] == true
	n.Complete = m["completeDefinition"] == true
	_, n.HasInit = m["init"]
	if r, ok := m["referencedDecl"].(map[string]any); ok {
		rn := &Node{ID: str(r, "id"), Kind: str(r, "kind"), Name: str(r, "name")}
		if t, ok := r["type"].(map[string]any); ok {
			rn.Type, rn.Desugar = str(t, "qualType"), str(t, "desugaredQualType")
		}
		n.Ref = rn
	}
	// clang prints loc, then range.begin, range.end, each relative to the previously printed location
	if loc, ok := m["loc"].(map[string]any); ok {
		tu.applyLoc(loc, ls, n, true)
	}
	if rg, ok := m["range"].(map[string]any); ok {
		b, _ := rg["begin"].(map[string]any)
		tu.applyLoc(b, ls, n, n.File == "")
		if n.File == "" {
			n.File, n.Line = ls.file, ls.line
		}
		e, _ := rg["end"].(map[string]any)
		tu.applyLoc(e, ls, nil, false)
	}
	if n.ID != "" {
		tu.ByID[n.ID] = n
	}
	if in, ok := m["inner"].([]any); ok {
		for _, c := range in {
			cm, _ := c.(map[string]any)
			if cm == nil || len(cm) == 0 {
				n.Inner = append(n.Inner, &Node{Kind: "<null>", Parent: n})
				continue
			}
			n.Inner = append(n.Inner, tu.conv(cm, n, ls))
		}
	}
	return n
}

// InRepo reports whether the node was written in a file of the repository's bpf directory.
func (tu *TU) InRepo(n *Node) bool {
	return strings.HasPrefix(n.File, filepath.Join(tu.Repo, "bpf")+"/")
}

// Section returns the ELF section a declaration is placed in via SEC(), or "".
func (tu *TU) Section(n *Node) string {
	for _, c := range n.Inner {
		if c.Kind == "SectionAttr" {
			return "sec"
		}
	}
	return ""
}
