/* Minimal stand-in for libbpf's <bpf/bpf_helpers.h> (libbpf is not installed in this sandbox).
 * Only what the bpf C sources of codelaboratoryltd/bng uses; helpers are plain prototypes so that the
 * analyser sees ordinary CallExpr nodes.  Used for parsing only (-fsyntax-only). */
#ifndef __VERIF_BPF_HELPERS_H
#define __VERIF_BPF_HELPERS_H
#include <linux/types.h>
#ifndef NULL
#define NULL ((void *)0)
#endif
#undef __always_inline
#define __always_inline inline __attribute__((always_inline))
#define SEC(name) __attribute__((section(name), used))
#define __uint(name, val) int (*name)[val]
#define __type(name, val) typeof(val) *name
#define __array(name, val) typeof(val) *name[]
void *bpf_map_lookup_elem(void *map, const void *key);
long bpf_map_update_elem(void *map, const void *key, const void *value, __u64 flags);
long bpf_map_delete_elem(void *map, const void *key);
__u64 bpf_ktime_get_ns(void);
long bpf_xdp_adjust_tail(void *xdp_md, int delta);
long bpf_xdp_adjust_head(void *xdp_md, int delta);
long bpf_perf_event_output(void *ctx, void *map, __u64 flags, void *data, __u64 size);
void *bpf_ringbuf_reserve(void *ringbuf, __u64 size, __u64 flags);
void bpf_ringbuf_submit(void *data, __u64 flags);
void bpf_ringbuf_discard(void *data, __u64 flags);
long bpf_redirect(__u32 ifindex, __u64 flags);
long bpf_trace_printk(const char *fmt, __u32 fmt_size, ...);
__u32 bpf_get_prandom_u32(void);
__u32 bpf_get_smp_processor_id(void);
long bpf_skb_store_bytes(void *skb, __u32 offset, const void *from, __u32 len, __u64 flags);
long bpf_skb_load_bytes(const void *skb, __u32 offset, void *to, __u32 len);
long bpf_l3_csum_replace(void *skb, __u32 offset, __u64 from, __u64 to, __u64 size);
long bpf_l4_csum_replace(void *skb, __u32 offset, __u64 from, __u64 to, __u64 flags);
long bpf_csum_diff(__be32 *from, __u32 from_size, __be32 *to, __u32 to_size, __wsum seed);
#endif
