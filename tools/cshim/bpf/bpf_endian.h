/* Stand-in for libbpf's <bpf/bpf_endian.h>: the BPF target here is little-endian (x86 hosts),
 * so network<->host conversions are byte swaps.  Written as builtin calls so that the analyser
 * sees one CallExpr per conversion. */
#ifndef __VERIF_BPF_ENDIAN_H
#define __VERIF_BPF_ENDIAN_H
#define bpf_htons(x) __builtin_bswap16(x)
#define bpf_ntohs(x) __builtin_bswap16(x)
#define bpf_htonl(x) __builtin_bswap32(x)
#define bpf_ntohl(x) __builtin_bswap32(x)
#define bpf_cpu_to_be64(x) __builtin_bswap64(x)
#define bpf_be64_to_cpu(x) __builtin_bswap64(x)
#endif
