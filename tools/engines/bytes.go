package engines

import (
	"fmt"
	"go/constant"
	"go/token"
	"go/types"

	"bngvet/internal/flow"

	"golang.org/x/tools/go/ssa"
)

// byteDesc describes, position-free, where a []byte value comes from.
type byteDesc struct {
	Kind   string    // seg | zeros | field | val | const
	Base   ssa.Value // seg: sliced value; val: the value
	Lo, Hi int64     // seg bounds (-1 = open / non-constant)
	N      int64     // zeros length
	Field  string    // field: T.f converted from string
}

func (d byteDesc) String() string {
	switch d.Kind {
	case "seg":
		lo, hi := "", ""
		if d.Lo >= 0 {
			lo = fmt.Sprint(d.Lo)
		}
		if d.Hi >= 0 {
			hi = fmt.Sprint(d.Hi)
		}
		return fmt.Sprintf("%s[%s:%s]", valName(d.Base), lo, hi)
	case "zeros":
		return fmt.Sprintf("zeros(%d)", d.N)
	case "field":
		return "[]byte(" + d.Field + ")"
	case "const":
		return "const"
	}
	return valName(d.Base)
}

func valName(v ssa.Value) string {
	if v == nil {
		return "?"
	}
	if p, ok := v.(*ssa.Parameter); ok {
		return p.Name()
	}
	if s := flow.FieldOwner(v); s != "" {
		return s
	}
	return v.Name()
}

func constInt(v ssa.Value) (int64, bool) {
	c, ok := v.(*ssa.Const)
	if !ok || c.Value == nil || c.Value.Kind() != constant.Int {
		return 0, false
	}
	return c.Int64(), true
}

// describeBytes classifies a []byte-typed argument.
func describeBytes(v ssa.Value) byteDesc {
	switch x := v.(type) {
	case *ssa.Slice:
		// make([]byte, N) with constant N is lowered to new [N]byte + slice: zero bytes when nothing writes the array
		if al, ok := x.X.(*ssa.Alloc); ok && x.Low == nil {
			if arr, ok := al.Type().(*types.Pointer).Elem().Underlying().(*types.Array); ok {
				if hi, okh := constInt(x.High); (x.High == nil || (okh && hi == arr.Len())) && onlyUse(al, x) && !sliceWritten(x) {
					return byteDesc{Kind: "zeros", N: arr.Len()}
				}
			}
		}
		d := byteDesc{Kind: "seg", Base: x.X, Lo: -1, Hi: -1}
		if x.Low == nil {
			d.Lo = 0
		} else if k, ok := constInt(x.Low); ok {
			d.Lo = k
		} else {
			d.Lo = -2
		}
		if x.High != nil {
			if k, ok := constInt(x.High); ok {
				d.Hi = k
			} else {
				d.Hi = -2
			}
		}
		return d
	case *ssa.MakeSlice:
		if n, ok := constInt(x.Len); ok && !hasElementStores(x) {
			return byteDesc{Kind: "zeros", N: n}
		}
	case *ssa.Convert:
		if b, ok := x.X.Type().Underlying().(*types.Basic); ok && b.Info()&types.IsString != 0 {
			if f := flow.FieldOwner(x.X); f != "" {
				return byteDesc{Kind: "field", Field: f}
			}
		}
	case *ssa.ChangeType:
		return describeBytes(x.X)
	}
	return byteDesc{Kind: "val", Base: v}
}

// hasElementStores: is any element of the freshly made slice written (directly) in this function?
func hasElementStores(m *ssa.MakeSlice) bool {
	for _, r := range *m.Referrers() {
		switch x := r.(type) {
		case *ssa.IndexAddr:
			for _, rr := range *x.Referrers() {
				if st, ok := rr.(*ssa.Store); ok && st.Addr == ssa.Value(x) {
					return true
				}
			}
		case *ssa.Call:
			if b, ok := x.Call.Value.(*ssa.Builtin); ok && b.Name() == "copy" && x.Call.Args[0] == ssa.Value(m) {
				return true
			}
		case *ssa.Slice:
			return true // conservatively: a sub-slice may be written
		}
	}
	return false
}

// hashWrites returns, for each hash created by pkg.New() in f, the ordered descriptors of the bytes written
// to it and the Sum call.  Writes that do not dominate the Sum call (conditional writes) make ok=false.
type hashUse struct {
	New    *ssa.Call
	Writes []byteDesc
	Sum    *ssa.Call
	OK     bool
	Why    string
}

func hashUses(f *ssa.Function, pkg string) []hashUse {
	var out []hashUse
	flow.Instrs(f, func(in ssa.Instruction) {
		c, ok := in.(*ssa.Call)
		if !ok {
			return
		}
		callee := c.Call.StaticCallee()
		if callee == nil || callee.Pkg == nil || callee.Pkg.Pkg.Path() != pkg || callee.Name() != "New" {
			return
		}
		hu := hashUse{New: c, OK: true}
		var writes []*ssa.Call
		for _, r := range *c.Referrers() {
			rc, ok := r.(*ssa.Call)
			if !ok || !rc.Call.IsInvoke() || rc.Call.Value != ssa.Value(c) {
				if _, isDbg := r.(*ssa.DebugRef); !isDbg {
					hu.OK, hu.Why = false, "hash value escapes"
				}
				continue
			}
			switch rc.Call.Method.Name() {
			case "Write":
				writes = append(writes, rc)
			case "Sum":
				if hu.Sum != nil {
					hu.OK, hu.Why = false, "more than one Sum"
				}
				hu.Sum = rc
			default:
				hu.OK, hu.Why = false, "unexpected method "+rc.Call.Method.Name()
			}
		}
		if hu.Sum == nil {
			hu.OK, hu.Why = false, "no Sum call"
			out = append(out, hu)
			return
		}
		// order writes by dominance; each must dominate Sum
		for i := 0; i < len(writes); i++ {
			for j := i + 1; j < len(writes); j++ {
				if flow.InstrDominates(writes[j], writes[i]) {
					writes[i], writes[j] = writes[j], writes[i]
				}
			}
		}
		for i, w := range writes {
			if !flow.InstrDominates(w, hu.Sum) {
				hu.OK, hu.Why = false, "a Write is conditional (does not dominate Sum)"
			}
			if i > 0 && !flow.InstrDominates(writes[i-1], w) {
				hu.OK, hu.Why = false, "Writes are not totally ordered"
			}
			hu.Writes = append(hu.Writes, describeBytes(w.Call.Args[0]))
		}
		out = append(out, hu)
	})
	return out
}

// isNot reports v == !w.
func isNot(v ssa.Value) (ssa.Value, bool) {
	if u, ok := v.(*ssa.UnOp); ok && u.Op == token.NOT {
		return u.X, true
	}
	return nil, false
}

// onlyUse: the allocation is referenced by nothing but the given slice instruction.
func onlyUse(al *ssa.Alloc, sl *ssa.Slice) bool {
	for _, r := range *al.Referrers() {
		if _, dbg := r.(*ssa.DebugRef); dbg {
			continue
		}
		if r != ssa.Instruction(sl) {
			return false
		}
	}
	return true
}

// sliceWritten: is the slice value used for anything but being passed as a call argument (read-only by
// convention for Write/Sum style calls)?  Element stores, copies into it and re-slices count as writes.
func sliceWritten(sl *ssa.Slice) bool {
	for _, r := range *sl.Referrers() {
		switch x := r.(type) {
		case *ssa.DebugRef:
		case *ssa.Call:
			if b, ok := x.Call.Value.(*ssa.Builtin); ok {
				if b.Name() == "copy" && x.Call.Args[0] == ssa.Value(sl) {
					return true
				}
				continue
			}
			if x.Call.IsInvoke() && x.Call.Method.Name() == "Write" {
				continue
			}
			return true
		default:
			return true
		}
	}
	return false
}
