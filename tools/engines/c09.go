package engines

import (
	"fmt"
	"os"
	"sort"
	"strings"

	"bngvet/internal/bounds"
	"bngvet/internal/flow"
	"bngvet/internal/load"
	"bngvet/internal/locks"

	"golang.org/x/tools/go/ssa"
)

type rootSpec struct{ rel, recv, name string }

// c09Roots: network-facing decoders and handlers (entry points that receive bytes from the wire).
var c09Roots = []rootSpec{
	{"pkg/pppoe", "Server", "receiveLoop"},
	{"pkg/pppoe", "Server", "handleDiscovery"},
	{"pkg/pppoe", "Server", "handleSession"},
	{"pkg/pppoe", "", "ParsePPPoEHeader"},
	{"pkg/pppoe", "", "ParseTags"},
	{"pkg/pppoe", "", "ParseLCPPacket"},
	{"pkg/pppoe", "", "ParseLCPOptions"},
	{"pkg/pppoe", "", "ParsePADT"},
	{"pkg/pppoe", "", "ParseEchoPacket"},
	{"pkg/pppoe", "LCPStateMachine", "ReceivePacket"},
	{"pkg/pppoe", "IPCPStateMachine", "ReceivePacket"},
	{"pkg/pppoe", "IPV6CPStateMachine", "ReceivePacket"},
	{"pkg/pppoe", "Authenticator", "ReceivePacket"},
	{"pkg/pppoe", "SessionKeepAlive", "OnEchoReply"},
	{"pkg/pppoe", "KeepAliveManager", "ReceiveEchoReply"},
	{"pkg/dhcp", "Server", "handleDHCP"},
	{"pkg/dhcp", "", "parseOption82"},
	{"pkg/dhcpv6", "Server", "receiveLoop"},
	{"pkg/dhcpv6", "", "ParseMessage"},
	{"pkg/dhcpv6", "", "ParseOptions"},
	{"pkg/dhcpv6", "", "ParseDUID"},
	{"pkg/dhcpv6", "", "ParseIANA"},
	{"pkg/dhcpv6", "", "ParseIAPD"},
	{"pkg/dhcpv6", "", "ParseIAAddress"},
	{"pkg/dhcpv6", "", "ParseIAPrefix"},
	{"pkg/radius", "CoAServer", "receiveLoop"},
	{"pkg/ha", "", "DecodeSyncMessage"},
	{"pkg/ha", "HASyncer", "handleSSEData"},
	{"pkg/ha", "HASyncer", "connectToStream"},
	{"pkg/nat", "ALGHandler", "ProcessPacket"},
	{"pkg/nat", "FTPALG", "ProcessOutbound"},
	{"pkg/nat", "FTPALG", "ProcessInbound"},
	{"pkg/nat", "SIPALG", "ProcessOutbound"},
	{"pkg/nat", "SIPALG", "ProcessInbound"},
	{"pkg/ztp", "", "parseVendorOptions"},
	{"pkg/ztp", "", "extractNexusURL"},
}

func init() { Registry["C09"] = C09 }

func C09(c *Ctx) {
	r := c.R
	r.Explain = "bounds/loop-progress obligations on every index, slice, make, division, unchecked type assertion and loop in the functions reachable from the network-facing decoders"
	r.Rule("C09.bounds", "every index/slice/make/division in a function reachable from a network-facing decoder is implied by dominating branch facts (linear forms over SSA values), or is listed in the triage table with a reason", 1)
	r.LoadTriage("C09.txt")
	var roots []*ssa.Function
	for _, rs := range c09Roots {
		if f := c.fn(rs.rel, rs.recv, rs.name); f != nil {
			roots = append(roots, f)
		}
	}
	cg := c.P.CallGraph()
	reach := flow.ReachableFuncs(cg, roots, func(f *ssa.Function) bool { return !load.InModule(f) })
	var fns []*ssa.Function
	for f := range reach {
		if load.InModule(f) && len(f.Blocks) > 0 {
			fns = append(fns, f)
		}
	}
	sort.Slice(fns, func(i, j int) bool { return fns[i].String() < fns[j].String() })
	total, bad := 0, 0
	bp := bounds.NewProg(cg, func(f *ssa.Function) bool { return load.InModule(f) })
	bp.All = c.moduleFuncs()
	for _, f := range fns {
		sites := bounds.CheckFunc(bp, f)
		for _, s := range sites {
			total++
			if !s.OK {
				bad++
				if os.Getenv("BNGVET_DEBUG") != "" {
					fmt.Printf("UNPROVED %-8s %s  %s  %s :: %s\n", s.Kind, c.P.Pos(instrPos(s.Instr)), load.ShortFunc(f), s.Expr, s.Reason)
				}
			}
			coarse := ""
			if s.Coarse != "" {
				coarse = s.Kind + ":" + s.Coarse
			}
			r.CheckAlt("C09.bounds", load.ShortFunc(f), s.Kind+":"+s.Expr, coarse, c.P.Pos(instrPos(s.Instr)), s.OK, s.Reason)
		}
	}
	// ---- self-deadlock: a handler that holds a mutex calls (transitively) a function that locks it again
	r.Rule("C09.relock", "no function reachable from a network-facing handler calls, while holding a sync.Mutex/RWMutex, a function that acquires the same mutex of the same object (not re-entrant: the handler would hang)", 50)
	sums := locks.NewSummaries(func(f *ssa.Function) bool { return load.InModule(f) })
	for _, f := range fns {
		hasLock := false
		for _, call := range flow.Calls(f) {
			if op, ok := locks.ClassifyCall(call); ok && op.Acquire {
				hasLock = true
			}
		}
		if !hasLock {
			continue
		}
		res := locks.SelfDeadlocks(f, sums)
		if len(res) == 0 {
			r.Check("C09.relock", load.ShortFunc(f), "calls under lock", c.P.Pos(f.Pos()), true, "")
			continue
		}
		for _, d := range res {
			r.Check("C09.relock", load.ShortFunc(f), "call "+load.ShortFunc(d.Callee)+" while holding "+d.Lock.Path, c.P.Pos(instrPos(d.Site)), false,
				fmt.Sprintf("%s is held here and acquired again via %s: self-deadlock", d.Lock.Path, d.Acq.Via))
		}
	}
	c09LockOrder(c)
	c09NilConsistency(c, fns)
	r.Count("functions_reachable", len(fns))
	r.Count("sites", total)
	_ = strings.Join
}
