package engines

import (
	"fmt"
	"go/token"
	"go/types"
	"sort"
	"strings"

	"bngvet/internal/esp"
	"bngvet/internal/flow"
	"bngvet/internal/load"

	"golang.org/x/tools/go/ssa"
)

func init() { Registry["C14"] = C14 }

type c14Trans struct {
	Entry             string
	PreState, PreRole string
	State, Role       string
	Atoms, Acts       []string
}

func (t c14Trans) String() string {
	return fmt.Sprintf("%s: (%s,%s) -> (%s,%s) atoms=%v acts=%v", t.Entry, t.PreState, t.PreRole, t.State, t.Role, t.Atoms, t.Acts)
}

// entry points invoked from outside the controller: health-monitor callback, timer callbacks, periodic evaluation, operator commands
var c14Entries = []string{"handleHealthEvent", "executeFailover", "executeFailback", "evaluateState", "ForceFailover", "ForceFailback"}

func C14(c *Ctx) {
	r := c.R
	defer c14TimerReplaced(c)
	const pkg = "pkg/ha"
	r.Explain = "The FailoverController's transition relation over (failover state, role) is extracted by finite-domain disjunctive dataflow for every entry point (health events, timer callbacks, periodic evaluation, operator commands) and pre-configuration, labelled with guard atoms (event type, callback outcome, partner health) and actions (callback invoked, events emitted, timers armed/stopped), and checked against C14's clauses.  Real-time durations and flapping schedules are not decided."
	r.Rule("C14.T1.roleAfterCallback", "the reported role changes only on a path where the role-change callback was invoked for that role and returned nil (or no callback is set)", 2)
	r.Rule("C14.T2.completedOnce", "a promotion emits exactly one 'completed' event, and 'completed' is emitted on no path that does not change the role", 3)
	r.Rule("C14.T3.pendingTimer", "Pending is entered only on a partner-down event of a standby in Normal, arming the failover timer with the configured delay; partner-up in Pending stops the timer and returns to Normal; the timer callback re-tests the state", 6)
	r.Rule("C14.T4.failbackHealthy", "the role is handed back only on a path where the health monitor reported the partner healthy", 1)
	r.Rule("C14.T5.noOrphanInProgress", "no entry point returns with the controller in the in-progress state (nothing would be pending to leave it)", 10)
	r.Rule("C14.T6.promotionOnlyViaExecutor", "the role becomes active only in the failover executor, whose pre-state must be pending or in-progress", 2)

	sp := c.P.SSAPkg(pkg)
	tn, _ := sp.Pkg.Scope().Lookup("FailoverController").(*types.TypeName)
	if tn == nil {
		r.Fatal("C14: FailoverController not found")
		return
	}
	states, _ := enumConsts(sp.Pkg, "FailoverState", "FailoverState")
	roles, _ := enumConsts(sp.Pkg, "Role", "Role")
	if len(states) < 5 || len(roles) < 2 {
		r.Fatalf("C14: expected >=5 failover states and >=2 roles, found %d/%d", len(states), len(roles))
		return
	}
	spec := &esp.Spec{
		Recv:   tn.Type().(*types.Named),
		Fields: map[string]bool{"state": true, "currentRole": true},
		Inline: func(callee *ssa.Function) bool {
			return flow.RecvTypeName(callee) == "FailoverController" && callee.Pkg == sp && callee.Name() != "notifyHandlers"
		},
	}
	spec.Atom = func(cond ssa.Value) (string, []string, bool) {
		if call, ok := cond.(*ssa.Call); ok {
			if g := call.Call.StaticCallee(); g != nil && g.Name() == "IsPartnerHealthy" {
				return "partner-healthy", nil, true
			}
			return "", nil, false
		}
		if fo := flow.FieldOwner(cond); strings.HasSuffix(fo, "FailoverConfig.FailbackEnabled") {
			return "failback-enabled", nil, true
		}
		b, ok := cond.(*ssa.BinOp)
		if !ok || (b.Op != token.EQL && b.Op != token.NEQ) {
			return "", nil, false
		}
		op := "=="
		if b.Op == token.NEQ {
			op = "!="
		}
		if strings.HasSuffix(flow.FieldOwner(b.X), "HealthEvent.Type") {
			if k, ok := b.Y.(*ssa.Const); ok && k.Value != nil {
				return "event" + op + k.Value.ExactString(), nil, true
			}
		}
		if isNilConst(b.Y) {
			// error result of the role-change callback
			if call, ok := b.X.(*ssa.Call); ok && call.Call.StaticCallee() == nil && strings.HasSuffix(fieldOrigin(call.Call.Value), ".onRoleChange") {
				return "cb-err" + op + "nil", nil, true
			}
			if strings.HasSuffix(fieldOrigin(b.X), ".onRoleChange") {
				return "cb" + op + "nil", nil, true
			}
		}
		if isNilConst(b.Y) {
			if fo := flow.FieldOwner(b.X); strings.HasSuffix(fo, "Timer") && strings.HasPrefix(fo, "FailoverController.") {
				return strings.TrimPrefix(fo, "FailoverController.") + op + "nil", []string{strings.TrimPrefix(fo, "FailoverController.")}, true
			}
		}
		fx, fy := flow.FieldOwner(b.X), flow.FieldOwner(b.Y)
		if (strings.HasSuffix(fx, ".currentRole") && strings.HasSuffix(fy, ".originalRole")) || (strings.HasSuffix(fy, ".currentRole") && strings.HasSuffix(fx, ".originalRole")) {
			return "role" + op + "original", []string{"currentRole"}, true
		}
		return "", nil, false
	}
	spec.Action = func(call ssa.CallInstruction, resolve func(ssa.Value) string) string {
		com := call.Common()
		if g := com.StaticCallee(); g != nil {
			switch {
			case g.Name() == "notifyHandlers" && flow.RecvTypeName(g) == "FailoverController":
				return "notify:" + eventType(com.Args[1], resolve)
			case g.Name() == "Stop" && flow.RecvTypeName(g) == "Timer":
				if fo := flow.FieldOwner(com.Args[0]); fo != "" {
					return "stop:" + strings.TrimPrefix(fo, "FailoverController.")
				}
			case g.Name() == "AfterFunc" && g.Pkg != nil && g.Pkg.Pkg.Path() == "time":
				d := flow.FieldOwner(com.Args[0])
				target := ""
				if mc, ok := com.Args[1].(*ssa.MakeClosure); ok {
					for _, cc := range flow.Calls(mc.Fn.(*ssa.Function)) {
						if h := cc.Common().StaticCallee(); h != nil && flow.RecvTypeName(h) == "FailoverController" {
							target = h.Name()
						}
					}
				}
				return "arm:" + target + ":" + strings.TrimPrefix(d, "FailoverConfig.")
			}
			return ""
		}
		if strings.HasSuffix(fieldOrigin(com.Value), ".onRoleChange") {
			return "cb:" + resolve(com.Args[0])
		}
		return ""
	}
	var rel []c14Trans
	var sv, rv []string
	for v := range states {
		sv = append(sv, v)
	}
	for v := range roles {
		rv = append(rv, v)
	}
	sort.Strings(sv)
	sort.Strings(rv)
	roleName := func(v string) string {
		if n, ok := roles[v]; ok {
			return n
		}
		if v == esp.Top {
			return "original"
		}
		return "?" + v
	}
	for _, en := range c14Entries {
		f := c.fn(pkg, "FailoverController", en)
		if f == nil {
			continue
		}
		for _, s0 := range sv {
			for _, r0 := range rv {
				for _, o := range spec.Run(f, map[string]string{"state": s0, "currentRole": r0}) {
					st := states[o.Fields["state"]]
					if st == "" {
						st = "?" + o.Fields["state"]
					}
					rel = append(rel, c14Trans{Entry: en, PreState: states[s0], PreRole: roles[r0], State: st, Role: roleName(o.Fields["currentRole"]), Atoms: o.AtomList(), Acts: o.ActList()})
				}
			}
		}
	}
	r.Count("transitions_extracted", len(rel))
	r.Count("esp_steps", spec.Steps)
	for i, t := range rel {
		if i%7 == 0 && len(r.ListLen("transition_samples")) < 50 {
			r.List("transition_samples", t.String())
		}
	}
	if c.Tier == "debug" {
		for _, t := range rel {
			if t.PreState != t.State || t.PreRole != t.Role || len(t.Acts) > 0 {
				fmt.Println(t)
			}
		}
	}
	c14Check(c, rel)
	// helpers that set in-progress without running the executor may only be called by entry points that do run it
	cg := c.P.CallGraph()
	for _, helper := range []string{"initiateFailover", "initiateFailback"} {
		// optional anchors: a helper written out into its (analysed) entry point is covered by that entry point's transitions
		f := c.P.SSAFunc(pkg, "FailoverController", helper)
		if f == nil || len(f.Blocks) == 0 {
			continue
		}
		for _, caller := range allCallers(cg, f) {
			ok := false
			for _, e := range c14Entries {
				if caller.Name() == e && flow.RecvTypeName(caller) == "FailoverController" {
					ok = true
				}
			}
			r.Check("C14.T5.noOrphanInProgress", load.ShortFunc(f), "caller "+load.ShortFunc(caller), c.P.Pos(caller.Pos()), ok, "state-setting helper is reachable from a function whose transitions are not analysed")
		}
	}
}

// eventType resolves the Type field of a FailoverEvent literal passed by value.
func eventType(v ssa.Value, resolve func(ssa.Value) string) string {
	ld, ok := v.(*ssa.UnOp)
	if !ok {
		return "?"
	}
	al, ok := ld.X.(*ssa.Alloc)
	if !ok {
		return "?"
	}
	for _, rf := range *al.Referrers() {
		fa, ok := rf.(*ssa.FieldAddr)
		if !ok || fieldVarName(fa) != "Type" {
			continue
		}
		for _, rr := range *fa.Referrers() {
			if st, ok := rr.(*ssa.Store); ok {
				return strings.Trim(resolve(st.Val), `"`)
			}
		}
	}
	return "?"
}

func c14Check(c *Ctx, rel []c14Trans) {
	r := c.R
	fn := func(e string) string { return "ha.(*FailoverController)." + e }
	pos := func(e string) string {
		if f := c.P.SSAFunc("pkg/ha", "FailoverController", e); f != nil {
			return c.P.Pos(f.Pos())
		}
		return "-"
	}
	_ = load.ShortFunc
	for _, t := range rel {
		key := fmt.Sprintf("(%s,%s)->(%s,%s)%v", t.PreState, t.PreRole, t.State, t.Role, t.Atoms)
		roleChanged := has(t.Acts, "set:currentRole")
		// T1
		if roleChanged {
			want := "cb:" + `"` + strings.ToLower(t.Role) + `"`
			cbOK := (hasPrefix(t.Acts, "cb:") && (has(t.Atoms, "!cb-err!=nil") || has(t.Atoms, "cb-err==nil"))) || has(t.Atoms, "!cb!=nil") || has(t.Atoms, "cb==nil")
			if t.Role != "original" && hasPrefix(t.Acts, "cb:") && !has(t.Acts, want) {
				cbOK = false
			}
			r.Check("C14.T1.roleAfterCallback", fn(t.Entry), key, pos(t.Entry), cbOK, "role stored without a successful role-change callback on this path: "+t.String())
		}
		// T2
		if has(t.Acts, "notify:completed") {
			r.Check("C14.T2.completedOnce", fn(t.Entry), key, pos(t.Entry), roleChanged && t.Role == "Active", "'completed' emitted on a path that does not promote: "+t.String())
		} else if roleChanged && t.Role == "Active" {
			r.Check("C14.T2.completedOnce", fn(t.Entry), key, pos(t.Entry), false, "promotion without a 'completed' event: "+t.String())
		}
		// T3
		if t.State == "Pending" && t.PreState != "Pending" {
			ok := t.Entry == "handleHealthEvent" && t.PreState == "Normal" && t.PreRole == "Standby" && has(t.Atoms, `event=="partner_down"`) &&
				has(t.Acts, "arm:executeFailover:FailoverDelay")
			r.Check("C14.T3.pendingTimer", fn(t.Entry), key, pos(t.Entry), ok, "Pending entered other than by partner-down on a standby in Normal with the failover timer armed for FailoverDelay: "+t.String())
		}
		if t.Entry == "handleHealthEvent" && t.PreState == "Pending" && has(t.Atoms, `event=="partner_up"`) {
			ok := t.State == "Normal" && (has(t.Acts, "stop:failoverTimer") || has(t.Atoms, "!failoverTimer!=nil") || has(t.Atoms, "failoverTimer==nil"))
			r.Check("C14.T3.pendingTimer", fn(t.Entry), key, pos(t.Entry), ok, "partner recovery while pending does not cancel the promotion (state Normal + timer stopped): "+t.String())
		}
		if hasPrefix(t.Acts, "arm:executeFailover") && !(t.Entry == "handleHealthEvent" && has(t.Atoms, `event=="partner_down"`)) {
			r.Check("C14.T3.pendingTimer", fn(t.Entry), key+"arm", pos(t.Entry), false, "failover timer armed outside the partner-down branch: "+t.String())
		}
		if t.Entry == "executeFailover" && t.PreState != "Pending" && t.PreState != "InProgress" {
			r.Check("C14.T3.pendingTimer", fn(t.Entry), key, pos(t.Entry), t.State == t.PreState && !roleChanged && len(t.Acts) == 0, "the timer callback acts although the promotion is no longer pending: "+t.String())
		}
		// T4
		if roleChanged && t.Role == "original" {
			r.Check("C14.T4.failbackHealthy", fn(t.Entry), key, pos(t.Entry), has(t.Atoms, "partner-healthy"), "failback without the health monitor reporting the partner healthy on this path: "+t.String())
		}
		// T5
		if t.State == "InProgress" && t.PreState != "InProgress" {
			r.Check("C14.T5.noOrphanInProgress", fn(t.Entry), key, pos(t.Entry), false, "entry point returns in the in-progress state with no timer or executor pending: "+t.String())
		} else {
			r.Check("C14.T5.noOrphanInProgress", fn(t.Entry), key, pos(t.Entry), true, "")
		}
		// T6
		if roleChanged && t.Role == "Active" {
			r.Check("C14.T6.promotionOnlyViaExecutor", fn(t.Entry), key, pos(t.Entry), (t.Entry == "executeFailover" && (t.PreState == "Pending" || t.PreState == "InProgress")) || (t.Entry == "ForceFailover" && has(t.Acts, "notify:initiated")),
				"promotion outside the failover executor (pending/in-progress) or the operator's force-failover command: "+t.String())
		}
		if strings.HasPrefix(t.State, "?") {
			r.Check("C14.T5.noOrphanInProgress", fn(t.Entry), key+"state", pos(t.Entry), false, "post-state is not a constant: "+t.String())
		}
	}
}
