package engines

import (
	"bngvet/internal/bounds"
	"bngvet/internal/lin"
	"fmt"
	"go/token"
	"go/types"
	"reflect"
	"sort"
	"strings"

	"bngvet/internal/flow"
	"bngvet/internal/load"

	"golang.org/x/tools/go/ssa"
)

// c14TimerReplaced (rule C14.T7): a timer field is re-armed only after the timer it held was stopped.
func c14TimerReplaced(c *Ctx) {
	r := c.R
	r.Rule("C14.T7.timerReplaced", "every assignment of a new time.AfterFunc timer to failoverTimer/failbackTimer is preceded, on every path, by `if timer != nil { timer.Stop() }` on the same field: a superseded timer must not fire later against a state it was not armed for", 2)
	n := 0
	for _, f := range c.moduleFuncs() {
		if f.Pkg == nil || !strings.HasSuffix(f.Pkg.Pkg.Path(), "pkg/ha") {
			continue
		}
		flow.Instrs(f, func(in ssa.Instruction) {
			st, ok := in.(*ssa.Store)
			if !ok {
				return
			}
			fo := flow.FieldOwner(st.Addr)
			if !strings.HasSuffix(fo, "FailoverController.failoverTimer") && !strings.HasSuffix(fo, "FailoverController.failbackTimer") {
				return
			}
			call, ok := st.Val.(*ssa.Call)
			if !ok {
				return
			}
			if g := call.Call.StaticCallee(); g == nil || (g.Name() != "AfterFunc" && g.Name() != "NewTimer") {
				return
			}
			n++
			// a dominating `if field != nil` whose true branch stops the field's timer
			stopped := false
			for d := st.Block(); d != nil; d = d.Idom() {
				if len(d.Instrs) == 0 {
					continue
				}
				iff, ok := d.Instrs[len(d.Instrs)-1].(*ssa.If)
				if !ok {
					continue
				}
				bo, ok := iff.Cond.(*ssa.BinOp)
				if !ok || bo.Op != token.NEQ {
					continue
				}
				u, ok := bo.X.(*ssa.UnOp)
				if !ok || flow.FieldOwner(u.X) != fo {
					continue
				}
				if k, ok := bo.Y.(*ssa.Const); !ok || k.Value != nil {
					continue
				}
				for _, in2 := range d.Succs[0].Instrs {
					if c2, ok := in2.(ssa.CallInstruction); ok {
						if g := c2.Common().StaticCallee(); g != nil && g.Name() == "Stop" && len(c2.Common().Args) > 0 {
							if u2, ok := c2.Common().Args[0].(*ssa.UnOp); ok && flow.FieldOwner(u2.X) == fo {
								stopped = true
							}
						}
					}
				}
			}
			fn := load.ShortFunc(f)
			r.Check("C14.T7.timerReplaced", fn, "old "+fo[strings.LastIndex(fo, ".")+1:]+" stopped before a new one is armed", c.P.Pos(st.Pos()), stopped,
				"a new timer is stored over the old one without stopping it: the superseded timer still fires; if the controller has meanwhile left and re-entered the pending state it passes the state re-check and promotes (or fails back) after only part of the configured delay")
		})
	}
	if n == 0 {
		r.Check("C14.T7.timerReplaced", "pkg/ha", "timer arming sites found", "-", false, "no AfterFunc stored into failoverTimer/failbackTimer")
	}
}

// c12RestoredMaps (rule C12.P6): maps taken over from a decoded snapshot cannot be nil.
func c12RestoredMaps(c *Ctx) {
	r := c.R
	r.Rule("C12.P6.restoredMapsUsable", "UnmarshalJSON assigns the allocator's map fields either from snapshot fields that are always present in the encoding (no omitempty) or behind a nil guard: a restored allocator must not be left with a nil map its methods write to", 4)
	n := 0
	for _, f := range c.moduleFuncs() {
		if f.Name() != "UnmarshalJSON" || f.Pkg == nil || !strings.HasSuffix(f.Pkg.Pkg.Path(), "pkg/allocator") {
			continue
		}
		flow.Instrs(f, func(in ssa.Instruction) {
			st, ok := in.(*ssa.Store)
			if !ok {
				return
			}
			if _, isMap := st.Val.Type().Underlying().(*types.Map); !isMap {
				return
			}
			dst := flow.FieldOwner(st.Addr)
			if dst == "" {
				return
			}
			u, ok := st.Val.(*ssa.UnOp)
			if !ok {
				return // made or guarded value
			}
			fa, ok := u.X.(*ssa.FieldAddr)
			if !ok {
				return
			}
			pt, ok := fa.X.Type().Underlying().(*types.Pointer)
			if !ok {
				return
			}
			stt, ok := pt.Elem().Underlying().(*types.Struct)
			if !ok {
				return
			}
			n++
			tag := reflect.StructTag(stt.Tag(fa.Field)).Get("json")
			omit := strings.Contains(tag, "omitempty") || strings.Contains(tag, "omitzero") || tag == "-"
			fn := load.ShortFunc(f)
			r.Check("C12.P6.restoredMapsUsable", fn, dst+" restored from an always-encoded field", c.P.Pos(st.Pos()), !omit,
				"the snapshot field "+stt.Field(fa.Field).Name()+" is tagged `"+tag+"`: an allocator serialised while this map is empty omits it, the restored allocator gets a nil map and the first write (next Allocate) panics — the restored state is not the serialised one")
		})
	}
	if n == 0 {
		r.Check("C12.P6.restoredMapsUsable", "pkg/allocator", "restored map fields found", "-", true, "")
	}
}

// c01IndexArithmetic (rule C01.indexArithmetic): the index <-> prefix bijection of the bitmap allocator is computed
// without fixed-width products of two run-time values (which wrap modulo 2^64 and map distinct indexes to one prefix).
func c01IndexArithmetic(c *Ctx) {
	r := c.R
	r.Rule("C01.indexArithmetic", "the functions that convert between a slot index and its prefix (index*step+base and back) multiply/shift run-time values only in arbitrary precision (math/big) or under an explicit overflow guard: a product that wraps modulo 2^64 hands one prefix to two indexes", 2)
	n := 0
	for _, f := range c.moduleFuncs() {
		if f.Pkg == nil || !strings.HasSuffix(f.Pkg.Pkg.Path(), "pkg/allocator") || f.Signature.Recv() == nil {
			continue
		}
		sig := f.Signature
		conv := false
		if sig.Params().Len() == 1 && sig.Results().Len() >= 1 {
			p, rr := sig.Params().At(0).Type().String(), sig.Results().At(0).Type().String()
			if (p == "uint64" && strings.HasSuffix(rr, "net.IPNet")) || (strings.HasSuffix(p, "net.IPNet") && rr == "uint64") ||
				(p == "uint64" && strings.HasSuffix(rr, "net.IP")) || (strings.HasSuffix(p, "net.IP") && rr == "uint64") {
				conv = true
			}
		}
		if !conv {
			continue
		}
		n++
		var bad []string
		flow.Instrs(f, func(in ssa.Instruction) {
			bo, ok := in.(*ssa.BinOp)
			if !ok || (bo.Op != token.MUL && bo.Op != token.SHL) {
				return
			}
			if _, ok := bo.Type().Underlying().(*types.Basic); !ok {
				return
			}
			_, cx := bo.X.(*ssa.Const)
			_, cy := bo.Y.(*ssa.Const)
			if cx || cy {
				return
			}
			// guarded by an overflow test on one of the operands (comparison with a quotient / bits.Mul64 / bits.Len)?
			guarded := false
			for _, ft := range flow.FactsAtInstr(bo) {
				if fb, ok := ft.Cond.(*ssa.BinOp); ok {
					for _, side := range []ssa.Value{fb.X, fb.Y} {
						if side == bo.X || side == bo.Y {
							if ob, ok := otherSide(fb, side).(*ssa.BinOp); ok && (ob.Op == token.QUO || ob.Op == token.SHR) {
								guarded = true
							}
						}
					}
				}
			}
			if !guarded {
				bad = append(bad, c.P.Pos(bo.Pos()))
			}
		})
		r.Check("C01.indexArithmetic", load.ShortFunc(f), "no unguarded fixed-width product of run-time values", c.P.Pos(f.Pos()), len(bad) == 0,
			"a fixed-width multiplication/shift of two run-time values at "+strings.Join(bad, ", ")+" can wrap: for pools whose offset exceeds 64 bits (IPv6 base shorter than /64 with units longer than /64) distinct indexes yield the same prefix, so two subscribers are handed one prefix")
	}
	if n == 0 {
		r.Check("C01.indexArithmetic", "pkg/allocator", "index/prefix conversion functions found", "-", false, "no uint64<->net.IPNet conversion method found")
	}
}

func otherSide(b *ssa.BinOp, side ssa.Value) ssa.Value {
	if b.X == side {
		return b.Y
	}
	return b.X
}

// c08ForgottenLease (rule C08.O11): handleRequest never discards a lease record it found (resets the variable that
// gates new-session creation to nil) without releasing that lease: the record is then overwritten by a new
// session (new Accounting-Start) and the old session never gets its Stop.
func c08ForgottenLease(c *Ctx) {
	r := c.R
	r.Rule("C08.O11.foundLeaseNotForgotten", "in the DHCP REQUEST handler a lease record that was found is never dropped from consideration (variable reset to nil) unless it is released on that path: otherwise the request starts a second accounting session over the first, which is never stopped", 1)
	f := c.fn("pkg/dhcp", "Server", "handleRequest")
	if f == nil {
		return
	}
	isLease := func(v ssa.Value) bool {
		n := namedOfPtr(v.Type())
		return n != nil && n.Obj().Name() == "Lease"
	}
	nphi := 0
	okAll := true
	where := ""
	for _, b := range f.Blocks {
		for _, in := range b.Instrs {
			phi, ok := in.(*ssa.Phi)
			if !ok {
				break
			}
			if !isLease(phi) {
				continue
			}
			nphi++
			for i, e := range phi.Edges {
				k, isK := e.(*ssa.Const)
				if !isK || k.Value != nil {
					continue
				}
				pred := b.Preds[i]
				facts := flow.FactsAt(pred)
				if ef, ok := flow.EdgeFact(pred, b); ok {
					facts = append(facts, ef)
				}
				for _, ft := range facts {
					bo, ok := ft.Cond.(*ssa.BinOp)
					if !ok || !isLease(bo.X) {
						continue
					}
					kk, ok := bo.Y.(*ssa.Const)
					if !ok || kk.Value != nil {
						continue
					}
					nonNil := (bo.Op == token.NEQ && ft.Pol) || (bo.Op == token.EQL && !ft.Pol)
					if !nonNil {
						continue
					}
					// a found lease is being forgotten on this edge: was it released?
					released := false
					for d := pred; d != nil; d = d.Idom() {
						for _, in2 := range d.Instrs {
							if call, ok := in2.(ssa.CallInstruction); ok {
								if g := call.Common().StaticCallee(); g != nil && (g.Name() == "releaseLeaseResources" || g.Name() == "releaseLease") {
									released = true
								}
							}
						}
						if d == ft.At {
							break
						}
					}
					if !released {
						okAll = false
						where = c.P.Pos(instrPos(pred.Instrs[len(pred.Instrs)-1]))
					}
				}
			}
		}
	}
	r.Check("C08.O11.foundLeaseNotForgotten", load.ShortFunc(f), "a found lease is not reset to nil without being released", where, okAll && nphi > 0,
		"a lease that the lookup found is set aside (nil) without releaseLeaseResources: the handler then treats the client as new, sends a second Accounting-Start with a fresh session id and overwrites the record — the first session is never accounted to a Stop")
}

// natural loop of a back edge b->h: nodes that reach b without passing h (plus h).
func loopBody(h, b *ssa.BasicBlock) map[*ssa.BasicBlock]bool {
	body := map[*ssa.BasicBlock]bool{h: true}
	var stack []*ssa.BasicBlock
	if !body[b] {
		body[b] = true
		stack = append(stack, b)
	}
	for len(stack) > 0 {
		x := stack[len(stack)-1]
		stack = stack[:len(stack)-1]
		for _, p := range x.Preds {
			if !body[p] {
				body[p] = true
				stack = append(stack, p)
			}
		}
	}
	return body
}

// c11ParserConsumesAll (rule C11.I9): the option parser shared by LCP/IPCP/IPv6CP returns a list only after it
// consumed the whole option area: its scanning loop is left either through the loop condition or with an error.
func c11ParserConsumesAll(c *Ctx) {
	r := c.R
	r.Rule("C11.I9.parserConsumesAll", "ParseLCPOptions leaves its scanning loop only through the loop condition (input exhausted) or by returning an error: options are never silently dropped from a Configure-Request before it is validated and acknowledged", 1)
	f := c.fn("pkg/pppoe", "", "ParseLCPOptions")
	if f == nil {
		return
	}
	n := 0
	ok := true
	where := ""
	for _, b := range f.Blocks {
		for _, h := range b.Succs {
			if !h.Dominates(b) {
				continue
			}
			// back edge b->h
			n++
			body := loopBody(h, b)
			for x := range body {
				for _, s := range x.Succs {
					if body[s] {
						continue
					}
					if x == h {
						continue // exit through the loop condition
					}
					// an exit from inside the body: must lead to an error return without re-joining the success path
					errOnly := true
					seen := map[*ssa.BasicBlock]bool{}
					var walk func(y *ssa.BasicBlock)
					walk = func(y *ssa.BasicBlock) {
						if seen[y] || !errOnly {
							return
						}
						seen[y] = true
						if len(y.Instrs) > 0 {
							if ret, isRet := y.Instrs[len(y.Instrs)-1].(*ssa.Return); isRet {
								last := flow.ReturnValues(ret)
								if len(last) == 0 {
									errOnly = false
									return
								}
								if k, isK := last[len(last)-1].(*ssa.Const); isK && k.Value == nil {
									errOnly = false
								}
								return
							}
						}
						for _, z := range y.Succs {
							walk(z)
						}
					}
					walk(s)
					if !errOnly {
						ok = false
						where = c.P.Pos(instrPos(x.Instrs[len(x.Instrs)-1]))
					}
				}
			}
		}
	}
	// the loop condition itself must not stop early: when it fails, fewer than two bytes (one option header) remain.
	// "Remaining" is read off the loop body: the smallest index at which the body reads the scanned slice.
	e := bounds.NewFn(f)
	for _, b := range f.Blocks {
		for _, h := range b.Succs {
			if !h.Dominates(b) {
				continue
			}
			body := loopBody(h, b)
			var base ssa.Value
			var minIdx lin.Form
			have := false
			for x := range body {
				for _, in := range x.Instrs {
					ia, isIA := in.(*ssa.IndexAddr)
					if !isIA {
						continue
					}
					if sl, isSl := ia.X.Type().Underlying().(*types.Slice); !isSl || !isByteType(sl.Elem()) {
						continue
					}
					idx := e.Eval(ia.Index)
					if d := idx.Sub(minIdx); !have || (d.IsConst() && d.K < 0) {
						base, minIdx, have = ia.X, idx, true
					}
				}
			}
			if !have {
				continue
			}
			for _, ex := range h.Succs {
				if body[ex] || len(ex.Instrs) == 0 {
					continue
				}
				// at the exit: minIdx + 1 >= len(base), i.e. at most one byte is left unread
				goal := minIdx.AddK(1).Sub(e.Len(base))
				exhausted := e.Prove(ex.Instrs[0], goal)
				r.Check("C11.I9.parserConsumesAll", load.ShortFunc(f), "loop condition fails only when no option header is left", c.P.Pos(instrPos(h.Instrs[len(h.Instrs)-1])), exhausted,
					"the scanning loop can stop while a complete two-byte option header is still unread ("+e.Str(goal)+" >= 0 is not implied at the exit): a trailing option without a value is dropped before validation, so it is neither acknowledged as sent nor rejected")
			}
		}
	}
	r.Check("C11.I9.parserConsumesAll", load.ShortFunc(f), "loop exits: condition or error", where, ok && n > 0,
		"the scanning loop can be left early with a successful result: the options after that point are never validated, so a Configure-Request carrying an unacceptable option behind the stop marker is acknowledged with a shorter list and the automaton opens on it")
}

// c10StablePoolIndex (rule C10.N7): allocations refer to pool entries by position, so the pool slice is append-only.
func c10StablePoolIndex(c *Ctx) {
	r := c.R
	r.Rule("C10.N7.stablePoolIndex", "Allocation.PoolIndex is a position in Manager.pool: the slice only grows at its end (stores are appends to the current value; nothing copies within it), so an index handed out stays valid", 2)
	n := 0
	for _, f := range c.moduleFuncs() {
		if f.Pkg == nil || !strings.HasSuffix(f.Pkg.Pkg.Path(), "pkg/nat") {
			continue
		}
		fn := load.ShortFunc(f)
		flow.Instrs(f, func(in ssa.Instruction) {
			switch x := in.(type) {
			case *ssa.Store:
				if !strings.HasSuffix(flow.FieldOwner(x.Addr), "Manager.pool") {
					return
				}
				n++
				okS := false
				switch v := x.Val.(type) {
				case *ssa.Call:
					if b, isB := v.Call.Value.(*ssa.Builtin); isB && b.Name() == "append" {
						if u, isU := v.Call.Args[0].(*ssa.UnOp); isU && strings.HasSuffix(flow.FieldOwner(u.X), "Manager.pool") {
							okS = true
						}
					}
				case *ssa.MakeSlice:
					okS = true
				case *ssa.Const:
					okS = true
				case *ssa.Slice:
					// make lowered to new [N]T + slice
					if _, isA := v.X.(*ssa.Alloc); isA {
						okS = true
					}
				}
				r.Check("C10.N7.stablePoolIndex", fn, "store to Manager.pool is an append at the end", c.P.Pos(x.Pos()), okS,
					"the pool slice is rebuilt or reordered while allocations hold positions in it: a live allocation's PoolIndex then names another public address, its release frees a block another subscriber still holds, and the next allocation hands that block out again")
			case *ssa.Call:
				if b, isB := x.Call.Value.(*ssa.Builtin); isB && b.Name() == "copy" {
					dst := x.Call.Args[0]
					for {
						if sl, isS := dst.(*ssa.Slice); isS {
							dst = sl.X
							continue
						}
						break
					}
					if u, isU := dst.(*ssa.UnOp); isU && strings.HasSuffix(flow.FieldOwner(u.X), "Manager.pool") {
						n++
						r.Check("C10.N7.stablePoolIndex", fn, "no copy within Manager.pool", c.P.Pos(x.Pos()), false,
							"entries are shifted inside the pool slice while allocations hold positions in it (see rule text)")
					}
				}
			}
		})
	}
	if n == 0 {
		r.Check("C10.N7.stablePoolIndex", "pkg/nat", "stores to Manager.pool found", "-", false, "no store to Manager.pool")
	}
}

// c11MatchIdOwner (rule C11.I10): the identifier that Configure-Ack/Nak/Reject are matched against is rewritten only
// when a Configure-Request is originated.
func c11MatchIdOwner(c *Ctx) {
	r := c.R
	r.Rule("C11.I10.matchIdOnlyOnRequest", "the field holding 'the identifier of our last Configure-Request' (lastIdentifier) is written only by code that originates a Configure-Request: no function that originates another kind of packet (Terminate-Request, Code/Protocol-Reject, Echo-Request, replies) reaches a write of it", 3)
	sp := c.P.SSAPkg("pkg/pppoe")
	if sp == nil {
		return
	}
	var funcs []*ssa.Function
	for _, f := range c.moduleFuncs() {
		if f.Pkg == sp && f.Signature.Recv() != nil {
			funcs = append(funcs, f)
		}
	}
	writes := map[*ssa.Function]bool{}
	codes := map[*ssa.Function]map[int64]bool{}
	for _, f := range funcs {
		flow.Instrs(f, func(in ssa.Instruction) {
			st, ok := in.(*ssa.Store)
			if !ok {
				return
			}
			fo := flow.FieldOwner(st.Addr)
			if strings.HasSuffix(fo, ".lastIdentifier") {
				writes[f] = true
			}
			if strings.HasSuffix(fo, "LCPPacket.Code") {
				if k, ok := constInt(st.Val); ok {
					if codes[f] == nil {
						codes[f] = map[int64]bool{}
					}
					codes[f][k] = true
				}
			}
		})
	}
	memo := map[*ssa.Function]int{}
	var reach func(f *ssa.Function) bool
	reach = func(f *ssa.Function) bool {
		if v, ok := memo[f]; ok {
			return v == 1
		}
		memo[f] = 0
		res := writes[f]
		if !res {
			for _, call := range flow.Calls(f) {
				if _, isGo := call.(*ssa.Go); isGo {
					continue
				}
				if g := call.Common().StaticCallee(); g != nil && g.Pkg == sp && g != f && flow.RecvTypeName(g) == flow.RecvTypeName(f) && reach(g) {
					res = true
					break
				}
			}
		}
		if res {
			memo[f] = 1
		}
		return res
	}
	n := 0
	for _, f := range funcs {
		cs := codes[f]
		if len(cs) == 0 || cs[1] {
			continue
		}
		n++
		var ks []string
		for k := range cs {
			ks = append(ks, fmt.Sprint(k))
		}
		sort.Strings(ks)
		r.Check("C11.I10.matchIdOnlyOnRequest", load.ShortFunc(f), "originates code "+strings.Join(ks, "/")+" without rewriting lastIdentifier", c.P.Pos(f.Pos()), !reach(f),
			"originating this packet also overwrites the identifier that Configure-Ack/Nak/Reject are matched against: an acknowledgement carrying this packet's identifier is then accepted as the answer to our Configure-Request (the automaton opens on it) and the genuine one is discarded as stale")
	}
	nw := 0
	for range writes {
		nw++
	}
	r.Count("lastIdentifier_writers", nw)
	if n == 0 || nw == 0 {
		r.Check("C11.I10.matchIdOnlyOnRequest", "pkg/pppoe", "packet originators and writers of lastIdentifier found", "-", false, "anchors not found")
	}
}

func isByteType(t types.Type) bool {
	b, ok := t.Underlying().(*types.Basic)
	return ok && (b.Kind() == types.Uint8 || b.Kind() == types.Byte)
}
