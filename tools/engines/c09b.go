package engines

import (
	"fmt"
	"go/token"
	"go/types"
	"sort"
	"strings"

	"bngvet/internal/flow"
	"bngvet/internal/load"
	"bngvet/internal/locks"

	"golang.org/x/tools/go/callgraph"
	"golang.org/x/tools/go/ssa"
)

// ---------- lock-order inversion (type-level lock names) ----------

func namedOfPtr(t types.Type) *types.Named {
	if p, ok := t.Underlying().(*types.Pointer); ok {
		t = p.Elem()
	}
	n, _ := t.(*types.Named)
	return n
}

// typeLockOfCall: "Type.field" of the mutex a Lock/RLock call acquires.
func typeLockOfCall(call ssa.CallInstruction) (string, bool) {
	op, ok := locks.ClassifyCall(call)
	if !ok || !op.Acquire {
		return "", false
	}
	args := call.Common().Args
	if len(args) == 0 {
		return "", false
	}
	fa, ok := args[0].(*ssa.FieldAddr)
	if !ok {
		return "", false
	}
	n := namedOfPtr(fa.X.Type())
	if n == nil {
		return "", false
	}
	st, ok := n.Underlying().(*types.Struct)
	if !ok {
		return "", false
	}
	return n.Obj().Name() + "." + st.Field(fa.Field).Name(), true
}

// typeLockOfHeld converts a held lock (root value + field path) to its type-level name.
func typeLockOfHeld(l locks.Lock) string {
	if l.Root == nil {
		return ""
	}
	t := l.Root.Type()
	parts := strings.Split(l.Path, ".")
	owner := ""
	for i, p := range parts {
		n := namedOfPtr(t)
		if n == nil {
			return ""
		}
		st, ok := n.Underlying().(*types.Struct)
		if !ok {
			return ""
		}
		found := false
		for j := 0; j < st.NumFields(); j++ {
			if st.Field(j).Name() == p {
				t = st.Field(j).Type()
				found = true
				if i == len(parts)-1 {
					owner = n.Obj().Name() + "." + p
				}
			}
		}
		if !found {
			return ""
		}
	}
	return owner
}

type lockEdge struct {
	from, to string
	fn       *ssa.Function
	site     ssa.Instruction
	via      string
}

func c09LockOrder(c *Ctx) {
	r := c.R
	r.Rule("C09.lockOrder", "no two mutexes of the packet-handling packages are acquired in both orders (A held while B is taken on one path, B held while A is taken on another, through static calls, callbacks and bound methods): two goroutines taking them in opposite order block each other for ever", 1)
	cg := c.P.CallGraph()
	inScope := func(f *ssa.Function) bool { return load.InModule(f) }
	// transitive type-level acquisitions
	memo := map[*ssa.Function]map[string]string{}
	busy := map[*ssa.Function]bool{}
	var acq func(f *ssa.Function) map[string]string
	acq = func(f *ssa.Function) map[string]string {
		if m, ok := memo[f]; ok {
			return m
		}
		if busy[f] || len(f.Blocks) == 0 {
			return nil
		}
		busy[f] = true
		out := map[string]string{}
		for _, call := range flow.Calls(f) {
			if _, isGo := call.(*ssa.Go); isGo {
				continue
			}
			if tl, ok := typeLockOfCall(call); ok {
				out[tl] = load.ShortFunc(f)
			}
		}
		if node := cg.Nodes[f]; node != nil {
			for _, e := range node.Out {
				if _, isGo := e.Site.(*ssa.Go); isGo || !inScope(e.Callee.Func) {
					continue
				}
				for k, via := range acq(e.Callee.Func) {
					if _, ok := out[k]; !ok {
						out[k] = load.ShortFunc(f) + " -> " + via
					}
				}
			}
		}
		delete(busy, f)
		memo[f] = out
		return out
	}
	edges := map[string]lockEdge{}
	for _, f := range c.moduleFuncs() {
		hasLock := false
		for _, call := range flow.Calls(f) {
			if _, ok := typeLockOfCall(call); ok {
				hasLock = true
			}
		}
		if !hasLock {
			continue
		}
		h := locks.Analyze(f)
		node := cg.Nodes[f]
		calleesOf := map[ssa.Instruction][]*ssa.Function{}
		if node != nil {
			for _, e := range node.Out {
				if e.Site != nil {
					calleesOf[e.Site] = append(calleesOf[e.Site], e.Callee.Func)
				}
			}
		}
		for _, call := range flow.Calls(f) {
			if _, isGo := call.(*ssa.Go); isGo {
				continue
			}
			if _, isDefer := call.(*ssa.Defer); isDefer {
				continue
			}
			held := h.HeldAt(call)
			if len(held) == 0 {
				continue
			}
			targets := map[string]string{}
			if tl, ok := typeLockOfCall(call); ok {
				targets[tl] = "direct"
			} else {
				for _, g := range calleesOf[call] {
					if !inScope(g) {
						continue
					}
					for k, via := range acq(g) {
						targets[k] = via
					}
				}
			}
			for _, hl := range held {
				from := typeLockOfHeld(hl.Lock)
				if from == "" {
					continue
				}
				for to, via := range targets {
					if to == from {
						continue
					}
					k := from + "->" + to
					if _, ok := edges[k]; !ok {
						edges[k] = lockEdge{from, to, f, call, via}
					}
				}
			}
		}
	}
	r.Count("lock_order_edges", len(edges))
	var keys []string
	for k := range edges {
		keys = append(keys, k)
	}
	sort.Strings(keys)
	n := 0
	for _, k := range keys {
		e := edges[k]
		r.List("lock_order", fmt.Sprintf("%s held while %s is taken (%s)", e.from, e.to, load.ShortFunc(e.fn)))
		rev, ok := edges[e.to+"->"+e.from]
		if e.from > e.to && ok {
			continue // reported from the other side
		}
		n++
		detail := ""
		if ok {
			detail = fmt.Sprintf("%s is held while %s is taken in %s (%s, via %s), and %s is held while %s is taken in %s (%s, via %s): a frame handled on one goroutine and a timer/other frame on another deadlock",
				e.from, e.to, load.ShortFunc(e.fn), c.P.Pos(instrPos(e.site)), e.via, rev.from, rev.to, load.ShortFunc(rev.fn), c.P.Pos(instrPos(rev.site)), rev.via)
		}
		r.Check("C09.lockOrder", load.ShortFunc(e.fn), "order "+e.from+" before "+e.to+" is never inverted", c.P.Pos(instrPos(e.site)), !ok, detail)
	}
	if n == 0 {
		r.Check("C09.lockOrder", "module", "nested acquisitions exist", "-", true, "")
	}
}

var _ = callgraph.Edge{}

// ---------- nil consistency ----------

// c09NilConsistency: a pointer/interface field that some function of the package tests against nil (so it can be
// nil) is dereferenced in a network-reachable function only under such a test.
func c09NilConsistency(c *Ctx, fns []*ssa.Function) {
	r := c.R
	r.Rule("C09.nilConsistency", "a struct field that the package itself tests against nil somewhere is dereferenced (field access, interface method call) in a network-reachable function only where a dominating test established that it is not nil", 10)
	// fields believed nullable: compared with nil anywhere in the module
	nullable := map[*types.Var]bool{}
	for _, f := range c.moduleFuncs() {
		flow.Instrs(f, func(in ssa.Instruction) {
			bo, ok := in.(*ssa.BinOp)
			if !ok || (bo.Op != token.EQL && bo.Op != token.NEQ) {
				return
			}
			k, ok := bo.Y.(*ssa.Const)
			if !ok || k.Value != nil {
				return
			}
			if u, ok := bo.X.(*ssa.UnOp); ok {
				if fv := flow.FieldOf(u.X); fv != nil {
					nullable[fv] = true
				}
			}
		})
	}
	guarded := func(use ssa.Instruction, fv *types.Var, val ssa.Value) bool {
		for _, ft := range flow.FactsAtInstr(use) {
			bo, ok := ft.Cond.(*ssa.BinOp)
			if !ok {
				continue
			}
			k, ok := bo.Y.(*ssa.Const)
			if !ok || k.Value != nil {
				continue
			}
			same := bo.X == val
			if u, ok := bo.X.(*ssa.UnOp); ok && flow.FieldOf(u.X) == fv {
				same = true
			}
			if !same {
				continue
			}
			if (bo.Op == token.NEQ && ft.Pol) || (bo.Op == token.EQL && !ft.Pol) {
				return true
			}
		}
		return false
	}
	cg := c.P.CallGraph()
	var k keyed
	for _, f := range fns {
		flow.Instrs(f, func(in ssa.Instruction) {
			u, ok := in.(*ssa.UnOp)
			if !ok || u.Op != token.MUL {
				return
			}
			fv := flow.FieldOf(u.X)
			if fv == nil || !nullable[fv] {
				return
			}
			switch fv.Type().Underlying().(type) {
			case *types.Pointer, *types.Interface:
			default:
				return
			}
			for _, ref := range *u.Referrers() {
				deref := false
				what := ""
				switch x := ref.(type) {
				case *ssa.FieldAddr:
					if x.X == u {
						deref, what = true, "field access"
					}
				case *ssa.UnOp:
					if x.Op == token.MUL && x.X == u {
						deref, what = true, "dereference"
					}
				case ssa.CallInstruction:
					if x.Common().IsInvoke() && x.Common().Value == u {
						deref, what = true, "interface call "+x.Common().Method.Name()
					}
				}
				if !deref {
					continue
				}
				ok := guarded(ref, fv, u)
				if !ok {
					// helper reached only under the guard: every in-module caller's site is guarded
					if node := cg.Nodes[f]; node != nil && len(node.In) > 0 {
						all := true
						for _, e := range node.In {
							if e.Site == nil || !load.InModule(e.Caller.Func) {
								all = false
								break
							}
							if !guardedByField(e.Site, fv) {
								all = false
								break
							}
						}
						ok = all
					}
				}
				fn := load.ShortFunc(f)
				owner := flow.FieldOwner(u.X)
				r.Check("C09.nilConsistency", fn, k.name(fn, what+" through "+owner), c.P.Pos(instrPos(ref)), ok,
					owner+" is tested against nil elsewhere in the package (so it can be nil in some configuration), but here it is dereferenced with no dominating non-nil test: a frame that reaches this line in that configuration panics the receive goroutine")
			}
		})
	}
}

func guardedByField(site ssa.Instruction, fv *types.Var) bool {
	for _, ft := range flow.FactsAtInstr(site) {
		bo, ok := ft.Cond.(*ssa.BinOp)
		if !ok {
			continue
		}
		k, ok := bo.Y.(*ssa.Const)
		if !ok || k.Value != nil {
			continue
		}
		if u, ok := bo.X.(*ssa.UnOp); ok && flow.FieldOf(u.X) == fv {
			if (bo.Op == token.NEQ && ft.Pol) || (bo.Op == token.EQL && !ft.Pol) {
				return true
			}
		}
	}
	return false
}
