// Package engines holds one checker per property; each inspects /repo's current source through
// the type-checked program (and clang's AST for bpf/*.c) and records obligations in the report.
package engines

import (
	"bngvet/internal/cfront"
	"bngvet/internal/load"
	"bngvet/internal/report"
	"go/token"
	"sort"

	"golang.org/x/tools/go/ssa"
	"golang.org/x/tools/go/ssa/ssautil"
)

type Ctx struct {
	P     *load.Prog
	R     *report.Report
	Tier  string
	Repo  string
	Verif string

	modFuncs []*ssa.Function
	tus      []*cfront.TU
}

// NoGo lists properties whose checker only needs the C front end (the Go program is not loaded for them).
var NoGo = map[string]bool{}

// Registry maps property ids to their checkers.
var Registry = map[string]func(*Ctx){}

// fn resolves an anchor function; an unresolved anchor is an analysis failure (never a silent pass).
func (c *Ctx) fn(rel, recv, name string) *ssa.Function {
	f := c.P.SSAFunc(rel, recv, name)
	if f == nil || len(f.Blocks) == 0 {
		who := name
		if recv != "" {
			who = "(*" + recv + ")." + name
		}
		c.R.Fatalf("anchor unresolved: %s %s — the rule cannot be applied; re-anchor the checker", rel, who)
		return nil
	}
	c.R.Count("functions_analysed", 1)
	c.R.List("functions", load.ShortFunc(f))
	return f
}

// instrPos returns the position of an instruction, falling back to the nearest positioned instruction
// in its block (some SSA instructions carry no position).
func instrPos(in ssa.Instruction) token.Pos {
	if in.Pos().IsValid() {
		return in.Pos()
	}
	if v, ok := in.(ssa.Value); ok {
		for _, r := range *v.Referrers() {
			if r.Pos().IsValid() {
				return r.Pos()
			}
		}
	}
	b := in.Block()
	for _, x := range b.Instrs {
		if x.Pos().IsValid() {
			return x.Pos()
		}
	}
	return in.Parent().Pos()
}

// moduleFuncs returns every SSA function of the analysed module (sorted).
func (c *Ctx) moduleFuncs() []*ssa.Function {
	if c.modFuncs != nil {
		return c.modFuncs
	}
	for f := range ssautil.AllFunctions(c.P.SSA()) {
		if load.InModule(f) && len(f.Blocks) > 0 {
			c.modFuncs = append(c.modFuncs, f)
		}
	}
	sort.Slice(c.modFuncs, func(i, j int) bool { return c.modFuncs[i].String() < c.modFuncs[j].String() })
	return c.modFuncs
}
