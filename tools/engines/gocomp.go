package engines

import (
	"fmt"
	"go/constant"
	"go/token"
	"go/types"
	"strings"

	"bngvet/internal/load"

	"golang.org/x/tools/go/ssa"
)

// Byte-composition summaries of small pure Go helpers (MAC/IP -> integer key conversions): which byte of
// which parameter lands in which byte (LSB first) of the result.  Obtained by symbolically executing the
// SSA of the helper with concrete loop counters; nothing is run.

type gByte struct {
	root string // "" = constant zero byte
	idx  int64
}

func (b gByte) String() string {
	if b.root == "" {
		return "#0"
	}
	return fmt.Sprintf("%s[%d]", b.root, b.idx)
}

type gval struct {
	kind int // 0 unknown, 1 const, 2 comp, 3 slice, 4 ptr (to a byte of a slice), 5 len-of
	k    int64
	comp []gByte
	root string
	off  int64
	n    int64 // known length of a slice (-1 unknown)
	why  string
}

const (
	gUnknown = iota
	gConst
	gComp
	gSlice
	gPtr
	gLen
)

type gSummary struct {
	comp   []gByte // result composition on the main path(s)
	ok     bool
	why    string   // why no summary exists
	guards []string // input conditions under which a constant is returned instead (len<6, nil)
	lenDep bool     // the result depends on the input length beyond the guards
}

type gEval struct {
	c     *Ctx
	memo  map[*ssa.Function]*gSummary
	steps int
}

func newGEval(c *Ctx) *gEval { return &gEval{c: c, memo: map[*ssa.Function]*gSummary{}} }

func isByteSeq(t types.Type) bool {
	switch u := t.Underlying().(type) {
	case *types.Slice:
		b, ok := u.Elem().Underlying().(*types.Basic)
		return ok && b.Kind() == types.Uint8
	case *types.Array:
		b, ok := u.Elem().Underlying().(*types.Basic)
		return ok && b.Kind() == types.Uint8
	}
	return false
}

func intWidth(t types.Type) int64 {
	if b, ok := t.Underlying().(*types.Basic); ok {
		switch b.Kind() {
		case types.Int8, types.Uint8, types.Bool:
			return 1
		case types.Int16, types.Uint16:
			return 2
		case types.Int32, types.Uint32:
			return 4
		case types.Int64, types.Uint64, types.Int, types.Uint, types.Uintptr:
			return 8
		}
	}
	return 0
}

// summary symbolically executes f.
func (g *gEval) summary(f *ssa.Function) *gSummary {
	if s, ok := g.memo[f]; ok {
		if s == nil {
			return &gSummary{why: "recursive helper"}
		}
		return s
	}
	g.memo[f] = nil
	s := &gSummary{}
	if len(f.Blocks) == 0 {
		s.why = "no body"
		g.memo[f] = s
		return s
	}
	env := map[ssa.Value]gval{}
	for _, p := range f.Params {
		switch {
		case isByteSeq(p.Type()):
			n := int64(-1)
			if a, ok := p.Type().Underlying().(*types.Array); ok {
				n = a.Len()
			}
			env[p] = gval{kind: gSlice, root: p.Name(), n: n}
		case intWidth(p.Type()) > 0:
			w := intWidth(p.Type())
			v := gval{kind: gComp}
			for i := int64(0); i < w; i++ {
				v.comp = append(v.comp, gByte{p.Name(), i})
			}
			env[p] = v
		default:
			env[p] = gval{kind: gUnknown, why: "parameter " + p.Name()}
		}
	}
	type retT struct {
		v      gval
		guards []string
		lenDep bool
	}
	var rets []retT
	paths := 0
	var run func(b, pred *ssa.BasicBlock, env map[ssa.Value]gval, guards []string, lenDep bool, depth int)
	run = func(b, pred *ssa.BasicBlock, env map[ssa.Value]gval, guards []string, lenDep bool, depth int) {
		g.steps++
		if g.steps > 200000 || depth > 4000 || paths > 64 {
			s.why = "helper too large to summarise"
			return
		}
		// phis first (simultaneous)
		upd := map[ssa.Value]gval{}
		for _, in := range b.Instrs {
			phi, ok := in.(*ssa.Phi)
			if !ok {
				break
			}
			for i, p := range b.Preds {
				if p == pred {
					upd[phi] = g.val(phi.Edges[i], env)
				}
			}
		}
		for k, v := range upd {
			env[k] = v
		}
		for _, in := range b.Instrs {
			switch x := in.(type) {
			case *ssa.Phi:
			case *ssa.If:
				cv := g.val(x.Cond, env)
				if cv.kind == gConst {
					i := 1
					if cv.k != 0 {
						i = 0
					}
					run(b.Succs[i], b, env, guards, lenDep, depth+1)
					return
				}
				// unknown condition: both ways
				for i := 0; i < 2; i++ {
					e2 := make(map[ssa.Value]gval, len(env))
					for k, v := range env {
						e2[k] = v
					}
					gd := append(append([]string(nil), guards...), fmt.Sprintf("%s=%v", condText(x.Cond), i == 0))
					run(b.Succs[i], b, e2, gd, lenDep, depth+1)
				}
				return
			case *ssa.Jump:
				run(b.Succs[0], b, env, guards, lenDep, depth+1)
				return
			case *ssa.Return:
				paths++
				if len(x.Results) == 1 {
					rv := g.val(x.Results[0], env)
					if rv.kind == gSlice && strings.HasPrefix(rv.root, "local:") && rv.n > 0 {
						// a locally built byte array: materialise its contents
						lt := g.locals(env)
						comp := make([]gByte, rv.n)
						for i := int64(0); i < rv.n; i++ {
							if b, ok := lt[localCell{rv.root, rv.off + i}]; ok {
								comp[i] = b
							}
						}
						rv = gval{kind: gComp, comp: comp}
					}
					rets = append(rets, retT{rv, guards, lenDep})
				} else {
					rets = append(rets, retT{gval{why: "multiple results"}, guards, lenDep})
				}
				return
			case *ssa.Panic:
				return
			case ssa.Value:
				env[x] = g.eval(x, env)
			case *ssa.Store:
				// stores into local arrays: addr = ptr(root local, off)
				a := g.val(x.Addr, env)
				if a.kind == gPtr && strings.HasPrefix(a.root, "local:") {
					v := g.val(x.Val, env)
					key := localCell{a.root, a.off}
					if v.kind == gComp && len(v.comp) == 1 {
						g.setLocal(env, key, v.comp[0])
					} else if v.kind == gConst {
						g.setLocal(env, key, gByte{"", 0})
						if v.k != 0 {
							g.setLocal(env, key, gByte{fmt.Sprintf("const%d", v.k&0xff), 0})
						}
					} else {
						g.setLocal(env, key, gByte{"?", 0})
					}
				}
			}
		}
	}
	run(f.Blocks[0], nil, env, nil, false, 0)
	if s.why != "" {
		g.memo[f] = s
		return s
	}
	// main result: non-constant returns must agree; constant returns are guards
	var main *retT
	for i := range rets {
		r := &rets[i]
		if r.v.kind == gConst {
			s.guards = append(s.guards, strings.Join(r.guards, " ∧ "))
			continue
		}
		if r.v.kind != gComp {
			s.why = "a path returns a value whose bytes are not a composition of the input bytes (" + r.v.why + ")"
			g.memo[f] = s
			return s
		}
		if r.lenDep {
			s.lenDep = true
		}
		if main == nil {
			main = r
		} else if fmt.Sprint(main.v.comp) != fmt.Sprint(r.v.comp) {
			s.lenDep = true
			s.why = fmt.Sprintf("different inputs take different compositions: %v vs %v (under %s)", main.v.comp, r.v.comp, strings.Join(r.guards, " ∧ "))
		}
	}
	if main == nil {
		s.why = "no data-carrying return"
		g.memo[f] = s
		return s
	}
	s.comp = main.v.comp
	s.ok = s.why == ""
	g.memo[f] = s
	return s
}

type localCell struct {
	root string
	off  int64
}

func (g *gEval) setLocal(env map[ssa.Value]gval, k localCell, b gByte) {
	// locals are stored in a side table keyed by a pseudo value: keep them in the env under a synthetic key
	lt := g.locals(env)
	lt[k] = b
}

var localsKey = &ssa.Const{}

func (g *gEval) locals(env map[ssa.Value]gval) map[localCell]gByte {
	v, ok := env[localsKey]
	if !ok || v.why == "" {
		m := map[localCell]gByte{}
		localTables = append(localTables, m)
		env[localsKey] = gval{kind: gUnknown, why: fmt.Sprintf("locals#%d", len(localTables)-1)}
		return m
	}
	var i int
	fmt.Sscanf(v.why, "locals#%d", &i)
	return localTables[i]
}

var localTables []map[localCell]gByte

func condText(v ssa.Value) string {
	if b, ok := v.(*ssa.BinOp); ok {
		return fmt.Sprintf("%s %s %s", shortVal(b.X), b.Op, shortVal(b.Y))
	}
	return v.Name()
}

func shortVal(v ssa.Value) string {
	switch x := v.(type) {
	case *ssa.Const:
		if x.Value == nil {
			return "nil"
		}
		return x.Value.String()
	case *ssa.Call:
		if b, ok := x.Call.Value.(*ssa.Builtin); ok && len(x.Call.Args) > 0 {
			return b.Name() + "(" + shortVal(x.Call.Args[0]) + ")"
		}
	case *ssa.Parameter:
		return x.Name()
	}
	return v.Name()
}

func (g *gEval) val(v ssa.Value, env map[ssa.Value]gval) gval {
	if c, ok := v.(*ssa.Const); ok {
		if c.Value == nil {
			return gval{kind: gConst, k: 0}
		}
		switch c.Value.Kind() {
		case constant.Int:
			k, ok := constant.Int64Val(c.Value)
			if !ok {
				u, _ := constant.Uint64Val(c.Value)
				k = int64(u)
			}
			return gval{kind: gConst, k: k}
		case constant.Bool:
			if constant.BoolVal(c.Value) {
				return gval{kind: gConst, k: 1}
			}
			return gval{kind: gConst, k: 0}
		}
		return gval{why: "constant " + c.String()}
	}
	if r, ok := env[v]; ok {
		return r
	}
	return gval{why: "value " + v.Name() + " defined outside the executed path"}
}

func padG(c []gByte, w int64) []gByte {
	out := append([]gByte(nil), c...)
	for int64(len(out)) < w {
		out = append(out, gByte{})
	}
	return out[:w]
}

func constComp(k int64, w int64) []gByte {
	out := make([]gByte, w)
	for i := range out {
		b := (k >> (8 * uint(i))) & 0xff
		if b != 0 {
			out[i] = gByte{fmt.Sprintf("const%d", b), 0}
		}
	}
	return out
}

func (g *gEval) asComp(v gval, w int64) ([]gByte, bool) {
	switch v.kind {
	case gComp:
		return padG(v.comp, w), true
	case gConst:
		if v.k >= 0 {
			return constComp(v.k, w), true
		}
	}
	return nil, false
}

func (g *gEval) eval(v ssa.Value, env map[ssa.Value]gval) gval {
	switch x := v.(type) {
	case *ssa.Alloc:
		if isByteSeq(x.Type().(*types.Pointer).Elem()) {
			n := int64(-1)
			if a, ok := x.Type().(*types.Pointer).Elem().Underlying().(*types.Array); ok {
				n = a.Len()
			}
			return gval{kind: gPtr, root: "local:" + x.Name(), n: n}
		}
		return gval{why: "alloc"}
	case *ssa.ChangeType:
		return g.val(x.X, env)
	case *ssa.Convert:
		in := g.val(x.X, env)
		w := intWidth(x.Type())
		if w == 0 {
			if isByteSeq(x.Type()) {
				return in
			}
			return gval{why: "conversion to " + x.Type().String()}
		}
		switch in.kind {
		case gConst:
			return in
		case gComp:
			return gval{kind: gComp, comp: padG(in.comp, w)}
		}
		return in
	case *ssa.Slice:
		in := g.val(x.X, env)
		if in.kind != gSlice && in.kind != gPtr {
			return gval{why: "slice of unknown"}
		}
		out := gval{kind: gSlice, root: in.root, off: in.off, n: in.n}
		if x.Low != nil {
			lo := g.val(x.Low, env)
			if lo.kind != gConst {
				return gval{why: "slice with non-constant low bound"}
			}
			out.off += lo.k
			if out.n >= 0 {
				out.n -= lo.k
			}
		}
		if x.High != nil {
			hi := g.val(x.High, env)
			if hi.kind != gConst {
				return gval{why: "slice with non-constant high bound"}
			}
			lo := int64(0)
			if x.Low != nil {
				lo = g.val(x.Low, env).k
			}
			out.n = hi.k - lo
		}
		return out
	case *ssa.IndexAddr:
		base := g.val(x.X, env)
		idx := g.val(x.Index, env)
		if (base.kind == gSlice || base.kind == gPtr) && idx.kind == gConst {
			return gval{kind: gPtr, root: base.root, off: base.off + idx.k, n: -1}
		}
		return gval{why: "index with non-constant subscript"}
	case *ssa.UnOp:
		switch x.Op {
		case token.MUL:
			p := g.val(x.X, env)
			if p.kind == gPtr {
				if strings.HasPrefix(p.root, "local:") {
					if isByteSeq(x.Type()) {
						return gval{kind: gSlice, root: p.root, off: p.off, n: p.n}
					}
					if b, ok := g.locals(env)[localCell{p.root, p.off}]; ok {
						return gval{kind: gComp, comp: []gByte{b}}
					}
					return gval{kind: gComp, comp: []gByte{{}}}
				}
				if intWidth(x.Type()) == 1 {
					return gval{kind: gComp, comp: []gByte{{p.root, p.off}}}
				}
			}
			return gval{why: "load"}
		case token.NOT:
			in := g.val(x.X, env)
			if in.kind == gConst {
				return gval{kind: gConst, k: 1 - in.k}
			}
			return gval{why: in.why}
		}
		return gval{why: "unary " + x.Op.String()}
	case *ssa.BinOp:
		a, b := g.val(x.X, env), g.val(x.Y, env)
		w := intWidth(x.Type())
		if a.kind == gConst && b.kind == gConst {
			var r int64
			switch x.Op {
			case token.ADD:
				r = a.k + b.k
			case token.SUB:
				r = a.k - b.k
			case token.MUL:
				r = a.k * b.k
			case token.SHL:
				r = a.k << uint(b.k)
			case token.SHR:
				r = a.k >> uint(b.k)
			case token.AND:
				r = a.k & b.k
			case token.OR:
				r = a.k | b.k
			case token.LSS:
				r = b2i(a.k < b.k)
			case token.LEQ:
				r = b2i(a.k <= b.k)
			case token.GTR:
				r = b2i(a.k > b.k)
			case token.GEQ:
				r = b2i(a.k >= b.k)
			case token.EQL:
				r = b2i(a.k == b.k)
			case token.NEQ:
				r = b2i(a.k != b.k)
			default:
				return gval{why: "constant op " + x.Op.String()}
			}
			return gval{kind: gConst, k: r}
		}
		switch x.Op {
		case token.SHL, token.SHR:
			if b.kind == gConst && b.k%8 == 0 {
				if c, ok := g.asComp(a, w); ok {
					n := b.k / 8
					out := make([]gByte, w)
					for i := int64(0); i < w; i++ {
						var src int64
						if x.Op == token.SHL {
							src = i - n
						} else {
							src = i + n
						}
						if src >= 0 && src < w {
							out[i] = c[src]
						}
					}
					return gval{kind: gComp, comp: out}
				}
			}
		case token.OR, token.ADD, token.XOR:
			ca, oka := g.asComp(a, w)
			cb, okb := g.asComp(b, w)
			if oka && okb {
				out := make([]gByte, w)
				for i := range out {
					switch {
					case ca[i].root == "":
						out[i] = cb[i]
					case cb[i].root == "":
						out[i] = ca[i]
					default:
						return gval{why: "bytes overlap in " + x.Op.String()}
					}
				}
				return gval{kind: gComp, comp: out}
			}
		case token.AND:
			if b.kind == gConst {
				if c, ok := g.asComp(a, w); ok {
					out := make([]gByte, w)
					for i := range out {
						switch (b.k >> (8 * uint(i))) & 0xff {
						case 0xff:
							out[i] = c[i]
						case 0:
						default:
							if c[i].root != "" {
								return gval{why: "partial byte mask"}
							}
						}
					}
					return gval{kind: gComp, comp: out}
				}
			}
		case token.EQL, token.NEQ, token.LSS, token.LEQ, token.GTR, token.GEQ:
			why := "comparison on input"
			if a.kind == gLen || b.kind == gLen {
				why = "len(" + a.root + b.root + ")"
				return gval{kind: gLen, why: why}
			}
			return gval{why: why}
		}
		return gval{why: "operator " + x.Op.String() + " on non-composable values (" + a.why + b.why + ")"}
	case *ssa.Call:
		return g.call(x, env)
	case *ssa.MakeSlice:
		return gval{why: "make"}
	case *ssa.FieldAddr, *ssa.Field:
		return gval{why: "field"}
	}
	return gval{why: fmt.Sprintf("%T", v)}
}

func b2i(b bool) int64 {
	if b {
		return 1
	}
	return 0
}

func (g *gEval) call(x *ssa.Call, env map[ssa.Value]gval) gval {
	if b, ok := x.Call.Value.(*ssa.Builtin); ok {
		switch b.Name() {
		case "len":
			a := g.val(x.Call.Args[0], env)
			if (a.kind == gSlice || a.kind == gPtr) && a.n >= 0 {
				return gval{kind: gConst, k: a.n}
			}
			return gval{kind: gLen, root: a.root, why: "len(" + a.root + ")"}
		case "copy":
			d, s := g.val(x.Call.Args[0], env), g.val(x.Call.Args[1], env)
			if d.kind == gSlice && strings.HasPrefix(d.root, "local:") && s.kind == gSlice && d.n >= 0 {
				lt := g.locals(env)
				for i := int64(0); i < d.n; i++ {
					// byte i of the source when it exists, zero otherwise: zero-pad / truncate at d.n
					lt[localCell{d.root, d.off + i}] = gByte{s.root + "|0", s.off + i}
				}
				return gval{kind: gUnknown, why: "copy count"}
			}
			return gval{why: "copy"}
		}
		return gval{why: "builtin " + b.Name()}
	}
	callee := x.Call.StaticCallee()
	if callee == nil {
		return gval{why: "dynamic call"}
	}
	name := callee.Name()
	recv := ""
	if callee.Signature.Recv() != nil {
		recv = callee.Signature.Recv().Type().String()
	}
	args := x.Call.Args
	switch {
	case strings.HasSuffix(recv, "net.IP") && name == "To4":
		a := g.val(args[0], env)
		if a.kind == gSlice {
			root := a.root
			if !strings.HasPrefix(root, "ip4(") {
				root = "ip4(" + root + ")"
			}
			return gval{kind: gSlice, root: root, n: 4}
		}
		return a
	case strings.Contains(recv, "encoding/binary.") && (name == "Uint16" || name == "Uint32" || name == "Uint64"):
		w := map[string]int64{"Uint16": 2, "Uint32": 4, "Uint64": 8}[name]
		a := g.val(args[len(args)-1], env)
		if a.kind != gSlice {
			return gval{why: "binary decode of untracked bytes"}
		}
		out := make([]gByte, w)
		big := strings.Contains(strings.ToLower(recv), "bigendian")
		for i := int64(0); i < w; i++ {
			if big {
				out[w-1-i] = gByte{a.root, a.off + i}
			} else {
				out[i] = gByte{a.root, a.off + i}
			}
		}
		return gval{kind: gComp, comp: out}
	}
	if load.InModule(callee) {
		s := g.summary(callee)
		if !s.ok {
			return gval{why: "callee " + callee.Name() + ": " + s.why}
		}
		// substitute parameters
		sub := map[string]gval{}
		for i, p := range callee.Params {
			if i < len(args) {
				sub[p.Name()] = g.val(args[i], env)
			}
		}
		out := make([]gByte, len(s.comp))
		for i, b := range s.comp {
			if b.root == "" || strings.HasPrefix(b.root, "const") {
				out[i] = b
				continue
			}
			root, wrap := b.root, ""
			if strings.HasPrefix(root, "ip4(") {
				root, wrap = strings.TrimSuffix(strings.TrimPrefix(root, "ip4("), ")"), "ip4"
			}
			a, ok := sub[root]
			if !ok {
				return gval{why: "callee summary over unknown parameter"}
			}
			switch a.kind {
			case gSlice:
				r := a.root
				if wrap != "" && !strings.HasPrefix(r, "ip4(") {
					r = "ip4(" + r + ")"
				}
				out[i] = gByte{r, a.off + b.idx}
			case gComp:
				if b.idx < int64(len(a.comp)) {
					out[i] = a.comp[b.idx]
				}
			default:
				return gval{why: "callee argument not tracked"}
			}
		}
		return gval{kind: gComp, comp: out}
	}
	return gval{why: "call to " + callee.String()}
}
