package engines

import (
	"fmt"
	"go/token"
	"os"
	"strings"

	"bngvet/internal/flow"
	"bngvet/internal/load"

	"golang.org/x/tools/go/ssa"
)

// c05RefuseClean (C05.K8): a store write that is refused leaves no trace.  PoolAllocator rolls its bitmap back when
// SaveAllocation fails (K4); that only restores agreement when the refusing store did not file the record in any of
// its indexes first.  Decided on the CFG: no map update of a receiver index (directly or through a helper method of
// the same receiver) lies on a path to a return whose error result is not the nil constant.
func c05RefuseClean(c *Ctx) {
	r := c.R
	type spec struct{ rel, recv, name string }
	for _, sp := range []spec{{"pkg/allocator", "MemoryAllocationStore", "SaveAllocation"}} {
		f := c.fn(sp.rel, sp.recv, sp.name)
		if f == nil {
			r.Check("C05.K8.refuseClean", sp.recv+"."+sp.name, "anchor present", "", false, "function not found")
			continue
		}
		// methods of the same receiver that update one of its maps (depth 2)
		var writes func(g *ssa.Function, depth int) bool
		writes = func(g *ssa.Function, depth int) bool {
			if g == nil || depth > 2 || len(g.Blocks) == 0 {
				return false
			}
			found := false
			flow.Instrs(g, func(in ssa.Instruction) {
				switch x := in.(type) {
				case *ssa.MapUpdate:
					if strings.HasPrefix(flow.FieldOwner(x.Map), sp.recv+".") || strings.Contains(flow.FieldOwner(x.Map), "."+sp.recv+".") || indexedFromField(x.Map, sp.recv) {
						found = true
					}
				case ssa.CallInstruction:
					if h := x.Common().StaticCallee(); h != nil && flow.RecvTypeName(h) == sp.recv && writes(h, depth+1) {
						found = true
					}
					if bi, ok := x.Common().Value.(*ssa.Builtin); ok && bi.Name() == "delete" && len(x.Common().Args) > 0 && (strings.Contains(flow.FieldOwner(x.Common().Args[0]), sp.recv+".") || indexedFromField(x.Common().Args[0], sp.recv)) {
						found = true
					}
				}
			})
			return found
		}
		var ws []ssa.Instruction
		flow.Instrs(f, func(in ssa.Instruction) {
			switch x := in.(type) {
			case *ssa.MapUpdate:
				if strings.Contains(flow.FieldOwner(x.Map), sp.recv+".") || indexedFromField(x.Map, sp.recv) {
					ws = append(ws, in)
				}
			case ssa.CallInstruction:
				if h := x.Common().StaticCallee(); h != nil && flow.RecvTypeName(h) == sp.recv && writes(h, 1) {
					ws = append(ws, in)
				}
				if bi, ok := x.Common().Value.(*ssa.Builtin); ok && bi.Name() == "delete" && len(x.Common().Args) > 0 && (strings.Contains(flow.FieldOwner(x.Common().Args[0]), sp.recv+".") || indexedFromField(x.Common().Args[0], sp.recv)) {
					ws = append(ws, in)
				}
			}
		})
		nRefuse := 0
		bad := ""
		for _, b := range f.Blocks {
			if len(b.Instrs) == 0 {
				continue
			}
			ret, ok := b.Instrs[len(b.Instrs)-1].(*ssa.Return)
			if !ok || len(ret.Results) == 0 {
				continue
			}
			rv := flow.ReturnValues(ret)
			ev := rv[len(rv)-1]
			// targets: the return itself for a non-nil error value; for a φ, the end of each predecessor handing in a non-nil value
			var targets []ssa.Instruction
			if k, ok := ev.(*ssa.Const); ok && k.IsNil() {
				continue
			}
			if phi, ok := ev.(*ssa.Phi); ok && phi.Block() == b {
				for i, e := range phi.Edges {
					if k, ok := e.(*ssa.Const); ok && k.IsNil() {
						continue
					}
					p := b.Preds[i]
					targets = append(targets, p.Instrs[len(p.Instrs)-1])
				}
			} else {
				targets = append(targets, ret)
			}
			for _, t := range targets {
				nRefuse++
				for _, w := range ws {
					if w == t || flow.ReachableWithout(w, t, nil) {
						bad = "the index write at " + c.P.Pos(instrPos(w)) + " can precede the refusal at " + c.P.Pos(instrPos(t)) + ": the caller rolls its bitmap back, but the refused record stays filed in the store's indexes (utilisation over-counts; removing the phantom later evicts the legitimate holder's reverse entry)"
					}
				}
			}
		}
		r.Check("C05.K8.refuseClean", load.ShortFunc(f), "no index write on a path to an error return", c.P.Pos(f.Pos()), bad == "" && nRefuse > 0 && len(ws) > 0, bad+ifEmpty(bad, "no refusing return or no index write found in the function (rule would be vacuous)"))
	}
}

func ifEmpty(s, alt string) string {
	if s == "" {
		return alt
	}
	return ""
}

// indexedFromField: v is m[k] (an inner map) looked up in a map field of recv.
func indexedFromField(v ssa.Value, recv string) bool {
	switch x := v.(type) {
	case *ssa.Lookup:
		return strings.Contains(flow.FieldOwner(x.X), recv+".")
	case *ssa.Extract:
		if l, ok := x.Tuple.(*ssa.Lookup); ok {
			return strings.Contains(flow.FieldOwner(l.X), recv+".")
		}
	case *ssa.Phi:
		for _, e := range x.Edges {
			if indexedFromField(e, recv) {
				return true
			}
		}
	}
	return false
}

// c02NoPutBack (C02.A3, clause 5): quarantining a declined address never grows the free list.  Every append stored to
// Pool.available in MarkUnavailable, or in a method of Pool it calls (depth 2), is the removal idiom — both operands are
// slices of Pool.available itself; an append of anything else puts an address (back) into circulation from the
// quarantine path.
func c02NoPutBack(c *Ctx, f *ssa.Function) {
	fromAvail := func(v ssa.Value) bool {
		for i := 0; i < 6; i++ {
			switch x := v.(type) {
			case *ssa.Slice:
				v = x.X
				continue
			case *ssa.UnOp:
				return strings.HasSuffix(flow.FieldOwner(x.X), "Pool.available")
			case *ssa.Extract: // range over the field yields elements, not the list
				return false
			}
			break
		}
		return false
	}
	bad := ""
	n := 0
	seen := map[*ssa.Function]bool{}
	var visit func(g *ssa.Function, depth int)
	visit = func(g *ssa.Function, depth int) {
		if g == nil || seen[g] || depth > 2 || len(g.Blocks) == 0 {
			return
		}
		seen[g] = true
		flow.Instrs(g, func(in ssa.Instruction) {
			if st, ok := in.(*ssa.Store); ok && strings.HasSuffix(flow.FieldOwner(st.Addr), "Pool.available") {
				n++
				call, ok := st.Val.(*ssa.Call)
				if !ok {
					return // re-slicing / filtered copy: cannot add an element that was not there
				}
				if b, ok := call.Call.Value.(*ssa.Builtin); ok && b.Name() == "append" && len(call.Call.Args) == 2 {
					if !(fromAvail(call.Call.Args[0]) && fromAvail(call.Call.Args[1])) {
						bad = "the append at " + c.P.Pos(instrPos(in)) + " (in " + load.ShortFunc(g) + ") adds a value that is not a slice of the free list itself: the declined address re-enters Pool.available from the quarantine path and is offered again once the list drains to it"
					}
				}
			}
			if ci, ok := in.(ssa.CallInstruction); ok {
				if h := ci.Common().StaticCallee(); h != nil && flow.RecvTypeName(h) == "Pool" {
					visit(h, depth+1)
				}
			}
		})
	}
	visit(f, 0)
	c.R.Check("C02.A3.declineQuarantine", load.ShortFunc(f), "nothing is appended to the free list", c.P.Pos(f.Pos()), bad == "" && n > 0, bad+ifEmpty(bad, "no store to Pool.available found (rule would be vacuous)"))
}

// c12InnerMapKey (C12.P8): in the store's nested indexes an inner map is created under the key that was tested.
// `if m[k1] == nil { m[k2] = make(...) }` with k1 != k2 re-creates (and so empties) the inner map of k2 whenever k1 is
// absent: records restored or saved earlier under k2 vanish from that index.  For every MapUpdate installing a fresh
// map in a receiver field's map that is guarded by a nil test of a lookup in the same field, the two keys are computed
// the same way (same SSA value, or loads of the same field of the same base value).
func c12InnerMapKey(c *Ctx) {
	r := c.R
	n := 0
	for _, name := range []string{"SaveAllocation", "UnmarshalJSON"} {
		f := c.fn("pkg/allocator", "MemoryAllocationStore", name)
		if f == nil {
			r.Check("C12.P8.innerMapKey", "MemoryAllocationStore."+name, "anchor present", "", false, "function not found")
			continue
		}
		flow.Instrs(f, func(in ssa.Instruction) {
			mu, ok := in.(*ssa.MapUpdate)
			if !ok {
				return
			}
			if _, fresh := mu.Value.(*ssa.MakeMap); !fresh {
				return
			}
			field := flow.FieldOwner(mu.Map)
			if !strings.Contains(field, "MemoryAllocationStore.") {
				return
			}
			for _, ft := range flow.FactsAtInstr(in) {
				bo, ok := ft.Cond.(*ssa.BinOp)
				if !ok {
					continue
				}
				var lk *ssa.Lookup
				for _, side := range []ssa.Value{bo.X, bo.Y} {
					if l, ok := side.(*ssa.Lookup); ok && flow.FieldOwner(l.X) == field {
						lk = l
					}
				}
				if lk == nil {
					continue
				}
				n++
				if os.Getenv("BNGVET_DEBUG") != "" {
					println("P8", load.ShortFunc(f), flow.Shape(lk.Index), "|", flow.Shape(mu.Key))
				}
				same := lk.Index == mu.Key || keyID(lk.Index) == keyID(mu.Key)
				r.Check("C12.P8.innerMapKey", load.ShortFunc(f), "inner map of "+field+" created under the tested key", c.P.Pos(instrPos(in)), same,
					"the nil test looks up "+field+" under one key and the fresh inner map is installed under another: whenever the tested key is absent the inner map of the other key is replaced by an empty one, and the records filed there earlier disappear from this index (a restored store answers GetBySubscriber with one record of several)")
			}
		})
	}
	r.Check("C12.P8.innerMapKey", "MemoryAllocationStore", "guarded inner-map creations found", "", n >= 4, "fewer guarded inner-map creations than confirmed by hand (4): the rule would pass vacuously")
}

// keyID identifies a map key value: a load of field i of base b is "b.i" (two loads of one field compare equal, go/ssa
// has no CSE); anything else is identified by the value itself.
func keyID(v ssa.Value) string {
	if u, ok := v.(*ssa.UnOp); ok && u.Op == token.MUL {
		if fa, ok := u.X.(*ssa.FieldAddr); ok {
			return fmt.Sprintf("%p.%d", fa.X, fa.Field)
		}
	}
	if fl, ok := v.(*ssa.Field); ok {
		return fmt.Sprintf("%p.%d", fl.X, fl.Field)
	}
	return fmt.Sprintf("%p", v)
}

// c12SyncComparesPrefix (C12.P9): handleRemoteChange may skip applying an announced record because the subscriber is
// already known only where it has compared what the session allocator holds with what was announced.  Every return
// of the function that is conditional on a non-nil result of IPAllocator.Lookup (directly or through a helper that
// returns it) also carries a true equality fact over a value computed from that result; otherwise a remote move of a
// known subscriber is dropped and memory keeps the old address while the store has the new one.
func c12SyncComparesPrefix(c *Ctx) {
	r := c.R
	f := c.fn("pkg/allocator", "DistributedAllocator", "handleRemoteChange")
	if f == nil {
		r.Check("C12.P9.syncComparesPrefix", "DistributedAllocator.handleRemoteChange", "anchor present", "", false, "function not found")
		return
	}
	var fromLookup func(v ssa.Value, depth int) bool
	fromLookup = func(v ssa.Value, depth int) bool {
		if depth > 4 {
			return false
		}
		switch x := flow.Strip(v).(type) {
		case *ssa.Call:
			g := x.Call.StaticCallee()
			if g == nil {
				return false
			}
			if g.Name() == "Lookup" && flow.RecvTypeName(g) == "IPAllocator" {
				return true
			}
			if g.Pkg == f.Pkg && len(g.Blocks) > 0 {
				for _, b := range g.Blocks {
					if ret, ok := b.Instrs[len(b.Instrs)-1].(*ssa.Return); ok {
						for _, rv := range flow.ReturnValues(ret) {
							if fromLookup(rv, depth+1) {
								return true
							}
						}
					}
				}
			}
		case *ssa.Phi:
			for _, e := range x.Edges {
				if fromLookup(e, depth+1) {
					return true
				}
			}
		case *ssa.Extract:
			return fromLookup(x.Tuple, depth+1)
		}
		return false
	}
	var dependsOn func(v, target ssa.Value, depth int) bool
	dependsOn = func(v, target ssa.Value, depth int) bool {
		if v == target || flow.Strip(v) == target {
			return true
		}
		if depth > 5 {
			return false
		}
		in, ok := v.(ssa.Instruction)
		if !ok {
			return false
		}
		for _, op := range in.Operands(nil) {
			if *op != nil && dependsOn(*op, target, depth+1) {
				return true
			}
		}
		return false
	}
	isNil := func(v ssa.Value) bool { k, ok := v.(*ssa.Const); return ok && k.IsNil() }
	n := 0
	for _, b := range f.Blocks {
		if len(b.Instrs) == 0 {
			continue
		}
		ret, ok := b.Instrs[len(b.Instrs)-1].(*ssa.Return)
		if !ok || b == f.Recover {
			continue
		}
		facts := flow.FactsAt(b)
		var held ssa.Value
		for _, ft := range facts {
			bo, ok := ft.Cond.(*ssa.BinOp)
			if !ok {
				continue
			}
			nonNil := (bo.Op == token.NEQ && ft.Pol) || (bo.Op == token.EQL && !ft.Pol)
			if !nonNil {
				continue
			}
			if isNil(bo.Y) && fromLookup(bo.X, 0) {
				held = flow.Strip(bo.X)
			} else if isNil(bo.X) && fromLookup(bo.Y, 0) {
				held = flow.Strip(bo.Y)
			}
		}
		if held == nil {
			continue
		}
		n++
		compared := false
		for _, ft := range facts {
			bo, ok := ft.Cond.(*ssa.BinOp)
			if !ok || isNil(bo.X) || isNil(bo.Y) {
				continue
			}
			eq := (bo.Op == token.EQL && ft.Pol) || (bo.Op == token.NEQ && !ft.Pol)
			if eq && (dependsOn(bo.X, held, 0) || dependsOn(bo.Y, held, 0)) {
				compared = true
			}
		}
		// a call whose boolean result is the fact (e.g. bytes.Equal / IP.Equal on the held prefix)
		for _, ft := range facts {
			if call, ok := ft.Cond.(*ssa.Call); ok && ft.Pol && dependsOn(call, held, 0) {
				compared = true
			}
		}
		r.Check("C12.P9.syncComparesPrefix", load.ShortFunc(f), "'already known' return compares the held prefix with the announced one", c.P.Pos(instrPos(ret)), compared,
			"the announcement is dropped as soon as the subscriber has any address in the session allocator: a remote put that moves a known subscriber to another prefix is ignored, memory keeps the old address (the announced one stays free locally and can be handed to a second subscriber) while the store holds the new one")
	}
	set := false
	movable := true
	nilTest := func(ft flow.Fact) (nonNil, ok bool) {
		bo, isBin := ft.Cond.(*ssa.BinOp)
		if !isBin || !((isNil(bo.Y) && fromLookup(bo.X, 0)) || (isNil(bo.X) && fromLookup(bo.Y, 0))) {
			return false, false
		}
		return (bo.Op == token.NEQ && ft.Pol) || (bo.Op == token.EQL && !ft.Pol), true
	}
	for _, call := range flow.Calls(f) {
		if g := call.Common().StaticCallee(); g != nil && g.Name() == "SetAllocation" && flow.RecvTypeName(g) == "IPAllocator" {
			set = true
			// shape-independent form of the same clause: if the session Lookup result guards the apply at all, the apply
			// is reachable with a non-nil result (a known subscriber can be moved)
			guarded := flow.SomePathHas(call.Block(), func(ft flow.Fact) bool { _, ok := nilTest(ft); return ok })
			withHeld := flow.SomePathHas(call.Block(), func(ft flow.Fact) bool { nn, ok := nilTest(ft); return ok && nn })
			if guarded && !withHeld {
				movable = false
			}
		}
	}
	r.Check("C12.P9.syncComparesPrefix", load.ShortFunc(f), "SetAllocation reachable for a subscriber the session allocator already knows", c.P.Pos(f.Pos()), movable,
		"the announced record is applied only when the session allocator has nothing for the subscriber: a remote put that moves a known subscriber is never applied, memory and store keep disagreeing")
	r.Check("C12.P9.syncComparesPrefix", load.ShortFunc(f), "announced record applied with SetAllocation", c.P.Pos(f.Pos()), set, "handleRemoteChange no longer applies an announced record to the session allocator")
	if n == 0 {
		r.Note("C12.P9: handleRemoteChange has no return conditional on an existing session allocation (every announcement is applied)")
	}
}
