package engines

import (
	"fmt"
	"go/token"
	"sort"
	"strings"

	"bngvet/internal/cexec"
	"bngvet/internal/cfront"
	"bngvet/internal/flow"

	"golang.org/x/tools/go/ssa"
)

// bpfUnits are the kernel-side translation units of the repository (every bpf/*.c file; checked against the directory).
func (c *Ctx) bpfUnits() []*cfront.TU {
	if c.tus != nil {
		return c.tus
	}
	files, err := listBPF(c.Repo)
	if err != nil || len(files) == 0 {
		c.R.Fatalf("no bpf/*.c files found under %s: %v", c.Repo, err)
		return nil
	}
	for _, f := range files {
		tu, err := cfront.Parse(c.Repo, f)
		if err != nil {
			c.R.Fatalf("C front end failed on %s: %v", f, err)
			continue
		}
		c.tus = append(c.tus, tu)
		for _, l := range tu.RenameLog {
			c.R.List("c_renames_undone", l)
		}
		c.R.Count("c_units_parsed", 1)
		c.R.List("c_units", f)
	}
	return c.tus
}

// programs returns the entry functions (SEC-annotated, non-static functions with a body) of a unit, sorted.
func programs(tu *cfront.TU) []*cfront.Node {
	var out []*cfront.Node
	for _, f := range tu.Funcs {
		if tu.InRepo(f) && f.HasAttr("SectionAttr") {
			out = append(out, f)
		}
	}
	sort.Slice(out, func(i, j int) bool { return out[i].Name < out[j].Name })
	return out
}

// progKind: "xdp" or "tc" from the context parameter type.
func progKind(fn *cfront.Node) string {
	for _, p := range fn.Inner {
		if p.Kind == "ParmVarDecl" {
			switch {
			case strings.Contains(p.Type, "xdp_md"):
				return "xdp"
			case strings.Contains(p.Type, "__sk_buff"):
				return "tc"
			}
		}
	}
	return "?"
}

// runMerge interprets one program in Merge mode.
func runMerge(tu *cfront.TU, fn *cfront.Node) *cexec.Exec {
	x := cexec.New(tu, cexec.Merge)
	x.Run(fn)
	return x
}

// keyed makes position-free, collision-free construct names in source order.
type keyed struct{ seen map[string]int }

func (k *keyed) name(fn, s string) string {
	if k.seen == nil {
		k.seen = map[string]int{}
	}
	id := fn + "|" + s
	k.seen[id]++
	if n := k.seen[id]; n > 1 {
		return fmt.Sprintf("%s#%d", s, n)
	}
	return s
}

// guardOf renders the innermost enclosing if-condition of a statement (position-free naming of returns).
func guardOf(n *cfront.Node) string {
	child := n
	for p := n.Parent; p != nil; p = p.Parent {
		if p.Kind == "IfStmt" && p.Kid(0) != child {
			g := cfront.Render(p.Kid(0))
			if p.HasElse && p.Kid(2) == child {
				return "else of " + g
			}
			return "if " + g
		}
		if p.Kind == "FunctionDecl" {
			break
		}
		child = p
	}
	return "unconditional"
}

// successNeedsMapCall: on every CFG path of f from entry to a `return …, nil` (success), a call of one of
// methods on the *ebpf.Map field mapField is executed, unless the path took the `m.<mapField> == nil` branch.
// A same-package helper that is handed the map and itself satisfies the rule for that parameter counts as the call.
// Returns the position of an offending return.
func successNeedsMapCall(c *Ctx, f *ssa.Function, mapField string, methods ...string) (bool, string) {
	isField := func(v ssa.Value) bool {
		u, ok := v.(*ssa.UnOp)
		return ok && strings.HasSuffix(flow.FieldOwner(u.X), "."+mapField)
	}
	return mustCallOnSuccess(c, f, isField, methods, 0)
}

func mustCallOnSuccess(c *Ctx, f *ssa.Function, isMap func(ssa.Value) bool, methods []string, depth int) (bool, string) {
	if f == nil || len(f.Blocks) == 0 || depth > 2 {
		return false, "-"
	}
	isCall := func(in ssa.Instruction) bool {
		call, ok := in.(ssa.CallInstruction)
		if !ok {
			return false
		}
		for _, m := range methods {
			if flow.CalleeIs(call, "cilium/ebpf", "Map", m) && len(call.Common().Args) > 0 && isMap(call.Common().Args[0]) {
				return true
			}
		}
		// helper that receives the map (as receiver-less argument) and always makes the call
		if g := call.Common().StaticCallee(); g != nil && g.Pkg == f.Pkg && g != f {
			for i, a := range call.Common().Args {
				if !isMap(a) || i >= len(g.Params) {
					continue
				}
				p := g.Params[i]
				if ok, _ := mustCallOnSuccess(c, g, func(v ssa.Value) bool { return v == p }, methods, depth+1); ok {
					return true
				}
			}
			// helper method of the same receiver that reads the field itself
			if depth == 0 {
				if ok, _ := mustCallOnSuccess(c, g, isMap, methods, depth+1); ok && helperTouches(g, isMap) {
					return true
				}
			}
		}
		return false
	}
	nilEdge := func(b *ssa.BasicBlock, i int) bool {
		if len(b.Instrs) == 0 {
			return false
		}
		iff, ok := b.Instrs[len(b.Instrs)-1].(*ssa.If)
		if !ok {
			return false
		}
		bo, ok := iff.Cond.(*ssa.BinOp)
		if !ok || !isMap(bo.X) {
			return false
		}
		k, ok := bo.Y.(*ssa.Const)
		if !ok || k.Value != nil {
			return false
		}
		return (bo.Op == token.EQL && i == 0) || (bo.Op == token.NEQ && i == 1)
	}
	type key struct {
		b          *ssa.BasicBlock
		done, nil_ bool
	}
	seen := map[key]bool{}
	bad := ""
	var walk func(b *ssa.BasicBlock, done, isNil bool) bool
	walk = func(b *ssa.BasicBlock, done, isNil bool) bool {
		k := key{b, done, isNil}
		if seen[k] {
			return true
		}
		seen[k] = true
		for _, in := range b.Instrs {
			if isCall(in) {
				done = true
			}
			if ret, ok := in.(*ssa.Return); ok {
				n := len(ret.Results)
				if n == 0 {
					if !done && !isNil {
						bad = c.P.Pos(instrPos(ret))
						return false
					}
					return true
				}
				last := ret.Results[n-1]
				if kc, ok := last.(*ssa.Const); ok && kc.Value == nil {
					if !done && !isNil {
						bad = c.P.Pos(instrPos(ret))
						return false
					}
				}
				return true
			}
		}
		for i, s := range b.Succs {
			if !walk(s, done, isNil || nilEdge(b, i)) {
				return false
			}
		}
		return true
	}
	ok := walk(f.Blocks[0], false, false)
	return ok, bad
}

// helperTouches: the function contains a use of the map value at all (otherwise "always calls" would be vacuous).
func helperTouches(g *ssa.Function, isMap func(ssa.Value) bool) bool {
	found := false
	flow.Instrs(g, func(in ssa.Instruction) {
		for _, op := range in.Operands(nil) {
			if *op != nil && isMap(*op) {
				found = true
			}
		}
	})
	return found
}

// isErrTest: the fact is a nil test of an error value.
func isErrTest(ft flow.Fact) bool {
	bo, ok := ft.Cond.(*ssa.BinOp)
	if !ok {
		return false
	}
	if k, ok := bo.Y.(*ssa.Const); !ok || k.Value != nil {
		return false
	}
	return bo.X.Type().String() == "error"
}

// natom is a path atom in normal form: it HOLDS (the polarity is folded into the operator), a bare truth test
// `if (x)` is x != 0, so that `x == 0` / `!x`, `a >= b` / `!(a < b)` / `b <= a` are one fact however they are spelled.
type natom struct {
	Op     string
	L, R   string
	LC, RC *int64
	NAt    int // index of the atom in the path (for "established before this event" tests)
}

func normAtoms(atoms []cexec.Atom) []natom {
	neg := map[string]string{"==": "!=", "!=": "==", "<": ">=", ">=": "<", ">": "<=", "<=": ">"}
	var out []natom
	for i, a := range atoms {
		n := natom{Op: a.Op, L: a.L, R: a.R, LC: a.LC, RC: a.RC, NAt: i}
		if a.Op == "nz" {
			zero := int64(0)
			n.Op, n.R, n.RC = "!=", "0", &zero
		}
		if !a.Holds {
			o, ok := neg[n.Op]
			if !ok {
				continue
			}
			n.Op = o
		}
		out = append(out, n)
	}
	return out
}

// rel: does the atom establish `l op r` for operands accepted by isL/isR, in either orientation?
func (n natom) rel(op string, isL, isR func(s string, k *int64) bool) bool {
	mirror := map[string]string{"==": "==", "!=": "!=", "<": ">", ">": "<", "<=": ">=", ">=": "<="}
	if n.Op == op && isL(n.L, n.LC) && isR(n.R, n.RC) {
		return true
	}
	return mirror[n.Op] == op && isL(n.R, n.RC) && isR(n.L, n.LC)
}
