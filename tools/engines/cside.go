package engines

import (
	"fmt"
	"sort"
	"strings"

	"bngvet/internal/cexec"
	"bngvet/internal/cfront"
)

// bpfUnits are the kernel-side translation units of the repository (every bpf/*.c file; checked against the directory).
func (c *Ctx) bpfUnits() []*cfront.TU {
	if c.tus != nil {
		return c.tus
	}
	files, err := listBPF(c.Repo)
	if err != nil || len(files) == 0 {
		c.R.Fatalf("no bpf/*.c files found under %s: %v", c.Repo, err)
		return nil
	}
	for _, f := range files {
		tu, err := cfront.Parse(c.Repo, f)
		if err != nil {
			c.R.Fatalf("C front end failed on %s: %v", f, err)
			continue
		}
		c.tus = append(c.tus, tu)
		c.R.Count("c_units_parsed", 1)
		c.R.List("c_units", f)
	}
	return c.tus
}

// programs returns the entry functions (SEC-annotated, non-static functions with a body) of a unit, sorted.
func programs(tu *cfront.TU) []*cfront.Node {
	var out []*cfront.Node
	for _, f := range tu.Funcs {
		if tu.InRepo(f) && f.HasAttr("SectionAttr") {
			out = append(out, f)
		}
	}
	sort.Slice(out, func(i, j int) bool { return out[i].Name < out[j].Name })
	return out
}

// progKind: "xdp" or "tc" from the context parameter type.
func progKind(fn *cfront.Node) string {
	for _, p := range fn.Inner {
		if p.Kind == "ParmVarDecl" {
			switch {
			case strings.Contains(p.Type, "xdp_md"):
				return "xdp"
			case strings.Contains(p.Type, "__sk_buff"):
				return "tc"
			}
		}
	}
	return "?"
}

// runMerge interprets one program in Merge mode.
func runMerge(tu *cfront.TU, fn *cfront.Node) *cexec.Exec {
	x := cexec.New(tu, cexec.Merge)
	x.Run(fn)
	return x
}

// keyed makes position-free, collision-free construct names in source order.
type keyed struct{ seen map[string]int }

func (k *keyed) name(fn, s string) string {
	if k.seen == nil {
		k.seen = map[string]int{}
	}
	id := fn + "|" + s
	k.seen[id]++
	if n := k.seen[id]; n > 1 {
		return fmt.Sprintf("%s#%d", s, n)
	}
	return s
}

// guardOf renders the innermost enclosing if-condition of a statement (position-free naming of returns).
func guardOf(n *cfront.Node) string {
	child := n
	for p := n.Parent; p != nil; p = p.Parent {
		if p.Kind == "IfStmt" && p.Kid(0) != child {
			g := cfront.Render(p.Kid(0))
			if p.HasElse && p.Kid(2) == child {
				return "else of " + g
			}
			return "if " + g
		}
		if p.Kind == "FunctionDecl" {
			break
		}
		child = p
	}
	return "unconditional"
}
