package engines

import (
	"go/token"
	"strings"

	"bngvet/internal/flow"
	"bngvet/internal/load"

	"golang.org/x/tools/go/ssa"
)

// counting loops of a function: (init, bound) of every `for i := init; i < bound; i++`.
type cntLoop struct {
	phi         *ssa.Phi
	init, bound ssa.Value
}

func countingLoops(f *ssa.Function) []cntLoop {
	var out []cntLoop
	for _, b := range f.Blocks {
		for _, in := range b.Instrs {
			phi, ok := in.(*ssa.Phi)
			if !ok {
				break
			}
			var init ssa.Value
			step := false
			for _, e := range phi.Edges {
				if bo, ok := e.(*ssa.BinOp); ok && bo.Op == token.ADD && bo.X == phi {
					if k, ok := constInt(bo.Y); ok && k == 1 {
						step = true
						continue
					}
				}
				init = e
			}
			if !step || init == nil {
				continue
			}
			// exit test: phi < bound in the header
			for _, ref := range *phi.Referrers() {
				if bo, ok := ref.(*ssa.BinOp); ok && bo.Op == token.LSS && bo.X == phi {
					out = append(out, cntLoop{phi, init, bo.Y})
				}
			}
		}
	}
	return out
}

// c05Search (rule C05.K6): exhaustion is reported only after every index was examined.
func c05Search(c *Ctx) {
	r := c.R
	r.Rule("C05.K6.searchComplete", "a free-slot search that can report exhaustion examines every index whatever its start hint (a full counting loop, or a [hint,total) pass followed by a [0,hint) pass); a search that trusts the hint is acceptable only if every function that frees a slot lowers the hint", 2)
	n := 0
	for _, f := range c.moduleFuncs() {
		if f.Pkg == nil || !strings.HasSuffix(f.Pkg.Pkg.Path(), "pkg/allocator") || f.Signature.Recv() == nil {
			continue
		}
		// returns the exhaustion error?
		exh := false
		flow.Instrs(f, func(in ssa.Instruction) {
			if ret, ok := in.(*ssa.Return); ok {
				for _, rv := range flow.ReturnValues(ret) {
					if u, ok := rv.(*ssa.UnOp); ok {
						if g, ok := u.X.(*ssa.Global); ok && strings.Contains(g.Name(), "Exhausted") {
							exh = true
						}
					}
				}
			}
		})
		loops := countingLoops(f)
		if !exh || len(loops) == 0 {
			continue
		}
		n++
		recv := flow.RecvTypeName(f)
		total := func(v ssa.Value) bool {
			return dependsOnField(v, recv+".totalPrefixes", map[ssa.Value]bool{}) || dependsOnField(v, recv+".totalIPs", map[ssa.Value]bool{}) || dependsOnField(v, recv+".total", map[ssa.Value]bool{})
		}
		complete := false
		for _, l := range loops {
			if k, ok := constInt(l.init); ok && k == 0 && total(l.bound) {
				complete = true // full counting loop (index may be offset by the hint modulo the size)
			}
		}
		for _, a := range loops {
			for _, b := range loops {
				if k, ok := constInt(b.init); ok && k == 0 && total(a.bound) && a.init == b.bound {
					complete = true // [s,total) then [0,s)
				}
			}
		}
		fn := load.ShortFunc(f)
		if complete {
			r.Check("C05.K6.searchComplete", fn, "every index examined before exhaustion is reported", c.P.Pos(f.Pos()), true, "")
			continue
		}
		// hint-trusting search: every clear of a slot must lower the hint
		var missing []string
		for _, g := range c.moduleFuncs() {
			if g.Pkg != f.Pkg || flow.RecvTypeName(g) != recv {
				continue
			}
			clears, lowers := false, false
			for _, call := range flow.Calls(g) {
				if bigCallOnField(call, "SetBit", recv+".bitmap") {
					if k, ok := constInt(lastArg(call)); ok && k == 0 {
						clears = true
					}
				}
				if callee := call.Common().StaticCallee(); callee != nil && (callee.Name() == "SetUint64" || callee.Name() == "Set" || callee.Name() == "SetInt64") &&
					len(call.Common().Args) > 0 && strings.Contains(flow.FieldOwner(call.Common().Args[0]), "nextFree") {
					lowers = true
				}
			}
			flow.Instrs(g, func(in ssa.Instruction) {
				if st, ok := in.(*ssa.Store); ok && strings.Contains(flow.FieldOwner(st.Addr), "nextFree") {
					lowers = true
				}
			})
			if clears && !lowers {
				missing = append(missing, load.ShortFunc(g))
			}
		}
		r.Check("C05.K6.searchComplete", fn, "every index examined before exhaustion is reported", c.P.Pos(f.Pos()), len(missing) == 0,
			"the search starts at the hint and never looks below it, but "+strings.Join(missing, ", ")+" frees a slot without lowering the hint: that slot is never found again and the pool reports exhaustion while addresses are free")
	}
	if n == 0 {
		r.Check("C05.K6.searchComplete", "pkg/allocator", "a free-slot search exists", "-", false, "no function returning an exhaustion error after an index loop found")
	}
}

// c05Sweep (rule C05.K7): AdvanceEpoch judges expiry against the epoch it has just advanced to.
func c05Sweep(c *Ctx) { sweepAfterAdvance(c, "C05.K7.sweepAfterAdvance") }

// sweepAfterAdvance is shared by C05 (the slot is counted free while a mapping still points at it) and C01 (a second
// subscriber can take that slot: two holders of one address).
func sweepAfterAdvance(c *Ctx, ruleID string) {
	r := c.R
	r.Rule(ruleID, "AdvanceEpoch increments the epoch before it sweeps the subscriber maps: the sweep's expiry test reads the new epoch, so mappings of leases that expire with this advance are dropped now", 1)
	f := c.fn("pkg/allocator", "EpochBitmapAllocator", "AdvanceEpoch")
	if f == nil {
		return
	}
	var inc *ssa.Store
	var dels []ssa.Instruction
	flow.Instrs(f, func(in ssa.Instruction) {
		if st, ok := in.(*ssa.Store); ok && strings.HasSuffix(flow.FieldOwner(st.Addr), "EpochBitmapAllocator.currentEpoch") {
			inc = st
		}
		if call, ok := in.(*ssa.Call); ok {
			if b, ok := call.Call.Value.(*ssa.Builtin); ok && b.Name() == "delete" {
				dels = append(dels, call)
			}
		}
	})
	ok := inc != nil && len(dels) > 0
	for _, d := range dels {
		if inc == nil || !flow.InstrDominates(inc, d) {
			ok = false
		}
	}
	// and every threshold computation follows the increment too
	for _, call := range flow.Calls(f) {
		if g := call.Common().StaticCallee(); g != nil && g.Name() == "freeThreshold" {
			if inc == nil || !flow.InstrDominates(inc, call) {
				ok = false
			}
		}
	}
	r.Check(ruleID, load.ShortFunc(f), "currentEpoch++ precedes the sweep", c.P.Pos(f.Pos()), ok,
		"the sweep runs (or computes its threshold) before the epoch is advanced: the mapping of a lease that expires with this advance survives one more epoch while its slot is already free — a second subscriber can take the slot and both then hold the same address")
}
