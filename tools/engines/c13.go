package engines

import (
	"fmt"
	"go/token"
	"go/types"
	"sort"
	"strings"

	"bngvet/internal/esp"
	"bngvet/internal/flow"
	"bngvet/internal/load"

	"golang.org/x/tools/go/ssa"
)

func init() { Registry["C13"] = C13 }

func C13(c *Ctx) {
	r := c.R
	defer c13Fifo(c)
	const pkg = "pkg/ha"
	r.Explain = "Structural clauses of 'the standby converges to the active's table': the stream handler dispatches every declared message type and, for every well-formed message, reaches the per-session loop and applies add/update with PutSession and delete with DeleteSession (path-sensitive dataflow: no decoded change is dropped before it is applied); a full synchronisation reconciles the store with the snapshot (sessions absent from it are deleted); changes are applied synchronously in read order (no goroutine or channel hand-off on the standby) and the active stamps a sequence number before enqueueing into a single-consumer queue; a standby whose queue overflows is disconnected, not silently skipped; stream clients are registered under a key that is unique per connection.  The gap between full sync and stream attach, TCP/HTTP behaviour and all schedules are not decided."
	r.Rule("C13.S1.dispatch", "handleSSEData tests every declared SyncType constant; every well-formed message reaches the dispatch and, for add/update/delete/full, the per-session loop; add/update apply PutSession, delete applies DeleteSession, each with the message's own session", 8)
	r.Rule("C13.S2.snapshotReplaces", "performFullSync deletes from the store every session that is not in the received snapshot before/while applying it", 2)
	r.Rule("C13.S3.inOrder", "the standby applies stream messages synchronously in the order read (no go statement / channel send between the read loop and the store); the active takes the sequence number before enqueueing and one goroutine drains the queue", 5)
	r.Rule("C13.S4.noSilentDrop", "when a client's queue is full the client is recorded for disconnection (its channel closed and its registry entry removed), not merely logged", 2)
	r.Rule("C13.S5.clientKey", "the stream-client registry is keyed by the connection's remote address, not by data the peer chooses (headers, query)", 1)

	c13Snapshot(c)
	sp := c.P.SSAPkg(pkg)
	tn, _ := sp.Pkg.Scope().Lookup("HASyncer").(*types.TypeName)
	if tn == nil {
		r.Fatal("C13: HASyncer not found")
		return
	}
	// ---- S1
	if f := c.fn(pkg, "HASyncer", "handleSSEData"); f != nil {
		types_, _ := enumConsts(sp.Pkg, "SyncMessageType", "SyncType")
		spec := &esp.Spec{Recv: tn.Type().(*types.Named), Fields: map[string]bool{}}
		spec.Atom = func(cond ssa.Value) (string, []string, bool) {
			b, ok := cond.(*ssa.BinOp)
			if !ok {
				return "", nil, false
			}
			if (b.Op == token.EQL || b.Op == token.NEQ) && strings.HasSuffix(flow.FieldOwner(b.X), "SyncMessage.Type") {
				if k, ok := b.Y.(*ssa.Const); ok && k.Value != nil {
					return "type" + b.Op.String() + strings.Trim(k.Value.ExactString(), `"`), nil, true
				}
			}
			if (b.Op == token.EQL || b.Op == token.NEQ) && isNilConst(b.Y) && errOrigin(b.X) == "DecodeSyncMessage()" {
				return "decode-err" + b.Op.String() + "nil", nil, true
			}
			if b.Op == token.LSS {
				if v := lenOf(b.Y); v != nil && strings.HasSuffix(flow.FieldOwner(v), "SyncMessage.Sessions") {
					return "more-sessions", nil, true
				}
			}
			return "", nil, false
		}
		spec.MultiAction = func(call ssa.CallInstruction) []string {
			com := call.Common()
			if com.IsInvoke() && strings.HasSuffix(fieldOrigin(com.Value), "HASyncer.store") {
				src := "other"
				if len(com.Args) > 0 {
					a := com.Args[0]
					if al, ok := a.(*ssa.Alloc); ok { // &session where session := msg.Sessions[i]
						for _, rf := range *al.Referrers() {
							if st, ok := rf.(*ssa.Store); ok && st.Addr == ssa.Value(al) {
								if x, _ := elemOf(st.Val); x != nil && strings.HasSuffix(flow.FieldOwner(x), "SyncMessage.Sessions") {
									src = "msg-session"
								}
							}
						}
					}
					if fo := flow.FieldOwner(a); strings.HasSuffix(fo, "SessionState.SessionID") {
						src = "msg-session"
					}
				}
				return []string{"store:" + com.Method.Name() + ":" + src}
			}
			return nil
		}
		outs := spec.Run(f, nil)
		seenTypes := map[string]bool{}
		typeOf := func(atoms []string) string {
			for _, a := range atoms {
				if strings.HasPrefix(a, "type==") {
					return strings.TrimPrefix(a, "type==")
				}
			}
			return ""
		}
		for _, o := range outs {
			atoms, acts := o.AtomList(), o.ActList()
			for _, a := range atoms {
				if strings.HasPrefix(a, "type==") || strings.HasPrefix(a, "!type==") {
					seenTypes[strings.TrimPrefix(strings.TrimPrefix(a, "!"), "type==")] = true
				}
			}
			key := fmt.Sprintf("%v", atoms)
			if has(atoms, "decode-err!=nil") {
				r.Check("C13.S1.dispatch", load.ShortFunc(f), "malformed "+key, c.P.Pos(f.Pos()), !hasPrefix(acts, "store:"), "a message that failed to decode touches the store")
				continue
			}
			t := typeOf(atoms)
			decidedAny := false
			for _, a := range atoms {
				if strings.Contains(a, "type==") {
					decidedAny = true
				}
			}
			if !decidedAny {
				r.Check("C13.S1.dispatch", load.ShortFunc(f), "dispatch reached "+key, c.P.Pos(f.Pos()), false, "a well-formed message can leave the handler before the type dispatch: a change pushed by the active is dropped while the stream stays connected")
				continue
			}
			switch t {
			case "add", "update", "delete", "full":
				entered := has(atoms, "more-sessions") || has(atoms, "!more-sessions")
				ok := entered
				why := "a " + t + " message can leave the handler without reaching its per-session loop"
				if has(atoms, "more-sessions") {
					wantPut := t != "delete"
					put, del := has(acts, "store:PutSession:msg-session"), has(acts, "store:DeleteSession:msg-session")
					if wantPut && (!put || hasPrefix(acts, "store:DeleteSession")) {
						ok, why = false, "a "+t+" message with sessions does not PutSession the message's own session (or deletes): "+fmt.Sprint(acts)
					}
					if !wantPut && (!del || hasPrefix(acts, "store:PutSession")) {
						ok, why = false, "a delete message with sessions does not DeleteSession the message's own session id (or puts): "+fmt.Sprint(acts)
					}
				}
				r.Check("C13.S1.dispatch", load.ShortFunc(f), t+" "+key, c.P.Pos(f.Pos()), ok, why)
			default:
				r.Check("C13.S1.dispatch", load.ShortFunc(f), "type="+t+" "+key, c.P.Pos(f.Pos()), !hasPrefix(acts, "store:"), "a heartbeat/unknown message touches the store")
			}
		}
		var missing []string
		for v, name := range types_ {
			if name == "FullRequest" {
				continue // sent by the standby to the active (request direction); never arrives on the standby's stream
			}
			if !seenTypes[strings.Trim(v, `"`)] {
				missing = append(missing, name)
			}
		}
		sort.Strings(missing)
		r.Check("C13.S1.dispatch", load.ShortFunc(f), "every SyncType constant is dispatched", c.P.Pos(f.Pos()), len(missing) == 0 && len(types_) >= 5, "message types never tested by the handler: "+strings.Join(missing, ", "))
	}

	// ---- S2
	if f := c.fn(pkg, "HASyncer", "performFullSync"); f != nil {
		var del, list ssa.CallInstruction
		for _, call := range flow.Calls(f) {
			com := call.Common()
			if com.IsInvoke() && strings.HasSuffix(fieldOrigin(com.Value), "HASyncer.store") {
				switch com.Method.Name() {
				case "DeleteSession":
					del = call
				case "GetAllSessions":
					list = call
				}
			}
		}
		r.Check("C13.S2.snapshotReplaces", load.ShortFunc(f), "store is reconciled with the snapshot", c.P.Pos(f.Pos()), del != nil && list != nil,
			"the full synchronisation only adds/updates: a session the active deleted while the standby was away stays in the standby's store")
		if del != nil {
			miss := false
			for _, ft := range flow.FactsAtInstr(del) {
				if ex, ok := ft.Cond.(*ssa.Extract); ok && !ft.Pol {
					if lk, ok := ex.Tuple.(*ssa.Lookup); ok && lk.CommaOk {
						miss = true
					}
				}
			}
			r.Check("C13.S2.snapshotReplaces", load.ShortFunc(f), "only sessions absent from the snapshot are deleted", c.P.Pos(instrPos(del)), miss, "the delete during full sync is not conditional on the session being absent from the snapshot")
		}
	}

	// ---- S3
	if f := c.fn(pkg, "HASyncer", "connectToStream"); f != nil {
		sync := false
		for _, call := range flow.Calls(f) {
			if flow.CalleeIs(call, pkg, "HASyncer", "handleSSEData") {
				_, isGo := call.(*ssa.Go)
				sync = !isGo
			}
		}
		r.Check("C13.S3.inOrder", load.ShortFunc(f), "handleSSEData called synchronously from the read loop", c.P.Pos(f.Pos()), sync, "stream messages are handed to a goroutine: two changes to one session can be applied out of order")
	}
	if f := c.fn(pkg, "HASyncer", "handleSSEData"); f != nil {
		bad := ""
		for _, g := range flow.WithAnon(f) {
			flow.Instrs(g, func(in ssa.Instruction) {
				switch in.(type) {
				case *ssa.Go:
					bad = "go statement at " + c.P.Pos(instrPos(in))
				case *ssa.Send:
					bad = "channel send at " + c.P.Pos(instrPos(in))
				}
			})
		}
		r.Check("C13.S3.inOrder", load.ShortFunc(f), "no goroutine / channel hand-off while applying", c.P.Pos(f.Pos()), bad == "", "applying a message involves a "+bad)
	}
	if f := c.fn(pkg, "HASyncer", "PushChange"); f != nil {
		var seq, send ssa.Instruction
		flow.Instrs(f, func(in ssa.Instruction) {
			if call, ok := in.(*ssa.Call); ok && flow.CalleeIs(call, "sync/atomic", "", "AddUint64") {
				seq = in
			}
			if sel, ok := in.(*ssa.Select); ok {
				for _, st := range sel.States {
					if st.Dir == types.SendOnly {
						send = in
					}
				}
			}
			if _, ok := in.(*ssa.Send); ok {
				send = in
			}
		})
		r.Check("C13.S3.inOrder", load.ShortFunc(f), "sequence number taken before enqueue", c.P.Pos(f.Pos()), seq != nil && send != nil && flow.InstrDominates(seq, send), "a change is enqueued without (or before) taking its sequence number")
	}
	// a single drain goroutine
	if f := c.fn(pkg, "HASyncer", "startActive"); f != nil {
		n := 0
		for _, g := range c.moduleFuncs() {
			flow.Instrs(g, func(in ssa.Instruction) {
				if gi, ok := in.(*ssa.Go); ok && flow.CalleeIs(gi, pkg, "HASyncer", "broadcastLoop") {
					n++
				}
			})
		}
		r.Check("C13.S3.inOrder", load.ShortFunc(f), "one broadcast goroutine", c.P.Pos(f.Pos()), n == 1, fmt.Sprintf("%d goroutines drain the change queue: two consumers reorder changes", n))
	}
	// the drain goroutine sends queue elements in receive order
	if f := c.fn(pkg, "HASyncer", "broadcastLoop"); f != nil {
		ok := false
		for _, call := range flow.Calls(f) {
			if flow.CalleeIs(call, pkg, "HASyncer", "broadcastToClients") {
				if _, isGo := call.(*ssa.Go); !isGo {
					ok = true
				}
			}
		}
		r.Check("C13.S3.inOrder", load.ShortFunc(f), "broadcastToClients called synchronously", c.P.Pos(f.Pos()), ok, "the broadcast of a dequeued change is handed to a goroutine")
	}

	// ---- S4
	if f := c.fn(pkg, "HASyncer", "broadcastToClients"); f != nil {
		var sel *ssa.Select
		flow.Instrs(f, func(in ssa.Instruction) {
			if s, ok := in.(*ssa.Select); ok && !s.Blocking {
				sel = s
			}
		})
		okSel := sel != nil
		r.Check("C13.S4.noSilentDrop", load.ShortFunc(f), "non-blocking send per client", c.P.Pos(f.Pos()), okSel, "no non-blocking send found")
		hasClose, hasDelete := false, false
		for _, call := range flow.Calls(f) {
			com := call.Common()
			if b, ok := com.Value.(*ssa.Builtin); ok {
				if b.Name() == "close" {
					if strings.HasSuffix(indexOwner(com.Args[0]), "HASyncer.sseClients") || strings.HasSuffix(flow.FieldOwner(com.Args[0]), "sseClients") {
						hasClose = true
					} else if ex, ok := com.Args[0].(*ssa.Extract); ok {
						if lk, ok := ex.Tuple.(*ssa.Lookup); ok && strings.HasSuffix(flow.FieldOwner(lk.X), "HASyncer.sseClients") {
							hasClose = true
						}
					}
				}
				if b.Name() == "delete" && strings.HasSuffix(flow.FieldOwner(com.Args[0]), "HASyncer.sseClients") {
					hasDelete = true
				}
			}
		}
		// the default (queue full) branch records the client: an append or the close itself in the block(s) reached when index == default
		recorded := false
		if sel != nil {
			for _, rf := range *sel.Referrers() {
				ex, ok := rf.(*ssa.Extract)
				if !ok || ex.Index != 0 {
					continue
				}
				for _, r2 := range *ex.Referrers() {
					bo, ok := r2.(*ssa.BinOp)
					if !ok {
						continue
					}
					for _, r3 := range *bo.Referrers() {
						iff, ok := r3.(*ssa.If)
						if !ok {
							continue
						}
						// the branch taken when the send case did NOT fire
						def := iff.Block().Succs[1]
						if bo.Op == token.NEQ {
							def = iff.Block().Succs[0]
						}
						for _, in := range def.Instrs {
							if call, ok := in.(*ssa.Call); ok {
								if b, ok := call.Call.Value.(*ssa.Builtin); ok && (b.Name() == "append" || b.Name() == "close") {
									recorded = true
								}
							}
						}
					}
				}
			}
		}
		r.Check("C13.S4.noSilentDrop", load.ShortFunc(f), "a full queue disconnects the client", c.P.Pos(f.Pos()), recorded && hasClose && hasDelete,
			"when a standby's queue is full the message is dropped and the stream stays up: that standby misses the change for good (it must be disconnected so that it reconnects through a full synchronisation)")
	}

	// ---- S5
	if f := c.fn(pkg, "HASyncer", "handleSessionStream"); f != nil {
		n := 0
		flow.Instrs(f, func(in ssa.Instruction) {
			mu, ok := in.(*ssa.MapUpdate)
			if !ok || !strings.HasSuffix(flow.FieldOwner(mu.Map), "HASyncer.sseClients") {
				return
			}
			n++
			ok2 := strings.HasSuffix(flow.FieldOwner(throughCell(mu.Key)), "Request.RemoteAddr")
			r.Check("C13.S5.clientKey", load.ShortFunc(f), "sseClients key is r.RemoteAddr", c.P.Pos(instrPos(mu)), ok2,
				"the stream client is registered under a key the peer controls or that is shared by its reconnections: a new stream overwrites the old entry and the old handler's deferred delete then removes the new stream's entry (it stays connected but receives nothing)")
		})
		if n == 0 {
			r.Check("C13.S5.clientKey", load.ShortFunc(f), "registration", c.P.Pos(f.Pos()), false, "no registration of the stream client found")
		}
	}
}

// throughCell: when v is a load of a local cell (a variable captured by a closure) with a single store, the stored value.
func throughCell(v ssa.Value) ssa.Value {
	ld, ok := v.(*ssa.UnOp)
	if !ok || ld.Op != token.MUL {
		return v
	}
	al, ok := ld.X.(*ssa.Alloc)
	if !ok {
		return v
	}
	var src ssa.Value
	n := 0
	for _, rf := range *al.Referrers() {
		if st, ok := rf.(*ssa.Store); ok && st.Addr == ssa.Value(al) {
			n++
			src = st.Val
		}
	}
	if n == 1 {
		return src
	}
	return v
}
