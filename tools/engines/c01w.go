package engines

import (
	"go/token"
	"go/types"
	"strings"

	"bngvet/internal/flow"
	"bngvet/internal/load"

	"golang.org/x/tools/go/ssa"
)

// c01Witness checks, for each pool implementation, that the value bound to a subscriber was taken from the free set.
func c01Witness(c *Ctx) {
	r := c.R
	// ---- free-list pools: the stored value is available[0] and available is re-sliced past it before the function returns
	for _, sp := range []struct{ rel, typ, owner, free string }{
		{"pkg/dhcp", "Pool", "allocated", "available"},
		{"pkg/dhcpv6", "AddressPool", "allocated", "available"},
		{"pkg/dhcpv6", "PrefixPool", "allocated", "available"},
		{"pkg/pppoe", "IPPool", "allocated", "available"},
		{"pkg/pool", "LocalPool", "allocations", "available"},
	} {
		pk := c.P.SSAPkg(sp.rel)
		tn, _ := pk.Pkg.Scope().Lookup(sp.typ).(*types.TypeName)
		if tn == nil {
			r.Fatalf("C01.witness: %s.%s not found", sp.rel, sp.typ)
			continue
		}
		named := tn.Type().(*types.Named)
		n := 0
		for _, f := range c.moduleFuncs() {
			ins, _ := mapOps(f, named, sp.owner)
			for _, in := range ins {
				mu := in.(*ssa.MapUpdate)
				if _, fresh := mu.Map.(*ssa.UnOp).X.(*ssa.FieldAddr).X.(*ssa.Alloc); fresh {
					continue
				}
				n++
				// value = *(&free[0]) with free loaded from the same object's free-list field
				popped := false
				val := mu.Value
				if ld, ok := val.(*ssa.UnOp); ok && ld.Op == token.MUL {
					if ia, ok := ld.X.(*ssa.IndexAddr); ok {
						if k, ok := constInt(ia.Index); ok && k == 0 && strings.HasSuffix(flow.FieldOwner(ia.X), sp.typ+"."+sp.free) {
							popped = true
						}
					}
				}
				// and the list is advanced: a store free = free[1:] on every path from the read to the exit
				advanced := false
				if popped {
					advanced, _ = flow.MustPassThrough(mu, func(x ssa.Instruction) bool { return isPopStore(x, sp.typ+"."+sp.free) }, nil)
					if !advanced {
						// or it already happened before the bind
						flow.Instrs(f, func(x ssa.Instruction) {
							if isPopStore(x, sp.typ+"."+sp.free) && flow.InstrDominates(x, mu) {
								advanced = true
							}
						})
					}
				}
				r.Check("C01.witness", load.ShortFunc(f), "bind "+sp.typ+"."+sp.owner+" <- head of "+sp.free, c.P.Pos(instrPos(in)), popped && advanced,
					"the value bound to the subscriber is not the head of the free list removed from it in the same critical section")
			}
		}
		if n == 0 {
			r.Check("C01.witness", sp.typ, "binds", "-", false, "no bind found for "+sp.typ)
		}
	}
	// ---- bitmap allocator: index comes from findFreeIndex (which returns i only under Bit(i)==0) or the bind is
	// dominated by the failure of `Bit(index) == 1`
	if f := c.P.SSAFunc("pkg/allocator", "IPAllocator", "findFreeIndex"); f != nil { // optional: the search may be written out in Allocate
		ok := true
		n := 0
		for _, b := range f.Blocks {
			ret, isRet := b.Instrs[len(b.Instrs)-1].(*ssa.Return)
			if !isRet || b == f.Recover || len(ret.Results) != 2 || !isNilConst(ret.Results[1]) {
				continue
			}
			n++
			good := false
			for _, ft := range flow.FactsAt(b) {
				if bo, isB := ft.Cond.(*ssa.BinOp); isB && bo.Op == token.EQL && ft.Pol {
					if call, isC := bo.X.(*ssa.Call); isC {
						if g := call.Call.StaticCallee(); g != nil && g.Name() == "Bit" {
							if k, isK := constInt(bo.Y); isK && k == 0 && sameIndex(call.Call.Args[len(call.Call.Args)-1], ret.Results[0]) {
								good = true
							}
						}
					}
				}
			}
			if !good {
				ok = false
			}
		}
		r.Check("C01.witness", load.ShortFunc(f), "returns i only when Bit(i)==0", c.P.Pos(f.Pos()), ok && n > 0, "findFreeIndex can return an index whose bit was not tested to be clear")
	}
	for _, name := range []string{"Allocate", "AllocateSpecific"} {
		f := c.fn("pkg/allocator", "IPAllocator", name)
		if f == nil {
			continue
		}
		tn := c.P.SSAPkg("pkg/allocator").Pkg.Scope().Lookup("IPAllocator").(*types.TypeName)
		ins, _ := mapOps(f, tn.Type().(*types.Named), "allocated")
		for _, in := range ins {
			mu := in.(*ssa.MapUpdate)
			ok := false
			// from findFreeIndex
			if ex, isEx := mu.Value.(*ssa.Extract); isEx {
				if call, isC := ex.Tuple.(*ssa.Call); isC {
					if g := call.Call.StaticCallee(); g != nil && g.Name() == "findFreeIndex" {
						ok = true
					}
				}
			}
			// or dominated by !(Bit(index)==1)
			for _, ft := range flow.FactsAtInstr(in) {
				if bo, isB := ft.Cond.(*ssa.BinOp); isB && bo.Op == token.EQL && !ft.Pol {
					if call, isC := bo.X.(*ssa.Call); isC {
						if g := call.Call.StaticCallee(); g != nil && g.Name() == "Bit" {
							if k, isK := constInt(bo.Y); isK && k == 1 {
								ok = true
							}
						}
					}
				}
			}
			// or every path to the bind has tested this very index to be clear (the search written out in place)
			if !ok && bitClearOnEveryPath(in, mu.Value) {
				ok = true
			}
			// and the bit is set on the way
			set := false
			flow.Instrs(f, func(x ssa.Instruction) {
				if call, isC := x.(*ssa.Call); isC {
					if g := call.Call.StaticCallee(); g != nil && g.Name() == "SetBit" {
						if k, isK := constInt(call.Call.Args[len(call.Call.Args)-1]); isK && k == 1 && (flow.InstrDominates(call, in) || flow.InstrDominates(in, call)) {
							set = true
						}
					}
				}
			})
			r.Check("C01.witness", load.ShortFunc(f), "bind after bit test, bit set", c.P.Pos(instrPos(in)), ok && set, "a prefix index is bound without a clear-bit witness or without setting its bit")
		}
	}
	// ---- epoch allocator: bind dominated by isGenerationFree(getGeneration(idx)) and followed/preceded by setGeneration(idx, current)
	if f := c.fn("pkg/allocator", "EpochBitmapAllocator", "Allocate"); f != nil {
		tn := c.P.SSAPkg("pkg/allocator").Pkg.Scope().Lookup("EpochBitmapAllocator").(*types.TypeName)
		ins, _ := mapOps(f, tn.Type().(*types.Named), "subscribers")
		for _, in := range ins {
			free := false
			for _, ft := range flow.FactsAtInstr(in) {
				if call, isC := ft.Cond.(*ssa.Call); isC && ft.Pol {
					if g := call.Call.StaticCallee(); g != nil && g.Name() == "isGenerationFree" {
						free = true
					}
				}
			}
			stamped := false
			flow.Instrs(f, func(x ssa.Instruction) {
				if call, isC := x.(*ssa.Call); isC {
					if g := call.Call.StaticCallee(); g != nil && g.Name() == "setGeneration" && (flow.InstrDominates(call, in) || flow.InstrDominates(in, call)) && call.Block() == in.Block() {
						stamped = true
					}
				}
			})
			r.Check("C01.witness", load.ShortFunc(f), "bind after generation-free test, generation stamped", c.P.Pos(instrPos(in)), free && stamped, "a slot is bound without the generation-free witness or without stamping the current generation")
		}
		if len(ins) == 0 {
			r.Check("C01.witness", load.ShortFunc(f), "bind", c.P.Pos(f.Pos()), false, "no bind found")
		}
	}
	// the epoch sweep: stale owner mappings are removed on every epoch advance (the owner map must never outlive the slot's freeness)
	if f := c.fn("pkg/allocator", "EpochBitmapAllocator", "AdvanceEpoch"); f != nil {
		var rng ssa.Instruction
		flow.Instrs(f, func(x ssa.Instruction) {
			if rg, ok := x.(*ssa.Range); ok && strings.HasSuffix(flow.FieldOwner(rg.X), "EpochBitmapAllocator.subscribers") {
				rng = x
			}
		})
		ok := rng != nil
		why := "AdvanceEpoch does not sweep the subscriber map"
		if ok {
			for _, b := range f.Blocks {
				if _, isRet := b.Instrs[len(b.Instrs)-1].(*ssa.Return); isRet && b != f.Recover && !(rng.Block() == b || rng.Block().Dominates(b)) {
					ok, why = false, "the sweep of expired owner mappings is skipped on some path of AdvanceEpoch: a slot can become free (by generation) while its old owner is still mapped to it, and the next taker then shares the address"
				}
			}
		}
		r.Check("C01.witness", load.ShortFunc(f), "expired owner mappings swept on every advance", c.P.Pos(f.Pos()), ok, why)
		// inside the sweep both maps are deleted under nothing but the generation-free test
		tn := c.P.SSAPkg("pkg/allocator").Pkg.Scope().Lookup("EpochBitmapAllocator").(*types.TypeName)
		_, dels := mapOps(f, tn.Type().(*types.Named), "subscribers")
		for _, d := range dels {
			pure := true
			sawFree := false
			for _, ft := range flow.FactsAtInstr(d) {
				if call, isC := ft.Cond.(*ssa.Call); isC {
					if g := call.Call.StaticCallee(); g != nil && g.Name() == "isGenerationFree" && ft.Pol {
						sawFree = true
						continue
					}
				}
				if _, isNext := ft.Cond.(*ssa.Extract); isNext {
					continue // range loop condition
				}
				pure = false
			}
			r.Check("C01.witness", load.ShortFunc(f), "sweep guarded only by the generation-free test", c.P.Pos(instrPos(d)), pure && sawFree, "the removal of an expired owner mapping is subject to an extra condition")
		}
	}
	// ---- hash-based central allocation has no witness at all
	if f := c.fn("pkg/nexus", "Client", "allocateFromPool"); f != nil {
		witness := false
		for _, call := range flow.Calls(f) {
			if g := call.Common().StaticCallee(); g != nil {
				n := strings.ToLower(g.Name())
				if strings.Contains(n, "inuse") || strings.Contains(n, "isallocated") || strings.Contains(n, "lookupbyip") || strings.Contains(n, "byip") {
					witness = true
				}
			}
		}
		r.Check("C01.witness", load.ShortFunc(f), "collision check on the hashed address", c.P.Pos(f.Pos()), witness, "the address is hash(subscriber) mod hosts with no check that another subscriber already holds it: two subscribers whose ids collide modulo the pool size are assigned the same address")
	}
}

func isPopStore(x ssa.Instruction, field string) bool {
	st, ok := x.(*ssa.Store)
	if !ok || !strings.HasSuffix(flow.FieldOwner(st.Addr), field) {
		return false
	}
	sl, ok := st.Val.(*ssa.Slice)
	if !ok || sl.Low == nil {
		return false
	}
	k, ok := constInt(sl.Low)
	return ok && k == 1 && strings.HasSuffix(flow.FieldOwner(sl.X), field)
}

// sameIndex: the two values are the same SSA value up to integer conversions.
// bitClearOnEveryPath: every feasible path to `at` has tested Bit(idx) to be clear, where idx is followed back
// through φs (so a search loop that leaves its result in a local counts, as findFreeIndex's return value does).
func bitClearOnEveryPath(at ssa.Instruction, idx ssa.Value) bool {
	for {
		switch x := idx.(type) {
		case *ssa.Convert:
			idx = x.X
			continue
		case *ssa.ChangeType:
			idx = x.X
			continue
		}
		break
	}
	ok, _ := flow.EveryPathHasFor(at.Block(), idx, func(ft flow.Fact, vals []ssa.Value) bool {
		bo, isB := ft.Cond.(*ssa.BinOp)
		if !isB {
			return false
		}
		call, isC := bo.X.(*ssa.Call)
		if !isC {
			return false
		}
		g := call.Call.StaticCallee()
		k, isK := constInt(bo.Y)
		if g == nil || g.Name() != "Bit" || !isK {
			return false
		}
		clear := (bo.Op == token.EQL && ((k == 0 && ft.Pol) || (k == 1 && !ft.Pol))) || (bo.Op == token.NEQ && ((k == 0 && !ft.Pol) || (k == 1 && ft.Pol)))
		if !clear {
			return false
		}
		arg := call.Call.Args[len(call.Call.Args)-1]
		for _, v := range vals {
			if sameIndex(arg, v) {
				return true
			}
		}
		return false
	})
	return ok
}

func sameIndex(a, b ssa.Value) bool {
	strip := func(v ssa.Value) ssa.Value {
		for {
			switch x := v.(type) {
			case *ssa.Convert:
				v = x.X
			case *ssa.ChangeType:
				v = x.X
			default:
				return v
			}
		}
	}
	return strip(a) == strip(b)
}
