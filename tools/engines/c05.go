package engines

import (
	"fmt"
	"go/token"
	"go/types"
	"strings"

	"bngvet/internal/esp"
	"bngvet/internal/flow"
	"bngvet/internal/load"
	"bngvet/internal/locks"

	"golang.org/x/tools/go/ssa"
)

func init() { Registry["C05"] = C05 }

func C05(c *Ctx) {
	r := c.R
	r.Explain = "Structural clauses of 'pools neither leak nor miscount': the bitmap allocator's counter changes exactly where a bit flips (under a clear/set witness); list pools report len() of their live structures; a release puts back exactly the value it removed from the owner map, once; an in-memory acquire followed by a failing store write is rolled back and a release removes the store record before freeing memory; lease tables that record an expiry time have a reaper that reads it.  The 2-bit generation wrap, grace-period arithmetic and float utilisation are numeric and not decided."
	r.Rule("C05.K1.counter", "IPAllocator.allocatedCount is incremented only together with a 0->1 bit flip (clear-bit witness) and decremented only together with a 1->0 flip (set-bit / membership witness), on every path", 8)
	r.Rule("C05.K2.statsFromLen", "list-based pools derive allocated/available/total from len() of the live structures, not from separately maintained counters", 4)
	r.Rule("C05.K3.putBack", "a release appends to the free list exactly the value it removed from the owner map, in the same critical section and only when the key was found", 5)
	r.Rule("C05.K4.rollback", "an in-memory acquire followed by a failing store write is released again on that path; a release removes the store record first (store failure leaves memory untouched)", 5)
	r.Rule("C05.K5.reaper", "every lease table that stamps an expiry time has a reader of that stamp reachable from the owner's Start (otherwise an unrenewed lease is never reclaimed)", 2)
	c05Counter(c)
	c05Stats(c)
	c05PutBack(c)
	c05Rollback(c, "C05.K4.rollback")
	c05Reaper(c)
	c05Search(c)
	c05Sweep(c)
	r.Rule("C05.K8.refuseClean", "a store write that is refused (non-nil error return of MemoryAllocationStore.SaveAllocation) has filed nothing in the store's indexes on that path", 1)
	c05RefuseClean(c)
}

func bigCallOnField(call ssa.CallInstruction, method, field string) bool {
	g := call.Common().StaticCallee()
	if g == nil || g.Name() != method || g.Pkg == nil || g.Pkg.Pkg.Path() != "math/big" {
		return false
	}
	return strings.HasSuffix(flow.FieldOwner(call.Common().Args[0]), field)
}

func bitWitness(in ssa.Instruction, want int64) bool {
	for _, ft := range flow.FactsAtInstr(in) {
		bo, ok := ft.Cond.(*ssa.BinOp)
		if !ok || bo.Op != token.EQL {
			continue
		}
		call, ok := bo.X.(*ssa.Call)
		if !ok {
			continue
		}
		if g := call.Call.StaticCallee(); g == nil || g.Name() != "Bit" {
			continue
		}
		k, ok := constInt(bo.Y)
		if !ok {
			continue
		}
		// Bit()==k true, or Bit()==(1-k) false
		if (k == want && ft.Pol) || (k == 1-want && !ft.Pol) {
			return true
		}
	}
	return false
}

func c05Counter(c *Ctx) {
	r := c.R
	n := 0
	for _, f := range c.moduleFuncs() {
		if flow.RecvTypeName(f) != "IPAllocator" || f.Name() == "UnmarshalJSON" {
			continue
		}
		for _, call := range flow.Calls(f) {
			switch {
			case bigCallOnField(call, "Add", "IPAllocator.allocatedCount"):
				n++
				// witness: clear bit, or the index came from findFreeIndex
				ok := bitWitness(call, 0)
				fromFree := false
				setHere := false
				for _, other := range flow.Calls(f) {
					if g := other.Common().StaticCallee(); g != nil && g.Name() == "findFreeIndex" && flow.InstrDominates(other, call) {
						fromFree = true
					}
					if g := other.Common().StaticCallee(); g != nil && g.Name() == "SetBit" && bigRecvField(other, "IPAllocator.bitmap") {
						if k, isK := constInt(lastArg(other)); isK && k == 1 {
							if through, _ := flow.MustPassThrough(call, func(x ssa.Instruction) bool { return x == other.(ssa.Instruction) }, nil); through || flow.InstrDominates(other, call) && other.Block() == call.Block() {
								setHere = true
								// the index whose bit is set was tested clear on every path (search written out in place)
								if args := other.Common().Args; len(args) >= 2 && !ok && bitClearOnEveryPath(call, args[len(args)-2]) {
									ok = true
								}
							}
						}
					}
				}
				r.Check("C05.K1.counter", load.ShortFunc(f), "allocatedCount++ with a 0->1 bit flip", c.P.Pos(instrPos(call)), (ok || fromFree) && setHere,
					"the allocated counter is incremented on a path that does not establish that the slot's bit was clear (or does not set it): re-applying a record miscounts")
			case bigCallOnField(call, "Sub", "IPAllocator.allocatedCount"):
				n++
				ok := bitWitness(call, 1)
				for _, ft := range flow.FactsAtInstr(call) {
					if name, _, isG := guardName(ft.Cond); isG && ft.Pol && (name == "found(IPAllocator.allocated)" || name == "found(IPAllocator.indexToSubscriber)") {
						ok = true
					}
				}
				clr := false
				for _, other := range flow.Calls(f) {
					if g := other.Common().StaticCallee(); g != nil && g.Name() == "SetBit" && bigRecvField(other, "IPAllocator.bitmap") {
						if k, isK := constInt(lastArg(other)); isK && k == 0 && (other.Block() == call.Block() || flow.InstrDominates(other, call) || flow.InstrDominates(call, other)) {
							clr = true
						}
					}
				}
				r.Check("C05.K1.counter", load.ShortFunc(f), "allocatedCount-- with a 1->0 bit flip", c.P.Pos(instrPos(call)), ok && clr,
					"the allocated counter is decremented without a membership/set-bit witness or without clearing the bit")
			}
		}
		// every SetBit(...,1)/(...,0) on the bitmap is accompanied by the counter change
		for _, call := range flow.Calls(f) {
			g := call.Common().StaticCallee()
			if g == nil || g.Name() != "SetBit" || !bigRecvField(call, "IPAllocator.bitmap") {
				continue
			}
			k, _ := constInt(lastArg(call))
			method := "Add"
			if k == 0 {
				method = "Sub"
			}
			n++
			found := false
			for _, other := range flow.Calls(f) {
				if bigCallOnField(other, method, "IPAllocator.allocatedCount") {
					through, _ := flow.MustPassThrough(call, func(x ssa.Instruction) bool { return x == other.(ssa.Instruction) }, nil)
					if through || (flow.InstrDominates(other, call) && sameRegion(other, call)) {
						found = true
					}
				}
			}
			// SetBit(idx,1) where the bit may already be set (re-apply): the counter change is conditional on the clear-bit test
			if !found && k == 1 {
				for _, other := range flow.Calls(f) {
					if bigCallOnField(other, "Add", "IPAllocator.allocatedCount") && bitWitness(other, 0) && flow.InstrDominates(other.Block().Idom().Instrs[0], call) {
						found = true
					}
				}
			}
			r.Check("C05.K1.counter", load.ShortFunc(f), fmt.Sprintf("SetBit(...,%d) accompanied by allocatedCount.%s", k, method), c.P.Pos(instrPos(call)), found,
				"a bitmap bit is flipped on a path on which the allocated counter is not adjusted")
		}
	}
	if n == 0 {
		r.Fatal("C05.K1: no counter operations found on IPAllocator — anchors moved")
	}
}

func lastArg(call ssa.CallInstruction) ssa.Value {
	a := call.Common().Args
	return a[len(a)-1]
}

func bigRecvField(call ssa.CallInstruction, field string) bool {
	return strings.HasSuffix(flow.FieldOwner(call.Common().Args[0]), field)
}

// sameRegion: a dominates b and every path from a to the function exit passes b (they execute together).
func sameRegion(a, b ssa.Instruction) bool {
	through, _ := flow.MustPassThrough(a, func(x ssa.Instruction) bool { return x == b }, nil)
	return through
}

func c05Stats(c *Ctx) {
	r := c.R
	type spec struct {
		rel, recv, fn string
		want          map[string]string // result field -> field whose len() it must be built from
	}
	for _, sp := range []spec{
		{"pkg/dhcp", "Pool", "Stats", map[string]string{"Allocated": "Pool.allocated", "Available": "Pool.available", "Unavailable": "Pool.unavailable"}},
	} {
		f := c.fn(sp.rel, sp.recv, sp.fn)
		if f == nil {
			continue
		}
		got := map[string]string{}
		flow.Instrs(f, func(in ssa.Instruction) {
			st, ok := in.(*ssa.Store)
			if !ok {
				return
			}
			fa, ok := st.Addr.(*ssa.FieldAddr)
			if !ok {
				return
			}
			name := fieldVarName(fa)
			if v := lenOf(st.Val); v != nil {
				got[name] = flow.FieldOwner(v)
			} else if bo, ok := st.Val.(*ssa.BinOp); ok && bo.Op == token.ADD {
				a, b := lenOf(bo.X), lenOf(bo.Y)
				if a != nil && b != nil {
					got[name] = flow.FieldOwner(a) + "+" + flow.FieldOwner(b)
				}
			}
		})
		for field, want := range sp.want {
			r.Check("C05.K2.statsFromLen", load.ShortFunc(f), field+" = len("+want+")", c.P.Pos(f.Pos()), got[field] == want, fmt.Sprintf("Stats().%s is computed from %q, want len(%s)", field, got[field], want))
		}
		tot := got["Total"]
		r.Check("C05.K2.statsFromLen", load.ShortFunc(f), "Total = len(available)+len(allocated)", c.P.Pos(f.Pos()), tot == "Pool.available+Pool.allocated" || tot == "Pool.allocated+Pool.available", "Stats().Total is computed from "+tot)
	}
	// the list pools keep no separately maintained usage counter
	for _, t := range []struct{ rel, typ string }{{"pkg/dhcp", "Pool"}, {"pkg/dhcpv6", "AddressPool"}, {"pkg/dhcpv6", "PrefixPool"}, {"pkg/pppoe", "IPPool"}, {"pkg/pool", "LocalPool"}} {
		pk := c.P.SSAPkg(t.rel)
		tn, _ := pk.Pkg.Scope().Lookup(t.typ).(*types.TypeName)
		if tn == nil {
			r.Fatalf("C05.K2: %s.%s not found", t.rel, t.typ)
			continue
		}
		st := tn.Type().Underlying().(*types.Struct)
		bad := ""
		for i := 0; i < st.NumFields(); i++ {
			fl := st.Field(i)
			if b, ok := fl.Type().Underlying().(*types.Basic); ok && b.Info()&types.IsInteger != 0 {
				n := strings.ToLower(fl.Name())
				if strings.Contains(n, "count") || strings.Contains(n, "used") || strings.Contains(n, "numalloc") {
					bad = fl.Name()
				}
			}
		}
		r.Check("C05.K2.statsFromLen", t.typ, "no separate usage counter", "-", bad == "", "field "+bad+" duplicates what len() of the live structures already says and can drift from it")
	}
}

func c05PutBack(c *Ctx) {
	r := c.R
	for _, sp := range []struct{ rel, typ, owner, free string }{
		{"pkg/dhcp", "Pool", "allocated", "available"},
		{"pkg/dhcpv6", "AddressPool", "allocated", "available"},
		{"pkg/dhcpv6", "PrefixPool", "allocated", "available"},
		{"pkg/pppoe", "IPPool", "allocated", "available"},
		{"pkg/pool", "LocalPool", "allocations", "available"},
	} {
		pk := c.P.SSAPkg(sp.rel)
		tn, _ := pk.Pkg.Scope().Lookup(sp.typ).(*types.TypeName)
		if tn == nil {
			r.Fatalf("C05.K3: %s.%s not found", sp.rel, sp.typ)
			continue
		}
		named := tn.Type().(*types.Named)
		n := 0
		for _, f := range c.moduleFuncs() {
			_, dels := mapOps(f, named, sp.owner)
			if len(dels) == 0 {
				continue
			}
			// a function that records the value in a quarantine set (declined addresses) takes it out of circulation on purpose
			if q, _ := mapOps(f, named, "unavailable"); len(q) > 0 {
				c.R.Note("C05.K3: " + load.ShortFunc(f) + " quarantines the value (inserts into the unavailable set) instead of putting it back")
				continue
			}
			for _, d := range dels {
				n++
				// an append to the free list executed with the delete
				var app *ssa.Call
				flow.Instrs(f, func(in ssa.Instruction) {
					call, ok := in.(*ssa.Call)
					if !ok {
						return
					}
					if b, ok := call.Call.Value.(*ssa.Builtin); ok && b.Name() == "append" && strings.HasSuffix(flow.FieldOwner(call.Call.Args[0]), sp.typ+"."+sp.free) {
						if sameRegion(d, call) || (flow.InstrDominates(call, d) && sameRegion(call, d)) {
							app = call
						}
					}
				})
				ok := app != nil
				why := "the key is removed from " + sp.typ + "." + sp.owner + " without the value being appended to " + sp.free + " on that path: the address leaves circulation"
				if ok {
					elem := appendedElem(app)
					good := false
					// the appended value is what the owner map held under that key…
					switch x := elem.(type) {
					case *ssa.Extract:
						if lk, isLk := x.Tuple.(*ssa.Lookup); isLk && strings.HasSuffix(flow.FieldOwner(lk.X), sp.typ+"."+sp.owner) {
							good = true
						}
						if _, isNext := x.Tuple.(*ssa.Next); isNext {
							good = true
						}
					case *ssa.Lookup:
						good = strings.HasSuffix(flow.FieldOwner(x.X), sp.typ+"."+sp.owner)
					}
					// …or a value proven equal to it
					if !good {
						for _, ft := range flow.FactsAtInstr(app) {
							if call, isC := ft.Cond.(*ssa.Call); isC && ft.Pol {
								if g := call.Call.StaticCallee(); g != nil && g.Name() == "Equal" {
									for _, a := range call.Call.Args {
										if a == elem {
											good = true
										}
									}
								}
							}
						}
					}
					if !good {
						ok, why = false, "the value put back on the free list is not the value removed from the owner map"
					}
					// only when the key was found (second release is a no-op)
					foundFact := false
					for _, ft := range flow.FactsAtInstr(app) {
						if name, _, isG := guardName(ft.Cond); isG && ft.Pol && name == "found("+sp.typ+"."+sp.owner+")" {
							foundFact = true
						}
						if call, isC := ft.Cond.(*ssa.Call); isC && ft.Pol {
							if g := call.Call.StaticCallee(); g != nil && g.Name() == "Equal" {
								foundFact = true
							}
						}
					}
					if good && !foundFact {
						ok, why = false, "the free-list append is not conditional on the key having been found: releasing twice duplicates the address in the free list"
					}
				}
				r.Check("C05.K3.putBack", load.ShortFunc(f), "delete from "+sp.typ+"."+sp.owner+" puts the value back", c.P.Pos(instrPos(d)), ok, why)
			}
		}
		if n == 0 {
			r.Check("C05.K3.putBack", sp.typ, "release", "-", false, "no function removes entries from "+sp.typ+"."+sp.owner+": addresses are never returned")
		}
	}
}

func c05Rollback(c *Ctx, ruleID string) {
	r := c.R
	type spec struct {
		rel, recv, fn string
		acquire       callPred
		release       callPred
		write         callPred
		writeName     string
	}
	// the store operation is the wrapper method or, when written out, the interface call on the store field
	storeInvoke := func(method string) callPred {
		return func(call ssa.CallInstruction) bool {
			com := call.Common()
			return com.IsInvoke() && com.Method.Name() == method && strings.HasSuffix(flow.FieldOwner(com.Value), "DistributedAllocator.store")
		}
	}
	daSave := anyOf(callTo("pkg/allocator", "DistributedAllocator", "saveAllocation"), storeInvoke("Put"))
	daDel := anyOf(callTo("pkg/allocator", "DistributedAllocator", "deleteAllocation"), storeInvoke("Delete"))
	memAcq := anyOf(callTo("pkg/allocator", "IPAllocator", "Allocate"), callTo("pkg/allocator", "EpochBitmapAllocator", "Allocate"))
	memRel := anyOf(callTo("pkg/allocator", "IPAllocator", "Release"), callTo("pkg/allocator", "EpochBitmapAllocator", "Release"))
	for _, sp := range []spec{
		{"pkg/allocator", "DistributedAllocator", "Allocate", memAcq, memRel, daSave, "saveAllocation()"},
		{"pkg/allocator", "DistributedAllocator", "AllocateWithMAC", memAcq, memRel, daSave, "saveAllocation()"},
		{"pkg/allocator", "PoolAllocator", "AllocateWithOptions", memAcq, memRel, invokeOf("SaveAllocation"), "SaveAllocation()"},
	} {
		f := c.fn(sp.rel, sp.recv, sp.fn)
		if f == nil {
			continue
		}
		tn := c.P.SSAPkg(sp.rel).Pkg.Scope().Lookup(sp.recv).(*types.TypeName)
		es := &esp.Spec{Recv: tn.Type().(*types.Named), Fields: map[string]bool{}, Atom: func(cond ssa.Value) (string, []string, bool) {
			b, ok := cond.(*ssa.BinOp)
			if !ok || !isNilConst(b.Y) || (b.Op != token.NEQ && b.Op != token.EQL) {
				return "", nil, false
			}
			if n := errOriginAny(b.X); n != "" {
				return n + b.Op.String() + "nil", nil, true
			}
			return "", nil, false
		}}
		es.MultiAction = func(call ssa.CallInstruction) []string {
			var out []string
			if sp.acquire(call) {
				out = append(out, "acquire")
			}
			if sp.release(call) {
				out = append(out, "release")
			}
			if sp.write(call) {
				out = append(out, "write")
			}
			return out
		}
		bad := ""
		n := 0
		for _, o := range es.Run(f, nil) {
			acts, atoms := o.ActList(), o.AtomList()
			if !has(acts, "acquire") || !has(acts, "write") {
				continue
			}
			failed := has(atoms, sp.writeName+"!=nil") || has(atoms, "!"+sp.writeName+"==nil")
			if sp.writeName == "saveAllocation()" {
				failed = failed || has(atoms, "Put()!=nil") || has(atoms, "!Put()==nil")
			}
			if failed {
				n++
				if !has(acts, "release") {
					bad = fmt.Sprintf("path %v does %v", atoms, acts)
				}
			}
		}
		r.Check(ruleID, load.ShortFunc(f), "failed store write releases the in-memory allocation", c.P.Pos(f.Pos()), n > 0 && bad == "", "after a failed "+sp.writeName+" the address stays allocated in memory but not in the store: "+bad)
	}
	// release: the store record is removed before memory is freed
	for _, sp := range []struct {
		rel, recv, fn string
		del           callPred
		delName       string
	}{
		{"pkg/allocator", "DistributedAllocator", "Release", daDel, "deleteAllocation()"},
		{"pkg/allocator", "PoolAllocator", "Release", invokeOf("RemoveAllocation"), "RemoveAllocation()"},
	} {
		f := c.fn(sp.rel, sp.recv, sp.fn)
		if f == nil {
			continue
		}
		var dels []ssa.CallInstruction
		for _, call := range flow.Calls(f) {
			if sp.del(call) {
				dels = append(dels, call)
			}
		}
		ok := len(dels) > 0
		why := "no store delete found"
		for _, call := range flow.Calls(f) {
			if !memRel(call) {
				continue
			}
			// either this release is the 'nothing allocated' error path (dominated by Lookup()==nil), or a successful store delete dominates it
			witness := func(ft flow.Fact) bool {
				dom := false
				if bo, isB := ft.Cond.(*ssa.BinOp); isB && isNilConst(bo.Y) {
					n := errOriginAny(bo.X)
					if (n == sp.delName || (sp.delName == "deleteAllocation()" && n == "Delete()")) && ((bo.Op == token.NEQ && !ft.Pol) || (bo.Op == token.EQL && ft.Pol)) {
						dom = true
					}
					if n == "Lookup()" && ((bo.Op == token.EQL && ft.Pol) || (bo.Op == token.NEQ && !ft.Pol)) {
						dom = true
					}
				}
				return dom
			}
			// on every path to the release (the two cases may share one return site)
			dom := false
			for _, ft := range flow.FactsAtInstr(call) {
				if witness(ft) {
					dom = true
				}
			}
			if !dom {
				dom, _ = flow.EveryPathHas(call.Block(), witness)
			}
			if !dom {
				ok, why = false, "the in-memory slot is freed at "+c.P.Pos(instrPos(call))+" before the store record is known to be gone: a failing store delete leaves memory (free) and store (allocated) in disagreement"
			}
		}
		r.Check(ruleID, load.ShortFunc(f), "store delete succeeds before memory is freed", c.P.Pos(f.Pos()), ok, why)
	}
	// the store operation and the in-memory operation of one logical allocate/release form one critical section of the
	// distributed allocator (otherwise a concurrent caller interleaves between them and memory and store diverge)
	for _, name := range []string{"Allocate", "AllocateWithMAC", "Release", "Renew"} {
		f := c.fn("pkg/allocator", "DistributedAllocator", name)
		if f == nil {
			continue
		}
		ok, why := true, ""
		n := 0
		for _, fn := range append([]*ssa.Function{f}, staticCalleesIn(f, "DistributedAllocator")...) {
			h := locks.Analyze(fn)
			for _, call := range flow.Calls(fn) {
				g := call.Common().StaticCallee()
				isStore := (g != nil && (g.Name() == "saveAllocation" || g.Name() == "deleteAllocation") && flow.RecvTypeName(g) == "DistributedAllocator") || storeInvoke("Put")(call) || storeInvoke("Delete")(call)
				isMem := memAcq(call) || memRel(call) || callTo("pkg/allocator", "EpochBitmapAllocator", "Renew")(call)
				if !isStore && !isMem {
					continue
				}
				n++
				held := false
				for _, hl := range h.HeldAt(call) {
					if hl.Lock.Path == "mu" && hl.Mode == locks.Write {
						held = true
					}
				}
				if fn != f {
					// helper: covered when every call of it in f is under the lock
					held = true
					hf := locks.Analyze(f)
					for _, cc := range flow.Calls(f) {
						if cc.Common().StaticCallee() == fn {
							hh := false
							for _, hl := range hf.HeldAt(cc) {
								if hl.Lock.Path == "mu" && hl.Mode == locks.Write {
									hh = true
								}
							}
							if !hh {
								held = false
							}
						}
					}
				}
				if !held {
					ok, why = false, "the call at "+c.P.Pos(instrPos(call))+" runs outside the allocator's write lock: the store and memory halves of one operation can be interleaved with another caller's"
				}
			}
		}
		r.Check(ruleID, load.ShortFunc(f), "store and memory halves under one lock hold", c.P.Pos(f.Pos()), ok && n >= 2, why)
	}
}

// staticCalleesIn: same-receiver helper methods called (directly) by f.
func staticCalleesIn(f *ssa.Function, recv string) []*ssa.Function {
	var out []*ssa.Function
	seen := map[*ssa.Function]bool{}
	for _, call := range flow.Calls(f) {
		g := call.Common().StaticCallee()
		if g != nil && flow.RecvTypeName(g) == recv && g.Pkg == f.Pkg && !seen[g] && len(g.Blocks) > 0 {
			seen[g] = true
			out = append(out, g)
		}
	}
	return out
}

// errOriginAny: like errOrigin but also names interface method calls.
func errOriginAny(v ssa.Value) string {
	if n := errOrigin(v); n != "" {
		return n
	}
	if call, ok := v.(*ssa.Call); ok && call.Call.IsInvoke() {
		return call.Call.Method.Name() + "()"
	}
	if ex, ok := v.(*ssa.Extract); ok {
		if call, ok := ex.Tuple.(*ssa.Call); ok && call.Call.IsInvoke() {
			return call.Call.Method.Name() + "()"
		}
	}
	return ""
}

func c05Reaper(c *Ctx) {
	r := c.R
	cg := c.P.CallGraph()
	for _, sp := range []struct{ rel, stamp, what string }{
		{"pkg/dhcp", "Lease.ExpiresAt", "DHCPv4 lease"},
		{"pkg/dhcpv6", "Lease.ValidEnd", "DHCPv6 lease"},
	} {
		start := c.fn(sp.rel, "Server", "Start")
		if start == nil {
			continue
		}
		reach := flow.ReachableFuncs(cg, []*ssa.Function{start}, func(g *ssa.Function) bool { return !load.InModule(g) })
		reader := ""
		for g := range reach {
			if !load.InModule(g) {
				continue
			}
			flow.Instrs(g, func(in ssa.Instruction) {
				if ld, ok := in.(*ssa.UnOp); ok && ld.Op == token.MUL && strings.HasSuffix(flow.FieldOwner(ld.X), sp.stamp) {
					reader = load.ShortFunc(g)
				}
			})
		}
		r.Check("C05.K5.reaper", "("+sp.rel+").Server.Start", sp.stamp+" has a reader", c.P.Pos(start.Pos()), reader != "",
			sp.what+": "+sp.stamp+" is written but nothing reachable from Start ever reads it: leases never expire, an address whose client went away without RELEASE is never reclaimed and the pool fills up")
	}
}
