package engines

import (
	"fmt"
	"go/token"
	"go/types"
	"strings"

	"bngvet/internal/flow"
	"bngvet/internal/load"

	"golang.org/x/tools/go/ssa"
)

func init() { Registry["C20"] = C20 }

var keyGuards = []guardSpec{
	{"pkg/nexus", "VLANAllocator", "mu", []string{"allocations", "sTagUsage", "currentSTag"}, nil},
	{"pkg/qinq", "Mapper", "mu", []string{"vlanToSubscriber", "subscriberToVLAN"}, nil},
	{"pkg/pppoe", "SessionManager", "mu", []string{"sessions", "macToSession", "nextID"}, nil},
	{"pkg/subscriber", "Manager", "mu", []string{"sessions", "byMAC", "byIP"}, nil},
	{"pkg/state", "Store", "mu", []string{"subscribers", "leases", "sessions", "natBindings", "subscriberByMAC", "subscriberByNTE", "leaseByIP", "leaseByMAC", "sessionByMAC", "sessionByIP", "natByPrivate", "natByPublic"}, nil},
	{"pkg/dhcp", "Server", "leasesMu", []string{"leases"}, nil},
	{"pkg/dhcp", "Server", "leasesByCircuitIDMu", []string{"leasesByCircuitID"}, nil},
}

var keyPairs = []pairSpec{
	{"pkg/nexus", "VLANAllocator", "allocations", "sTagUsage", nil},
	{"pkg/qinq", "Mapper", "subscriberToVLAN", "vlanToSubscriber", nil},
}

// reverse / identity indexes: an insert must be preceded by a conflict lookup on the same index for the same key
// (or the key must come from the free-search function of the type)
type indexSpec struct {
	rel, typ, index string
	freeSearch      []string // functions whose result is a key known to be unused
	exempt          map[string]string
}

var keyIndexes = []indexSpec{
	{"pkg/nexus", "VLANAllocator", "sTagUsage", []string{"findAvailable", "findAvailableCTag"}, nil},
	{"pkg/qinq", "Mapper", "vlanToSubscriber", nil, nil},
	{"pkg/pppoe", "SessionManager", "sessions", nil, nil},
	{"pkg/pppoe", "SessionManager", "macToSession", nil, nil},
	{"pkg/subscriber", "Manager", "byMAC", nil, nil},
	{"pkg/subscriber", "Manager", "byIP", nil, nil},
	{"pkg/state", "Store", "subscriberByMAC", nil, nil},
	{"pkg/state", "Store", "subscriberByNTE", nil, nil},
	{"pkg/state", "Store", "leaseByIP", nil, nil},
	{"pkg/state", "Store", "leaseByMAC", nil, nil},
	{"pkg/state", "Store", "sessionByMAC", nil, nil},
	{"pkg/state", "Store", "sessionByIP", nil, nil},
	{"pkg/state", "Store", "natByPrivate", nil, nil},
	{"pkg/state", "Store", "natByPublic", nil, nil},
	{"pkg/allocator", "MemoryAllocationStore", "byIP", nil, restoreExempt},
}

func C20(c *Ctx) {
	r := c.R
	r.Explain = "Structural clauses of 'subscriber-identifying keys map to at most one subscriber': lockset on every key table; forward and reverse maps updated together; an insert into an identity/reverse index is dominated by a conflict lookup on that index for the same key (or the key comes from the type's free-search) and the key expression is not rewritten between check and insert; VLAN tags that are recorded either come from the range-bounded search or pass a range comparison; a key is not released after its new entry was inserted; the fixed 32-byte circuit-id key is a truncating copy written without a collision guard (reported).  Id wrap-around arithmetic and hash collisions are not decided."
	r.Rule("C20.lockset", "every access to a key table or its indexes holds the owning struct's mutex (helpers through all callers)", 80)
	r.Rule("C20.paired", "the two directions of a key mapping are inserted and deleted together on every path; overwriting a forward entry evicts the old reverse entry", 7)
	r.Rule("C20.guardedInsert", "an insert into an identity/reverse index is dominated by a lookup of that key in that index (conflict check), or the key was produced by the type's free-search function", 15)
	r.Rule("C20.keyStable", "the field a key is read from is not written between the conflict check and the insert", 2)
	r.Rule("C20.range", "a VLAN tag that is recorded was produced by the range-bounded search or compared against the configured range", 4)
	r.Rule("C20.releaseOrder", "a key's old entry is released before its new entry is inserted (a release after the insert removes the new entry)", 1)
	r.Rule("C20.circuitKey", "a lossy (truncating / hashing) derived key is written only after a collision check against the entry already stored under it", 2)
	locksetRule(c, "C20.lockset", keyGuards)
	pairRuleESP(c, "C20.paired", keyPairs)
	c20GuardedInsert(c)
	c20Range(c)
	c20ReleaseOrder(c)
	c20CircuitKey(c)
}

func c20GuardedInsert(c *Ctx) {
	r := c.R
	for _, sp := range keyIndexes {
		pk := c.P.SSAPkg(sp.rel)
		if pk == nil {
			r.Fatalf("C20: package %s missing", sp.rel)
			continue
		}
		tn, _ := pk.Pkg.Scope().Lookup(sp.typ).(*types.TypeName)
		if tn == nil {
			r.Fatalf("C20: type %s.%s missing", sp.rel, sp.typ)
			continue
		}
		named := tn.Type().(*types.Named)
		owner := sp.typ + "." + sp.index
		n := 0
		for _, f := range c.moduleFuncs() {
			ins, _ := mapOps(f, named, sp.index)
			for _, in := range ins {
				mu := in.(*ssa.MapUpdate)
				if isFreshObject(mu.Map) {
					continue
				}
				if _, ex := sp.exempt[f.Name()]; ex {
					continue
				}
				n++
				ok, why := guardedBy(f, mu, owner, sp.freeSearch)
				if !ok && identityGuardedDeletes(c, named, sp.typ, sp.index) {
					// several holders may present the same key (two sessions from one MAC): the newest takes the index entry,
					// which is sound when every delete of the index is guarded by "the entry still points at me"
					ok, why = true, ""
				}
				r.Check("C20.guardedInsert", load.ShortFunc(f), "insert into "+owner, c.P.Pos(instrPos(in)), ok, why)
				if ok {
					// key stability: when the key is read from a struct field, that field is not written between check and insert
					if kf := flow.FieldOwner(mu.Key); kf != "" {
						stable := true
						var lk ssa.Instruction
						flow.Instrs(f, func(x ssa.Instruction) {
							if l, isL := x.(*ssa.Lookup); isL && strings.HasSuffix(flow.FieldOwner(l.X), owner) && flow.FieldOwner(l.Index) == kf {
								lk = x
							}
						})
						if lk != nil {
							// the miss edge: the block reached when the comma-ok of the lookup is false
							var miss *ssa.BasicBlock
							for _, rf := range *lk.(*ssa.Lookup).Referrers() {
								ex, isEx := rf.(*ssa.Extract)
								if !isEx || ex.Index != 1 {
									continue
								}
								for _, r2 := range *ex.Referrers() {
									if iff, isIf := r2.(*ssa.If); isIf {
										if ef, ok := flow.EdgeFact(iff.Block(), iff.Block().Succs[0]); ok && ef.Cond == ssa.Value(ex) {
											if ef.Pol {
												miss = iff.Block().Succs[1]
											} else {
												miss = iff.Block().Succs[0]
											}
										}
									}
								}
							}
							if miss != nil {
								flow.Instrs(f, func(x ssa.Instruction) {
									st, isSt := x.(*ssa.Store)
									if !isSt || flow.FieldOwner(st.Addr) != kf {
										return
									}
									fromMiss := st.Block() == miss || flow.ReachableWithout(miss.Instrs[0], st, func(y ssa.Instruction) bool { return y == lk })
									if fromMiss && flow.ReachableWithout(st, in, func(y ssa.Instruction) bool { return y == lk }) {
										stable = false
									}
								})
							}
							r.Check("C20.keyStable", load.ShortFunc(f), "key "+kf+" unchanged between check and insert into "+owner, c.P.Pos(instrPos(in)), stable,
								"the key field "+kf+" can be rewritten after the uniqueness check and before the insert: the id that is inserted is not the id that was checked")
						}
					}
				}
			}
		}
		if n == 0 {
			r.Check("C20.guardedInsert", sp.typ, "inserts into "+owner, "-", false, "no insert into this index found — anchors moved?")
		}
	}
}

func isFreshObject(m ssa.Value) bool {
	for i := 0; i < 4; i++ {
		switch x := m.(type) {
		case *ssa.UnOp:
			m = x.X
		case *ssa.FieldAddr:
			if _, ok := x.X.(*ssa.Alloc); ok {
				return true
			}
			return freshFromCtor(x.X)
		case *ssa.Lookup:
			m = x.X
		case *ssa.Extract:
			m = x.Tuple
		default:
			return false
		}
	}
	return false
}

// guardedBy: the insert is dominated by a lookup on the same index (the conflict check), directly or through a flag φ
// whose true edge is dominated by the lookup miss; or the key comes from a free-search function.
func guardedBy(f *ssa.Function, mu *ssa.MapUpdate, owner string, freeSearch []string) (bool, string) {
	// key from free search
	keyFrom := func(v ssa.Value) bool {
		for i := 0; i < 4; i++ {
			switch x := v.(type) {
			case *ssa.Extract:
				if call, ok := x.Tuple.(*ssa.Call); ok {
					if g := call.Call.StaticCallee(); g != nil {
						for _, fs := range freeSearch {
							if g.Name() == fs {
								return true
							}
						}
					}
				}
				return false
			case *ssa.Call:
				if g := x.Call.StaticCallee(); g != nil {
					for _, fs := range freeSearch {
						if g.Name() == fs {
							return true
						}
					}
				}
				return false
			case *ssa.UnOp:
				// field of a freshly built record whose field was stored from the search result
				if fa, ok := x.X.(*ssa.FieldAddr); ok {
					for _, rf := range *fa.X.Referrers() {
						if fa2, ok := rf.(*ssa.FieldAddr); ok && fa2.Field == fa.Field {
							for _, rr := range *fa2.Referrers() {
								if st, ok := rr.(*ssa.Store); ok {
									v = st.Val
								}
							}
						}
					}
					continue
				}
				return false
			default:
				return false
			}
		}
		return false
	}
	if keyFrom(mu.Key) {
		return true, ""
	}
	// nested: inner map obtained by lookup with a searched outer key and the inner key searched too
	dom := false
	for _, ft := range flow.FactsAtInstr(mu) {
		switch x := ft.Cond.(type) {
		case *ssa.Extract:
			if lk, ok := x.Tuple.(*ssa.Lookup); ok && strings.HasSuffix(indexOwner(lk.X), owner) {
				dom = true // some branch on the comma-ok of a lookup in this index dominates the insert
			}
		case *ssa.BinOp:
			// `existing, ok := idx[k]; ok && existing != id` — the comma-ok test appears as part of a compound condition
			for _, op := range []ssa.Value{x.X, x.Y} {
				if ex, ok := op.(*ssa.Extract); ok {
					if lk, ok := ex.Tuple.(*ssa.Lookup); ok && strings.HasSuffix(indexOwner(lk.X), owner) {
						dom = true
					}
				}
				if lk, ok := op.(*ssa.Lookup); ok && strings.HasSuffix(flow.FieldOwner(lk.X), owner) {
					dom = true
				}
			}
		case *ssa.Phi:
			// found-flag set in a search loop
			for i, e := range x.Edges {
				if k, ok := e.(*ssa.Const); ok && k.Value != nil && k.Value.String() == "true" && ft.Pol {
					pred := x.Block().Preds[i]
					for _, f2 := range flow.FactsAt(pred) {
						if ex, ok := f2.Cond.(*ssa.Extract); ok {
							if lk, ok := ex.Tuple.(*ssa.Lookup); ok && strings.HasSuffix(flow.FieldOwner(lk.X), owner) {
								dom = true
							}
						}
					}
					if ef, ok := flow.EdgeFact(pred, x.Block()); ok {
						if ex, ok := ef.Cond.(*ssa.Extract); ok {
							if lk, ok := ex.Tuple.(*ssa.Lookup); ok && strings.HasSuffix(flow.FieldOwner(lk.X), owner) {
								dom = true
							}
						}
					}
				}
			}
		}
	}
	if dom {
		return true, ""
	}
	// a lookup on the index in a dominating block whose result feeds a dominating condition (compound `ok && x != y` lowers to two Ifs)
	var hit bool
	flow.Instrs(f, func(in ssa.Instruction) {
		lk, ok := in.(*ssa.Lookup)
		if !ok || !strings.HasSuffix(indexOwner(lk.X), owner) || !flow.InstrDominates(lk, mu) {
			return
		}
		if lk.Index == mu.Key || sameKeyExpr(lk.Index, mu.Key) {
			// the lookup result is branched on somewhere before the insert
			for _, rf := range *lk.Referrers() {
				if ex, ok := rf.(*ssa.Extract); ok {
					for _, r2 := range *ex.Referrers() {
						if _, isIf := r2.(*ssa.If); isIf {
							hit = true
						}
						if b, isB := r2.(*ssa.BinOp); isB {
							for _, r3 := range *b.Referrers() {
								if _, isIf := r3.(*ssa.If); isIf {
									hit = true
								}
							}
						}
					}
				}
			}
		}
	})
	if hit {
		return true, ""
	}
	// path-sensitive form: every feasible path to the insert has branched on the comma-ok of a lookup in this index
	// (a search loop left through a counter test instead of a found flag, a boolean helper written out, …)
	if all, _ := flow.EveryPathHas(mu.Block(), func(ft flow.Fact) bool {
		ex, ok := ft.Cond.(*ssa.Extract)
		if !ok {
			return false
		}
		lk, ok := ex.Tuple.(*ssa.Lookup)
		return ok && strings.HasSuffix(indexOwner(lk.X), owner)
	}); all {
		return true, ""
	}
	return false, "the index " + owner + " is written without first looking the key up in it: a second subscriber presenting the same key silently takes over the entry (and removing either one later breaks the other's reverse lookup)"
}

// indexOwner: T.f for a map value that is the field itself or an inner map obtained by looking the field up.
func indexOwner(m ssa.Value) string {
	for i := 0; i < 3; i++ {
		if fo := flow.FieldOwner(m); fo != "" {
			return fo
		}
		switch x := m.(type) {
		case *ssa.Lookup:
			m = x.X
		case *ssa.Extract:
			m = x.Tuple
		default:
			return ""
		}
	}
	return ""
}

func sameKeyExpr(a, b ssa.Value) bool {
	if a == b {
		return true
	}
	if la, ok := a.(*ssa.UnOp); ok {
		if lb, ok := b.(*ssa.UnOp); ok && la.X == lb.X {
			if _, isAlloc := la.X.(*ssa.Alloc); isAlloc {
				return true // two loads of one spilled parameter / local
			}
		}
	}
	fa, fb := flow.FieldOwner(a), flow.FieldOwner(b)
	if fa != "" && fa == fb {
		return true
	}
	// String() of the same value
	ca, ok1 := a.(*ssa.Call)
	cb, ok2 := b.(*ssa.Call)
	if ok1 && ok2 && ca.Call.StaticCallee() != nil && ca.Call.StaticCallee() == cb.Call.StaticCallee() && len(ca.Call.Args) == len(cb.Call.Args) {
		for i := range ca.Call.Args {
			if !sameKeyExpr(ca.Call.Args[i], cb.Call.Args[i]) {
				return false
			}
		}
		return true
	}
	return false
}

// c20Range: tags stored in VLANAllocator records come from the search or are range-checked.
func c20Range(c *Ctx) {
	r := c.R
	tn, _ := c.P.SSAPkg("pkg/nexus").Pkg.Scope().Lookup("VLANAllocator").(*types.TypeName)
	if tn == nil {
		r.Fatal("C20.range: VLANAllocator missing")
		return
	}
	named := tn.Type().(*types.Named)
	n := 0
	for _, f := range c.moduleFuncs() {
		ins, _ := mapOps(f, named, "allocations")
		for _, in := range ins {
			mu := in.(*ssa.MapUpdate)
			if isFreshObject(mu.Map) {
				continue
			}
			al, ok := mu.Value.(*ssa.Alloc)
			if !ok {
				continue
			}
			for _, tag := range []struct{ field, rng string }{{"STag", "STagRange"}, {"CTag", "CTagRange"}} {
				var val ssa.Value
				for _, rf := range *al.Referrers() {
					if fa, ok := rf.(*ssa.FieldAddr); ok && fieldVarName(fa) == tag.field {
						for _, rr := range *fa.Referrers() {
							if st, ok := rr.(*ssa.Store); ok {
								val = st.Val
							}
						}
					}
				}
				if val == nil {
					continue
				}
				n++
				ok := false
				// from the search
				switch x := val.(type) {
				case *ssa.Extract:
					if call, isC := x.Tuple.(*ssa.Call); isC {
						if g := call.Call.StaticCallee(); g != nil && strings.HasPrefix(g.Name(), "findAvailable") {
							ok = true
						}
					}
				}
				// or compared with the configured range before use
				if !ok {
					for _, ft := range flow.FactsAtInstr(in) {
						if bo, isB := ft.Cond.(*ssa.BinOp); isB && (bo.Op == token.LSS || bo.Op == token.GTR || bo.Op == token.LEQ || bo.Op == token.GEQ) {
							same := func(a ssa.Value) bool {
								return a == val || (flow.FieldOwner(a) != "" && flow.FieldOwner(a) == flow.FieldOwner(val))
							}
							if (same(bo.X) && strings.Contains(flow.FieldOwner(bo.Y), "VLANRange.")) || (same(bo.Y) && strings.Contains(flow.FieldOwner(bo.X), "VLANRange.")) {
								ok = true
							}
						}
						if call, isC := ft.Cond.(*ssa.Call); isC {
							if g := call.Call.StaticCallee(); g != nil && g.Name() == "Contains" {
								for _, a := range call.Call.Args {
									if a == val {
										ok = true
									}
								}
							}
						}
					}
				}
				r.Check("C20.range", load.ShortFunc(f), "recorded "+tag.field+" within "+tag.rng, c.P.Pos(instrPos(in)), ok,
					fmt.Sprintf("the %s stored in the allocation neither comes from the range-bounded search nor is compared with config.%s: a tag outside the configured range is recorded (and the search will never see or reuse it)", tag.field, tag.rng))
			}
		}
	}
	if n == 0 {
		r.Check("C20.range", "nexus.VLANAllocator", "recorded tags", "-", false, "no recorded allocation found")
	}
}

// c20ReleaseOrder: in a function that both releases key K and inserts K's new entry, the release comes first.
func c20ReleaseOrder(c *Ctx) {
	r := c.R
	tn, _ := c.P.SSAPkg("pkg/nexus").Pkg.Scope().Lookup("VLANAllocator").(*types.TypeName)
	named := tn.Type().(*types.Named)
	n := 0
	for _, f := range c.moduleFuncs() {
		if flow.RecvTypeName(f) != "VLANAllocator" {
			continue
		}
		ins, _ := mapOps(f, named, "allocations")
		var rels []ssa.CallInstruction
		for _, call := range flow.Calls(f) {
			if g := call.Common().StaticCallee(); g != nil && (g.Name() == "releaseUnlocked" || g.Name() == "Release") && flow.RecvTypeName(g) == "VLANAllocator" {
				rels = append(rels, call)
			}
		}
		if len(ins) == 0 || len(rels) == 0 {
			continue
		}
		for _, rel := range rels {
			n++
			bad := false
			for _, in := range ins {
				mu := in.(*ssa.MapUpdate)
				if mu.Key == rel.Common().Args[1] && flow.ReachableWithout(in, rel, nil) {
					bad = true
				}
			}
			r.Check("C20.releaseOrder", load.ShortFunc(f), "release precedes re-insert", c.P.Pos(instrPos(rel)), !bad,
				"the key's entry is released after its new entry was inserted: the release looks the key up, finds the new entry and removes that one, leaving the old pair orphaned in the reverse index")
		}
	}
	if n == 0 {
		r.Check("C20.releaseOrder", "nexus.VLANAllocator", "re-allocation", "-", false, "no function both releases and re-inserts a key — anchors moved?")
	}
}

// c20CircuitKey: lossy derived keys.
func c20CircuitKey(c *Ctx) {
	r := c.R
	// hash key: the DHCP server checks CheckCircuitIDCollision before AddCircuitIDMapping
	if f := c.fn("pkg/dhcp", "Server", "handleRequest"); f != nil {
		for _, call := range flow.Calls(f) {
			if !flow.CalleeIs(call, "pkg/ebpf", "Loader", "AddCircuitIDMapping") {
				continue
			}
			ok := false
			for _, other := range flow.Calls(f) {
				if flow.CalleeIs(other, "pkg/ebpf", "Loader", "CheckCircuitIDCollision") && flow.InstrDominates(other, call) {
					ok = true
				}
			}
			r.Check("C20.circuitKey", load.ShortFunc(f), "hash key checked for collision before AddCircuitIDMapping", c.P.Pos(instrPos(call)), ok, "the 64-bit circuit-id hash entry is written without the collision check")
		}
		for _, call := range flow.Calls(f) {
			if !flow.CalleeIs(call, "pkg/ebpf", "Loader", "AddCircuitIDSubscriber") {
				continue
			}
			ok := false
			for _, other := range flow.Calls(f) {
				if g := other.Common().StaticCallee(); g != nil && flow.InstrDominates(other, call) && (g.Name() == "GetCircuitIDSubscriber" || strings.Contains(g.Name(), "Collision") && strings.Contains(g.Name(), "Subscriber")) {
					ok = true
				}
			}
			r.Check("C20.circuitKey", load.ShortFunc(f), "truncated key checked before AddCircuitIDSubscriber", c.P.Pos(instrPos(call)), ok,
				"the fixed 32-byte circuit-id key (MakeCircuitIDKey truncates) is written unconditionally: two subscribers whose circuit-ids share the first 32 bytes overwrite each other's fast-path entry")
		}
	}
}

// identityGuardedDeletes: every delete from the index is dominated by a comparison of the stored entry with the
// id/object being removed (idx[k] == id), so an entry taken over by a newer holder is left alone.
func identityGuardedDeletes(c *Ctx, named *types.Named, typ, index string) bool {
	owner := typ + "." + index
	n := 0
	for _, f := range c.moduleFuncs() {
		_, dels := mapOps(f, named, index)
		for _, d := range dels {
			n++
			guarded := false
			for _, ft := range flow.FactsAtInstr(d) {
				if name, _, ok := guardName(ft.Cond); ok && ft.Pol && name == "elem("+owner+")==·" {
					guarded = true
				}
				if name, _, ok := guardName(ft.Cond); ok && !ft.Pol && name == "elem("+owner+")!=·" {
					guarded = true
				}
			}
			if !guarded {
				return false
			}
		}
	}
	return n > 0
}
