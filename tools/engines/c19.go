package engines

import (
	"fmt"
	"regexp"
	"sort"
	"strings"

	"bngvet/internal/cexec"
	"bngvet/internal/cfront"
	"bngvet/internal/flow"
	"bngvet/internal/load"

	"golang.org/x/tools/go/ssa"
)

func init() { Registry["C19"] = c19 }

var reLeaf = regexp.MustCompile(`map:[A-Za-z0-9_|]+:[A-Za-z0-9_.]+|ktime_ns|ctx:[A-Za-z0-9_.]+|pkt:[A-Za-z0-9_.+]+`)

// deps: the leaf origins a value's provenance mentions (over-approximate data dependence; stable under refactoring).
func deps(org string) map[string]bool {
	out := map[string]bool{}
	for _, m := range reLeaf.FindAllString(org, -1) {
		if i := strings.LastIndex(m, "."); i >= 0 && strings.HasPrefix(m, "map:") {
			m = m[i+1:]
		}
		out[m] = true
	}
	return out
}

func hasAll(d map[string]bool, ks ...string) bool {
	for _, k := range ks {
		if !d[k] {
			return false
		}
	}
	return true
}

func depList(d map[string]bool) string {
	var ks []string
	for k := range d {
		ks = append(ks, k)
	}
	sort.Strings(ks)
	return "{" + strings.Join(ks, ",") + "}"
}

func c19(c *Ctx) {
	r := c.R
	r.Explain = "Only structural clauses of the rate limiter are decided, not the admitted-bytes inequalities.  Every feasible path of qos_egress_prog and qos_ingress_prog (token_bucket_check inlined) is enumerated by path-sensitive abstract interpretation of clang's AST; each value carries the set of inputs it depends on.  Decided: rate 0 admits before any arithmetic and leaves the bucket untouched; the token count is written only by refill (old tokens + credit(elapsed, rate)), cap (= burst, only under tokens > burst or an elapsed-time bound depending on burst and rate) and consumption (- length, only under tokens >= length); verdicts match consumption; the clock is set to now only with a full bucket or a non-zero credit (otherwise the remainder is carried); lookup keys and rates have the right direction.  Go side: SetSubscriberQoS makes both map writes on every successful return unless the map is nil, with rate/burst/priority/tokens taken from the policy.  Numeric behaviour over arrival sequences, overflow and multi-CPU races are not decided."
	r.Rule("C19.unlimited", "a rate of zero returns 'admit' before any bucket arithmetic and without touching the bucket", 2)
	r.Rule("C19.updates", "the token count is written only by (a) the refill: old tokens plus a credit that depends on elapsed time and the rate, (b) the cap: tokens = burst, under tokens > burst or under an elapsed-time test against a bound that depends on burst and rate, (c) the consumption: tokens - packet length, under tokens >= packet length; nothing else writes it", 6)
	r.Rule("C19.verdict", "a packet is admitted exactly on the paths that consumed its length (or have rate 0 / no policy); it is dropped exactly on the paths where tokens < length, without consumption", 6)
	r.Rule("C19.remainder", "the bucket's clock is set to 'now' only when the bucket was filled completely or a non-zero credit was given; otherwise the un-credited remainder of elapsed time is carried (the stored time depends on the credit)", 2)
	r.Rule("C19.direction", "the egress program limits traffic to the subscriber (bucket keyed by destination address, filled from DownloadBPS), the ingress program traffic from it (source address, UploadBPS)", 4)
	r.Rule("C19.control", "SetSubscriberQoS writes both buckets whenever the maps are loaded, guarded by nothing but argument validation; rate, burst, priority and initial tokens come from the policy; RemoveSubscriberQoS deletes both; SetSubscriberPolicy copies every policy field", 10)
	r.Rule("C19.model", "the rate limiter programs are analysed completely", 2)
	var tu *cfront.TU
	for _, t := range c.bpfUnits() {
		if t.Rel == "bpf/qos_ratelimit.c" {
			tu = t
		}
	}
	if tu == nil {
		r.Fatalf("anchor unresolved: bpf/qos_ratelimit.c")
		return
	}
	for _, pn := range []struct{ prog, m, keyField string }{{"qos_egress_prog", "qos_egress", "pkt:iphdr.daddr"}, {"qos_ingress_prog", "qos_ingress", "pkt:iphdr.saddr"}} {
		fn := tu.Funcs[pn.prog]
		if fn == nil {
			r.Fatalf("anchor unresolved: %s", pn.prog)
			continue
		}
		x := cexec.New(tu, cexec.Paths)
		x.Opaque["update_qos_stats"] = true
		x.Run(fn)
		r.Check("C19.model", pn.prog, "analysed completely", fn.Pos(), len(x.Problems) == 0, strings.Join(x.Problems, "; "))
		r.Count("bucket_paths", len(x.Returns))
		c19Paths(c, pn.prog, pn.m, pn.keyField, x)
	}
	c19Control(c)
	r.Note("Not decided (numeric, declared): the admitted-bytes inequalities themselves over all arrival sequences, the value of the credit formula, 64-bit overflow of elapsed*rate, rounding of the burst defaults, concurrent updates of one bucket from several CPUs.")
}

func c19Paths(c *Ctx, prog, mapName, keyField string, x *cexec.Exec) {
	r := c.R
	type agg struct {
		ok  bool
		why string
		pos string
	}
	rows := map[string]*agg{}
	var order []string
	add := func(rule, key string, ok bool, why, pos string) {
		k := rule + "\x00" + key
		a := rows[k]
		if a == nil {
			a = &agg{ok: true, pos: pos}
			rows[k] = a
			order = append(order, k)
		}
		if !ok && a.ok {
			a.ok, a.why, a.pos = false, why, pos
		}
	}
	keyOK := false
	for _, ev := range x.Events {
		if ev.Kind == "lookup" && ev.Map == mapName {
			for i := 0; i+1 < len(ev.Args); i += 2 {
				if p, ok := cPattern(ev.Args[i+1].Comp); ok && p.src == keyField {
					keyOK = true
				}
			}
		}
	}
	r.Check("C19.direction", prog, mapName+" is keyed by "+strings.TrimPrefix(keyField, "pkt:"), "-", keyOK, "the bucket lookup key is not the expected address of the frame")
	isZero := func(_ string, k *int64) bool { return k != nil && *k == 0 }
	depsOf := func(want ...string) func(string, *int64) bool {
		return func(o string, _ *int64) bool { return hasAll(deps(o), want...) }
	}
	isLen := func(o string, _ *int64) bool { d := deps(o); return d["ctx:__sk_buff.len"] || d["__sk_buff.len"] }
	anyOperand := func(string, *int64) bool { return true }
	for _, rt := range x.Returns {
		atoms := rt.St.Atoms
		verdict, _ := rt.Val.IsConst()
		pos := rt.Node.Pos()
		policy, rate0 := false, false
		for _, a := range atoms {
			if a.L == "nonnull:mapval:"+mapName && a.Op == "nz" && a.Holds {
				policy = true
			}
		}
		nat := normAtoms(atoms)
		for _, a := range nat {
			if a.rel("==", func(o string, _ *int64) bool { return strings.HasSuffix(o, "token_bucket.rate_bps") }, isZero) {
				rate0 = true
			}
		}
		var stores []cexec.Event
		for _, ev := range rt.St.Trace {
			if ev.Kind == "mapstore" && strings.HasPrefix(ev.Lbl, "token_bucket.") && ev.Map == mapName {
				stores = append(stores, ev)
			}
			if ev.Kind == "atomicadd" && strings.HasPrefix(ev.Lbl, "token_bucket.") {
				stores = append(stores, ev)
			}
		}
		if !policy {
			add("C19.verdict", "no policy: admitted, bucket untouched", verdict == 0 && len(stores) == 0, "a frame without a bucket is dropped or a bucket is written", pos)
			continue
		}
		if rate0 {
			add("C19.unlimited", "rate 0: admitted, bucket untouched", verdict == 0 && len(stores) == 0,
				fmt.Sprintf("with rate_bps == 0 the program returns %s after %d bucket writes", rt.Val.String(), len(stores)), pos)
			continue
		}
		consumed, filled := false, false
		var plainNow []cexec.Event
		creditPositive := false
		isCredit := func(o string, _ *int64) bool {
			d := deps(o)
			return hasAll(d, "ktime_ns", "last_update", "rate_bps") && !d["tokens"]
		}
		for _, a := range nat {
			if a.rel(">", isCredit, isZero) || a.rel("!=", isCredit, isZero) {
				creditPositive = true
			}
		}
		for _, st := range stores {
			d := deps(st.Val.Org)
			before := atoms
			if st.NAtoms <= len(atoms) {
				before = atoms[:st.NAtoms]
			}
			var nbefore []natom
			for _, a := range nat {
				if a.NAt < len(before) {
					nbefore = append(nbefore, a)
				}
			}
			spos := st.Node.Pos()
			// a constant that replaces a value pinned by an equality test still stands for that value
			pinned := map[string]bool{}
			for _, a := range nbefore {
				// pinned: equal to a constant, or confined below a small constant (`rate < 8 ? 1 : rate / 8`)
				if a.RC != nil && (a.Op == "==" || ((a.Op == "<" || a.Op == "<=") && *a.RC <= 64)) {
					for k := range deps(a.L) {
						pinned[k] = true
					}
				}
			}
			exact := d
			d = map[string]bool{}
			for k := range exact {
				d[k] = true
			}
			for k := range pinned {
				d[k] = true
			}
			switch st.Lbl {
			case "token_bucket.tokens":
				switch {
				case hasAll(d, "__sk_buff.len") || hasAll(d, "ctx:__sk_buff.len"):
					// consumption
					guarded := false
					for _, a := range nbefore {
						if a.rel(">=", anyOperand, isLen) || a.rel(">", anyOperand, isLen) {
							guarded = true
						}
					}
					consumed = true
					add("C19.updates", "consumption tokens -= length only under tokens >= length", guarded, "the packet length is subtracted on a path that has not established tokens >= length: the unsigned count wraps to a huge credit", spos)
				case len(exact) == 1 && exact["burst_bytes"]:
					guarded := false
					how := ""
					onlyBurst := func(o string, _ *int64) bool { d := deps(o); return len(d) == 1 && d["burst_bytes"] }
					isElapsed := func(o string, _ *int64) bool {
						d := deps(o)
						return hasAll(d, "ktime_ns", "last_update") && !d["tokens"]
					}
					isFill := func(o string, _ *int64) bool {
						d := deps(o)
						for k := range pinned {
							d[k] = true
						}
						return hasAll(d, "burst_bytes", "rate_bps")
					}
					for _, a := range nbefore {
						if a.rel(">", depsOf("tokens"), onlyBurst) {
							guarded, how = true, "tokens > burst"
						}
						if a.rel(">", isElapsed, isFill) || a.rel(">=", isElapsed, isFill) {
							guarded, how = true, "elapsed >= fill time(burst, rate)"
						}
					}
					_ = how
					filled = true
					add("C19.updates", "cap tokens = burst only when the bucket over-filled or the fill time has elapsed", guarded,
						"the bucket is set to a full burst on a path that has established neither tokens > burst nor an elapsed-time bound depending on burst and rate: a subscriber is credited a whole burst it has not earned", spos)
				case hasAll(d, "tokens", "ktime_ns", "last_update", "rate_bps") && !d["burst_bytes"]:
					add("C19.updates", "refill tokens += credit(elapsed, rate)", true, "", spos)
				default:
					add("C19.updates", "no other write to the token count", false, "tokens is assigned a value depending on "+depList(d)+", which is neither refill, cap nor consumption", spos)
				}
			case "token_bucket.last_update":
				if len(exact) == 1 && exact["ktime_ns"] {
					plainNow = append(plainNow, st)
				} else if !hasAll(d, "ktime_ns") && !hasAll(d, "last_update") {
					add("C19.remainder", "clock written from the clock", false, "last_update is assigned a value depending on "+depList(d), spos)
				} else {
					add("C19.remainder", "clock advanced by the credited time (remainder carried)", true, "", spos)
				}
			default:
				add("C19.updates", "no write to "+st.Lbl, false, "the program overwrites "+st.Lbl+", which the control plane owns", spos)
			}
		}
		for _, st := range plainNow {
			add("C19.remainder", "clock := now only with a full bucket or a non-zero credit", filled || creditPositive,
				"last_update is set to the current time on a path where the credit may have been truncated to zero and the bucket was not filled: the elapsed time is discarded, so a flow whose packets arrive faster than one token-time apart is never credited again (and every packet loses up to one token of credit)", st.Node.Pos())
		}
		// verdicts
		enough, known := false, false
		tokOrBurst := func(o string, _ *int64) bool { d := deps(o); return d["tokens"] || d["burst_bytes"] }
		for _, a := range nat {
			switch {
			case a.rel(">=", tokOrBurst, isLen):
				enough, known = true, true
			case a.rel("<", tokOrBurst, isLen):
				enough, known = false, true
			}
		}
		switch {
		case !known:
			add("C19.verdict", "verdict decided by tokens >= length", false, "a path with a rate limit reaches a verdict without comparing the tokens with the packet length", pos)
		case enough:
			add("C19.verdict", "tokens >= length: consumed and admitted", consumed && verdict == 0, fmt.Sprintf("enough tokens, but consumed=%v verdict=%s", consumed, rt.Val.String()), pos)
		default:
			add("C19.verdict", "tokens < length: dropped, nothing consumed", !consumed && verdict == 2, fmt.Sprintf("not enough tokens, but consumed=%v verdict=%s", consumed, rt.Val.String()), pos)
		}
	}
	sort.Strings(order)
	for _, k := range order {
		a := rows[k]
		parts := strings.SplitN(k, "\x00", 2)
		r.Check(parts[0], prog, parts[1], a.pos, a.ok, a.why)
	}
}

func c19Control(c *Ctx) {
	r := c.R
	f := c.fn("pkg/qos", "Manager", "SetSubscriberQoS")
	if f != nil {
		for _, sp := range []struct{ field, rate string }{{"qosEgress", "DownloadBPS"}, {"qosIngress", "UploadBPS"}} {
			found := false
			for _, call := range flow.Calls(f) {
				// the write: a direct Put on the field, or a same-package helper that is handed the field's map
				var tbArg ssa.Value
				if flow.CalleeIs(call, "cilium/ebpf", "Map", "Put") {
					rv, ok := call.Common().Args[0].(*ssa.UnOp)
					if !ok || !strings.HasSuffix(flow.FieldOwner(rv.X), "Manager."+sp.field) {
						continue
					}
					if mi, ok := call.Common().Args[2].(*ssa.MakeInterface); ok {
						tbArg = mi.X
					}
				} else if g := call.Common().StaticCallee(); g != nil && g.Pkg == f.Pkg {
					hasMap := false
					for _, a := range call.Common().Args {
						if u, ok := a.(*ssa.UnOp); ok && strings.HasSuffix(flow.FieldOwner(u.X), "Manager."+sp.field) {
							hasMap = true
						}
						if n := namedOfPtr(a.Type()); n != nil && n.Obj().Name() == "TokenBucket" {
							tbArg = a
						}
					}
					if !hasMap {
						continue
					}
				} else {
					continue
				}
				found = true
				var extra []string
				for _, ft := range flow.FactsAt(call.Block()) {
					if isErrTest(ft) {
						continue // error handling of an earlier step
					}
					d := factText(ft)
					if strings.Contains(d, "Manager.qosEgress") || strings.Contains(d, "Manager.qosIngress") || strings.Contains(d, "SubscriberQoS.IP") ||
						strings.Contains(d, "To4()") || strings.Contains(d, "Put()") {
						continue
					}
					extra = append(extra, d)
				}
				r.Check("C19.control", load.ShortFunc(f), "Put on "+sp.field+" guarded only by map!=nil / argument validation", c.P.Pos(call.Pos()), len(extra) == 0,
					"the bucket is written only when "+strings.Join(extra, " and ")+": a policy the control plane was given is not the one enforced")
				// the value: a TokenBucket whose RateBPS is the right direction's rate
				tb := tbArg
				fields := map[string]ssa.Value{}
				if tb != nil {
					for _, ref := range *tb.Referrers() {
						fa, ok := ref.(*ssa.FieldAddr)
						if !ok {
							continue
						}
						for _, r2 := range *fa.Referrers() {
							if st, ok := r2.(*ssa.Store); ok && st.Addr == fa {
								fields[flow.FieldOwner(fa)] = st.Val
							}
						}
					}
				}
				rateV := stripConv(fields["TokenBucket.RateBPS"])
				okRate := false
				if u, ok := rateV.(*ssa.UnOp); ok {
					okRate = strings.HasSuffix(flow.FieldOwner(u.X), "SubscriberQoS."+sp.rate)
				}
				r.Check("C19.direction", load.ShortFunc(f), sp.field+" bucket rate is "+sp.rate, c.P.Pos(call.Pos()), okRate, "the rate written into the "+sp.field+" bucket is not SubscriberQoS."+sp.rate)
				burst := stripConv(fields["TokenBucket.BurstBytes"])
				tokens := stripConv(fields["TokenBucket.Tokens"])
				r.Check("C19.control", load.ShortFunc(f), sp.field+" initial tokens equal the burst", c.P.Pos(call.Pos()), burst != nil && tokens == burst,
					"the bucket starts with a token count that is not its burst size (more tokens than the burst admit more than the contract)")
				if sp.field == "qosEgress" {
					r.Check("C19.control", load.ShortFunc(f), "egress burst derives from the policy's burst", c.P.Pos(call.Pos()), burst != nil && dependsOnField(burst, "SubscriberQoS.BurstBytes", map[ssa.Value]bool{}),
						"the burst written to the kernel does not depend on SubscriberQoS.BurstBytes")
				}
				prio := stripConv(fields["TokenBucket.Priority"])
				okP := false
				if u, ok := prio.(*ssa.UnOp); ok {
					okP = strings.HasSuffix(flow.FieldOwner(u.X), "SubscriberQoS.Priority")
				}
				r.Check("C19.control", load.ShortFunc(f), sp.field+" priority is the policy's", c.P.Pos(call.Pos()), okP, "priority not taken from SubscriberQoS.Priority")
			}
			okS, badPos := successNeedsMapCall(c, f, sp.field, "Put", "Update")
			r.Check("C19.control", load.ShortFunc(f), "writes "+sp.field, c.P.Pos(f.Pos()), found || okS, "no Put on m."+sp.field+" (directly or through a helper that always makes it)")
			r.Check("C19.control", load.ShortFunc(f), "every successful return has written "+sp.field, badPos, okS,
				"SetSubscriberQoS can return nil without writing the "+sp.field+" bucket although the map is loaded: the caller believes the policy is in force, the kernel still enforces the old one (or none)")
		}
	}
	if f := c.fn("pkg/qos", "Manager", "RemoveSubscriberQoS"); f != nil {
		for _, field := range []string{"qosEgress", "qosIngress"} {
			found := false
			for _, call := range flow.Calls(f) {
				if flow.CalleeIs(call, "cilium/ebpf", "Map", "Delete") {
					if rv, ok := call.Common().Args[0].(*ssa.UnOp); ok && strings.HasSuffix(flow.FieldOwner(rv.X), "Manager."+field) {
						found = true
						var extra []string
						for _, ft := range flow.FactsAt(call.Block()) {
							if isErrTest(ft) {
								continue
							}
							d := factText(ft)
							if strings.Contains(d, "Manager.qos") || strings.Contains(d, "To4()") {
								continue
							}
							extra = append(extra, d)
						}
						r.Check("C19.control", load.ShortFunc(f), "Delete on "+field+" guarded only by map!=nil / argument validation", c.P.Pos(call.Pos()), len(extra) == 0, "deleted only when "+strings.Join(extra, " and "))
					}
				}
			}
			r.Check("C19.control", load.ShortFunc(f), "deletes "+field, c.P.Pos(f.Pos()), found, "a removed subscriber keeps its "+field+" bucket: the address's next holder inherits the old limit")
			okS, badPos := successNeedsMapCall(c, f, field, "Delete")
			r.Check("C19.control", load.ShortFunc(f), "every successful return has deleted from "+field, badPos, okS, "RemoveSubscriberQoS can return nil without deleting the "+field+" bucket although the map is loaded")
		}
	}
	if f := c.fn("pkg/qos", "Manager", "SetSubscriberPolicy"); f != nil {
		want := map[string]string{"SubscriberQoS.DownloadBPS": "DownloadBPS", "SubscriberQoS.UploadBPS": "UploadBPS", "SubscriberQoS.BurstBytes": "BurstSize", "SubscriberQoS.Priority": "Priority"}
		got := map[string]bool{}
		flow.Instrs(f, func(in ssa.Instruction) {
			st, ok := in.(*ssa.Store)
			if !ok {
				return
			}
			fo := flow.FieldOwner(st.Addr)
			if src, ok := want[fo]; ok {
				if u, ok := stripConv(st.Val).(*ssa.UnOp); ok && strings.HasSuffix(flow.FieldOwner(u.X), "."+src) {
					got[fo] = true
				}
			}
		})
		var ks []string
		for k := range want {
			ks = append(ks, k)
		}
		sort.Strings(ks)
		for _, k := range ks {
			r.Check("C19.control", load.ShortFunc(f), k+" copied from the policy's "+want[k], c.P.Pos(f.Pos()), got[k], "the policy field is not the one handed to SetSubscriberQoS")
		}
	}
}

func stripConv(v ssa.Value) ssa.Value {
	for v != nil {
		switch x := v.(type) {
		case *ssa.Convert:
			v = x.X
		case *ssa.ChangeType:
			v = x.X
		default:
			return v
		}
	}
	return v
}

func dependsOnField(v ssa.Value, suffix string, seen map[ssa.Value]bool) bool {
	if v == nil || seen[v] {
		return false
	}
	seen[v] = true
	if u, ok := v.(*ssa.UnOp); ok && strings.HasSuffix(flow.FieldOwner(u.X), suffix) {
		return true
	}
	if in, ok := v.(ssa.Instruction); ok {
		for _, op := range in.Operands(nil) {
			if *op != nil && dependsOnField(*op, suffix, seen) {
				return true
			}
		}
	}
	return false
}
