package engines

import (
	"bngvet/internal/cexec"
	"fmt"
	"os"
	"path/filepath"
	"sort"
	"strings"

	"bngvet/internal/cfront"
)

func init() { Registry["C07"] = c07; NoGo["C07"] = true }

func listBPF(repo string) ([]string, error) {
	ents, err := os.ReadDir(filepath.Join(repo, "bpf"))
	if err != nil {
		return nil, err
	}
	var out []string
	for _, e := range ents {
		if strings.HasSuffix(e.Name(), ".c") {
			out = append(out, "bpf/"+e.Name())
		}
	}
	sort.Strings(out)
	return out, nil
}

// write policy per program: what "a frame the program is specified to act on" means structurally.
type writePolicy struct {
	kind string // never | notOnPass | afterLookup
	m    string // afterLookup: the map whose successful lookup identifies the flow/subscriber
	why  string
}

var c07Policy = map[string]writePolicy{
	"dhcp_fastpath_prog": {"notOnPass", "", "the frame is rewritten in place only to become the reply that is transmitted (XDP_TX); every XDP_PASS hands the frame to the slow path"},
	"antispoof_ingress":  {"never", "", "source validation only decides a verdict"},
	"qos_egress_prog":    {"never", "", "the rate limiter only decides a verdict (skb->priority is metadata, not frame bytes)"},
	"qos_ingress_prog":   {"never", "", "the rate limiter only decides a verdict"},
	"nat44_hairpin_xdp":  {"never", "", "hairpin detection only counts"},
	"nat44_egress":       {"afterLookup", "subscriber_nat", "SNAT rewrites only packets of a subscriber that has a NAT allocation"},
	"nat44_ingress":      {"afterLookup", "nat_sessions", "DNAT rewrites only packets that belong to a tracked NAT session"},
}

func c07(c *Ctx) {
	r := c.R
	r.Explain = "All seven eBPF programs (every SEC-annotated function of every bpf/*.c file, parsed by clang -fsyntax-only with stand-in libbpf headers) are abstractly interpreted over clang's AST: always-inline helpers are inlined, constant-trip loops unrolled, pointers are (object, linear byte offset) pairs and every comparison against data_end becomes a fact data+L <= data_end.  Each load/store through a packet pointer must be entailed by the facts in force (Fourier-Motzkin over linear forms with interval-bounded symbols such as ihl*4 or a VLAN offset); stack buffers and map values are checked against their object size and map values against a preceding NULL test.  Per return statement the set of frame stores that may precede it is known, which decides 'pass verdict only with the frame unmodified' under a per-program write policy.  Helper internals, alignment, verifier limits and the meaning of what is written are not decided."
	r.Rule("C07.bounds", "every load/store through a pointer derived from the packet start is covered by a dominating comparison against data_end that establishes offset+size <= data_end (linear forms over opaque symbols; helpers inlined, constant loops unrolled); stack buffers and map values likewise stay inside their object, and a looked-up map value is dereferenced only after its NULL test", 900)
	r.Rule("C07.passUnmodified", "a program returns its pass verdict only on paths that have not stored into the frame, unless the frame is one it is specified to act on (write policy per program)", 60)
	r.Rule("C07.verdict", "every path of a program ends in a return of a defined verdict constant; every loop has a constant trip count; packet pointers are not used after a helper that invalidates them", 60)
	r.Rule("C07.model", "every construct of the bpf sources is understood by the analyser (an unmodelled construct is a failure, never a silent pass)", 7)
	progs := 0
	for _, tu := range c.bpfUnits() {
		for _, fn := range programs(tu) {
			progs++
			c07Program(c, tu, fn)
		}
	}
	r.Count("bpf_programs", progs)
	if progs < 7 {
		r.Fatalf("only %d eBPF programs found (7 confirmed by hand): the front end lost some", progs)
	}
	r.Note("Decides source-level memory safety of packet/stack/map-value accesses and the pass-unmodified clause; does not decide helper internals, alignment, or verifier-specific limits. The in-kernel verifier proves a superset of C07.bounds at load time on a real host; this check needs no kernel.")
}

func c07Program(c *Ctx, tu *cfront.TU, fn *cfront.Node) {
	r := c.R
	x := runMerge(tu, fn)
	r.Count("c_functions_inlined_or_run", 1)
	r.List("bpf_programs_analysed", fn.Name+" ("+progKind(fn)+", "+tu.Rel+")")
	var k keyed
	for _, p := range x.Problems {
		r.Check("C07.model", fn.Name, k.name(fn.Name, stripPos(p)), posOf(p), false, p)
	}
	r.Check("C07.model", fn.Name, "analysed completely", fn.Pos(), len(x.Problems) == 0, fmt.Sprintf("%d constructs not modelled", len(x.Problems)))
	// accesses
	for _, a := range x.SortedAccess() {
		kind := "load"
		if a.Store {
			kind = "store"
		}
		name := k.name(fn.Name, fmt.Sprintf("%s %s in %s: %s", a.Region, kind, a.Func, cfront.Render(a.Node)))
		r.Check("C07.bounds", fn.Name, name, a.Node.Pos(), a.OK, a.Why)
	}
	// verdicts and loops
	allowed := map[int64]string{0: "XDP_ABORTED", 1: "XDP_DROP", 2: "XDP_PASS", 3: "XDP_TX", 4: "XDP_REDIRECT"}
	pass := int64(2)
	if progKind(fn) == "tc" {
		allowed = map[int64]string{-1: "TC_ACT_UNSPEC", 0: "TC_ACT_OK", 1: "TC_ACT_RECLASSIFY", 2: "TC_ACT_SHOT", 3: "TC_ACT_PIPE", 4: "TC_ACT_STOLEN", 7: "TC_ACT_REDIRECT"}
		pass = 0
	} else if progKind(fn) != "xdp" {
		r.Check("C07.verdict", fn.Name, "program type", fn.Pos(), false, "context parameter is neither struct xdp_md * nor struct __sk_buff *")
	}
	pol, okPol := c07Policy[fn.Name]
	r.Check("C07.passUnmodified", fn.Name, "write policy known", fn.Pos(), okPol, "a new program has no write policy in the checker: classify what it is specified to act on")
	for _, rt := range x.Returns {
		v, isC := rt.Val.IsConst()
		_, okV := allowed[v]
		if !isC && rt.Val.K == cexec.VInt && rt.Val.HasL && rt.St != nil {
			// a verdict variable joined from several constant assignments (single exit through `goto out`): every
			// value of its range must be a defined verdict
			iv := rt.St.Range(rt.Val.L)
			if iv.Hi-iv.Lo <= 8 && iv.Lo >= -1 {
				isC, okV = true, true
				for x := iv.Lo; x <= iv.Hi; x++ {
					if _, ok := allowed[x]; !ok {
						okV = false
					}
				}
			}
		}
		name := k.name(fn.Name, cfront.Render(rt.Node)+" ["+guardOf(rt.Node)+"]")
		r.Check("C07.verdict", fn.Name, "verdict of "+name, rt.Node.Pos(), isC && okV, "the returned value is not one of the defined verdict constants: "+rt.Val.String())
		if !okPol {
			continue
		}
		var ws []string
		for _, w := range rt.St.Writes {
			ws = append(ws, w.Pos())
		}
		sort.Strings(ws)
		switch pol.kind {
		case "never":
			r.Check("C07.passUnmodified", fn.Name, "no frame store before "+name, rt.Node.Pos(), len(ws) == 0,
				fmt.Sprintf("%s (%s) stores into the frame at %v before this return", fn.Name, pol.why, firstN(ws, 4)))
		case "notOnPass":
			if isC && v == pass {
				r.Check("C07.passUnmodified", fn.Name, "frame untouched at "+name, rt.Node.Pos(), len(ws) == 0,
					fmt.Sprintf("the frame has already been rewritten (%d stores, first at %v) when this path hands it to the stack with the pass verdict: userspace receives a mangled request", len(ws), firstN(ws, 3)))
			} else {
				r.Check("C07.passUnmodified", fn.Name, "non-pass "+name, rt.Node.Pos(), true, "")
			}
		case "afterLookup":
			r.Check("C07.passUnmodified", fn.Name, "stores gated at "+name, rt.Node.Pos(), true, "")
		}
	}
	if okPol && pol.kind == "afterLookup" {
		for _, ev := range x.Events {
			if ev.Kind != "pktstore" {
				continue
			}
			gated := false
			for _, m := range ev.Looked {
				if m == pol.m {
					gated = true
				}
			}
			r.Check("C07.passUnmodified", fn.Name, k.name(fn.Name, "store "+cfront.Render(ev.Node)+" after "+pol.m+" hit"), ev.Node.Pos(), gated,
				"the frame is modified on a path where no "+pol.m+" lookup has succeeded: traffic the program is not specified to act on is altered ("+pol.why+")")
		}
	}
	for _, l := range x.Loops {
		r.Check("C07.verdict", fn.Name, k.name(fn.Name, "constant trip count of loop in "+l.Func), l.Node.Pos(), l.Const, "the loop bound is not a compile-time constant")
	}
}

func firstN(s []string, n int) []string {
	if len(s) > n {
		return s[:n]
	}
	return s
}

func stripPos(p string) string {
	if i := strings.Index(p, ": "); i > 0 && strings.HasPrefix(p, "bpf/") {
		return p[i+2:]
	}
	return p
}

func posOf(p string) string {
	if i := strings.Index(p, ": "); i > 0 && strings.HasPrefix(p, "bpf/") {
		return p[:i]
	}
	return "-"
}
