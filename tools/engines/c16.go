package engines

import (
	"fmt"
	"go/types"
	"sort"
	"strings"

	"bngvet/internal/esp"
	"bngvet/internal/flow"
	"bngvet/internal/load"
	"bngvet/internal/locks"

	"golang.org/x/tools/go/ssa"
)

func init() { Registry["C16"] = C16 }

type callPred func(call ssa.CallInstruction) bool

// callTo matches a static call to pkg.(recv).name (pkg by import-path suffix).
func callTo(pkg, recv, name string) callPred {
	return func(call ssa.CallInstruction) bool { return flow.CalleeIs(call, pkg, recv, name) }
}

// invokeOf matches an interface method call by method name.
func invokeOf(method string) callPred {
	return func(call ssa.CallInstruction) bool {
		com := call.Common()
		return com.IsInvoke() && com.Method.Name() == method
	}
}

// invokeOnField matches an interface method call whose receiver is loaded from struct field T.f.
func invokeOnField(method, field string) callPred {
	return func(call ssa.CallInstruction) bool {
		com := call.Common()
		return com.IsInvoke() && com.Method.Name() == method && strings.HasSuffix(flow.FieldOwner(com.Value), field)
	}
}

// callOnField matches a static method call whose receiver is loaded from struct field T.f.
func callOnField(pkg, recv, fn, field string) callPred {
	return func(call ssa.CallInstruction) bool {
		com := call.Common()
		return flow.CalleeIs(call, pkg, recv, fn) && len(com.Args) > 0 && strings.HasSuffix(flow.FieldOwner(com.Args[0]), field)
	}
}

// fieldFuncCall matches a dynamic call of a function value loaded from struct field T.f.
func fieldFuncCall(field string) callPred {
	return func(call ssa.CallInstruction) bool {
		com := call.Common()
		return !com.IsInvoke() && com.StaticCallee() == nil && strings.HasSuffix(fieldOrigin(com.Value), field)
	}
}

// deleteFrom matches delete(x.field, k).
func deleteFrom(field string) callPred {
	return func(call ssa.CallInstruction) bool {
		com := call.Common()
		b, ok := com.Value.(*ssa.Builtin)
		return ok && b.Name() == "delete" && strings.HasSuffix(flow.FieldOwner(com.Args[0]), field)
	}
}

func anyOf(ps ...callPred) callPred {
	return func(call ssa.CallInstruction) bool {
		for _, p := range ps {
			if p(call) {
				return true
			}
		}
		return false
	}
}

// acctStatus matches radius.(*Client).SendAccounting whose request literal has the given StatusType constant name.
func acctStatus(c *Ctx, want string) callPred {
	val := ""
	if pk := c.P.Pkg("pkg/radius"); pk != nil {
		if k, ok := pk.Types.Scope().Lookup(want).(*types.Const); ok {
			val = k.Val().ExactString()
		}
	}
	return func(call ssa.CallInstruction) bool {
		if !flow.CalleeIs(call, "pkg/radius", "Client", "SendAccounting") || val == "" {
			return false
		}
		args := call.Common().Args
		al, ok := args[len(args)-1].(*ssa.Alloc)
		if !ok {
			return false
		}
		for _, rf := range *al.Referrers() {
			fa, ok := rf.(*ssa.FieldAddr)
			if !ok || fieldVarName(fa) != "StatusType" {
				continue
			}
			for _, rr := range *fa.Referrers() {
				if st, ok := rr.(*ssa.Store); ok {
					if k, ok := st.Val.(*ssa.Const); ok && k.Value != nil && k.Value.ExactString() == val {
						return true
					}
				}
			}
		}
		return false
	}
}

type c16Res struct {
	name   string
	rel    callPred
	absent func(atoms []string) bool // nothing of this kind is held on this path
}

type c16Term struct {
	kind      string
	rel       string // package
	recv, fn  string
	claim     callPred
	claimMap  string // primary map field for the atomic-claim rule ("" = not a map claim in this function)
	resources []c16Res
	// noSession: the path's guards show there was no session object at all (nil entry) or no table to claim from
	noSession func(atoms []string) bool
	// drain: the function claims sessions in one loop, appends them to a local work list and releases their
	// resources in a second loop over that list (outside the table lock); drain matches the per-session release call.
	drain callPred
}

func nilField(f string) func([]string) bool {
	return func(a []string) bool { return atomHolds(a, f, "==", "nil") }
}

func orAbsent(fs ...func([]string) bool) func([]string) bool {
	return func(a []string) bool {
		for _, f := range fs {
			if f(a) {
				return true
			}
		}
		return false
	}
}

func C16(c *Ctx) {
	r := c.R
	r.Rule("C16.handleKept", "a DHCP lease record that replaces an existing one keeps the circuit-id under which the secondary index and the fast-path entries were written; otherwise the releases of every termination path are skipped as handle-absent and the entries stay for ever", 1)
	defer leaseHandleKept(c, "C16.handleKept")
	r.Explain = "For every modelled termination path, a finite-domain disjunctive dataflow over its SSA (same-package callees summarised; handle guards — nil/emptiness tests of the resource's own handle, capability calls — recorded as atoms, all other conditions explored both ways) yields the set of exit configurations; in every configuration in which the session was claimed (removed from its primary table) each resource establishment may have acquired must have been released or its handle must be provably absent on that path.  Plus: no release without a claim, and the claim's lookup and removal happen in one critical section.  Concurrent pairs beyond claim atomicity and idempotence of the callee releases are not decided."
	r.Rule("C16.release", "on every path of a termination function that claims the session, each resource the session may hold is released, or the path's guards show that resource's handle is absent", 25)
	r.Rule("C16.claimFirst", "a termination function releases resources only on paths that claimed the session (so that a second termination of the same session releases nothing)", 6)
	r.Rule("C16.atomicClaim", "the lookup of the session and its removal from the primary table happen while the table's mutex is held continuously", 4)

	dhcpRes := []c16Res{
		{"circuit-id lease index", deleteFrom("Server.leasesByCircuitID"), func(a []string) bool { return atomHolds(a, "len(Lease.CircuitID)", "<=", "0") }},
		{"pool address", anyOf(callTo("pkg/dhcp", "Pool", "Release"), callTo("pkg/dhcp", "Pool", "MarkUnavailable")), func(a []string) bool { return atomHolds(a, "GetPool()", "==", "nil") }},
		{"QoS policy", callTo("pkg/qos", "Manager", "RemoveSubscriberQoS"), nilField("Server.qosMgr")},
		{"NAT block", callTo("pkg/nat", "Manager", "DeallocateNAT"), nilField("Server.natMgr")},
		// (the expiry sweep re-parses the table key, which is always the String() of a hardware address)
		{"fast-path MAC entry", callTo("pkg/ebpf", "Loader", "RemoveSubscriber"), orAbsent(nilField("Server.loader"), func(a []string) bool { return atomHolds(a, "ParseMAC()#0", "==", "nil") })},
		{"fast-path VLAN entry", callTo("pkg/ebpf", "Loader", "RemoveVLANSubscriber"), orAbsent(nilField("Server.loader"),
			func(a []string) bool {
				return (atomHolds(a, "Lease.STag", "<=", "0") && atomHolds(a, "Lease.CTag", "<=", "0")) || has(a, "!call:HasVLANSupport")
			})},
		{"circuit-id MAC mapping", callTo("pkg/ebpf", "Loader", "RemoveCircuitIDMapping"), orAbsent(nilField("Server.loader"), func(a []string) bool { return atomHolds(a, "len(Lease.CircuitID)", "<=", "0") })},
		{"circuit-id subscriber entry", callTo("pkg/ebpf", "Loader", "RemoveCircuitIDSubscriber"), orAbsent(nilField("Server.loader"),
			func(a []string) bool {
				return atomHolds(a, "len(Lease.CircuitID)", "<=", "0") || has(a, "!call:HasCircuitIDSubscriberSupport")
			})},
		{"Accounting-Stop", acctStatus(c, "AcctStatusStop"), orAbsent(nilField("Server.radiusClient"), func(a []string) bool { return atomHolds(a, "Lease.SessionID", "==", `""`) })},
	}
	// a nil *Lease stored in the table holds nothing
	nilLease := func(a []string) bool { return atomHolds(a, "elem(Server.leases)", "==", "nil") }
	pppoeIP := c16Res{"client IP", anyOf(callTo("pkg/pppoe", "IPPool", "Release"), invokeOf("Release")),
		orAbsent(nilField("Server.clientIPPool"), nilField("SessionTeardown.ipPool"), nilField("Session.ClientIP"))}
	terms := []c16Term{
		{"DHCPv4 lease", "pkg/dhcp", "Server", "handleRelease", deleteFrom("Server.leases"), "Server.leases", dhcpRes, nilLease, nil},
		{"DHCPv4 lease", "pkg/dhcp", "Server", "handleDecline", deleteFrom("Server.leases"), "Server.leases", dhcpRes, nilLease, nil},
		{"DHCPv4 lease", "pkg/dhcp", "Server", "cleanupExpiredLeases", deleteFrom("Server.leases"), "", dhcpRes, nilLease, callTo("pkg/dhcp", "Server", "releaseLeaseResources")},
		{"PPPoE session (server)", "pkg/pppoe", "Server", "handlePADT", callTo("pkg/pppoe", "SessionManager", "RemoveSession"), "", []c16Res{pppoeIP}, nil, nil},
		{"PPPoE session (server)", "pkg/pppoe", "Server", "handleLCPTermRequest", callTo("pkg/pppoe", "SessionManager", "RemoveSession"), "", []c16Res{pppoeIP}, nil, nil},
		{"PPPoE session (idle sweep)", "pkg/pppoe", "SessionManager", "CleanupExpired", deleteFrom("SessionManager.sessions"), "", []c16Res{
			// (the MAC index entry is removed only when it still points at this session: a newer session may own it)
			{"MAC index", deleteFrom("SessionManager.macToSession"), func(a []string) bool { return atomHolds(a, "elem(SessionManager.macToSession)", "!=", "·") }},
			{"client IP (owner's onExpire callback)", fieldFuncCall("SessionManager.onExpire"), nilField("SessionManager.onExpire")}}, nil, nil},
		{"PPPoE session (teardown)", "pkg/pppoe", "SessionTeardown", "cleanup", callTo("pkg/pppoe", "SessionManager", "RemoveSession"), "", []c16Res{
			{"eBPF map entry", fieldFuncCall("SessionTeardown.updateEBPFMaps"), nilField("SessionTeardown.updateEBPFMaps")},
			{"Accounting-Stop", anyOf(callTo("pkg/pppoe", "SessionTeardown", "sendAccountingStop"), acctStatus(c, "AcctStatusStop")),
				orAbsent(nilField("SessionTeardown.radiusClient"), func(a []string) bool { return has(a, "!Session.Authenticated") })},
			pppoeIP}, nilField("SessionTeardown.sessions"), nil},
		{"subscriber session", "pkg/subscriber", "Manager", "TerminateSession", deleteFrom("Manager.sessions"), "Manager.sessions", []c16Res{
			{"IPv4 address", invokeOf("ReleaseIPv4"), orAbsent(nilField("Manager.allocator"), nilField("Session.IPv4"))},
			{"IPv6 address", invokeOf("ReleaseIPv6"), orAbsent(nilField("Manager.allocator"), nilField("Session.IPv6"))},
			{"by-MAC index", deleteFrom("Manager.byMAC"), nilField("Session.MAC")},
			{"by-IP index", deleteFrom("Manager.byIP"), func(a []string) bool {
				return atomHolds(a, "Session.IPv4", "==", "nil") && atomHolds(a, "Session.IPv6", "==", "nil")
			}},
		}, nil, nil},
		{"DHCPv6 lease", "pkg/dhcpv6", "Server", "handleRelease", deleteFrom("Server.leases"), "Server.leases", []c16Res{
			// leaf effects (the helpers releaseAddress/releasePrefix are summarised, or may have been inlined by hand):
			// the external allocator's Release, else the legacy pool's; nothing is held when neither is configured
			{"address", anyOf(callOnField("pkg/allocator", "PoolAllocator", "Release", "Server.addressAllocator"), callTo("pkg/dhcpv6", "AddressPool", "Release")),
				orAbsent(nilField("Lease.Address"), func(a []string) bool {
					return nilField("Server.addressAllocator")(a) && nilField("Server.addressPool")(a)
				})},
			{"prefix", anyOf(callOnField("pkg/allocator", "PoolAllocator", "Release", "Server.prefixAllocator"), callTo("pkg/dhcpv6", "PrefixPool", "Release")),
				orAbsent(nilField("Lease.Prefix"), func(a []string) bool {
					return nilField("Server.prefixAllocator")(a) && nilField("Server.prefixPool")(a)
				})},
		}, nil, nil},
	}
	for _, t := range terms {
		c16Term1(c, t)
	}
	// the idle sweep releases the address through the callback the server registers
	if f := c.fn("pkg/pppoe", "", "newServerWithInterface"); f != nil {
		ok := false
		for _, call := range flow.Calls(f) {
			if !flow.CalleeIs(call, "pkg/pppoe", "SessionManager", "SetOnExpire") {
				continue
			}
			if mc, isMC := call.Common().Args[1].(*ssa.MakeClosure); isMC {
				for _, ic := range flow.Calls(mc.Fn.(*ssa.Function)) {
					if flow.CalleeIs(ic, "pkg/pppoe", "IPPool", "Release") {
						ok = true
					}
				}
			}
		}
		r.Check("C16.release", load.ShortFunc(f), "onExpire callback releases the client IP", c.P.Pos(f.Pos()), ok, "the server does not register an idle-sweep callback that returns the session's address to the pool")
	}
	// every way a session ends funnels into one of the modelled functions
	c16Funnel(c)
}

func c16Term1(c *Ctx, t c16Term) {
	r := c.R
	f := c.fn(t.rel, t.recv, t.fn)
	if f == nil {
		return
	}
	sp := c.P.SSAPkg(t.rel)
	tn, _ := sp.Pkg.Scope().Lookup(t.recv).(*types.TypeName)
	if tn == nil {
		r.Fatalf("C16: type %s.%s not found", t.rel, t.recv)
		return
	}
	label := func(call ssa.CallInstruction) []string {
		var out []string
		if t.claim(call) {
			out = append(out, "claim")
		}
		if t.drain != nil {
			if t.drain(call) {
				out = append(out, "drain")
			}
			if b, ok := call.Common().Value.(*ssa.Builtin); ok && b.Name() == "append" && call.Parent() == f {
				out = append(out, "enqueue")
			}
		}
		for _, res := range t.resources {
			if res.rel(call) {
				out = append(out, "rel:"+res.name)
			}
		}
		return out
	}
	spec := &esp.Spec{
		Recv:   tn.Type().(*types.Named),
		Fields: map[string]bool{},
		Atom:   c16Guard,
		Inline: func(callee *ssa.Function) bool { return callee.Pkg == sp && len(callee.Blocks) > 0 },
	}
	spec.MultiAction = func(call ssa.CallInstruction) []string {
		ls := label(call)
		// a goroutine / deferred closure started here performs its releases as part of this path
		var fnv ssa.Value = call.Common().Value
		if mc, ok := fnv.(*ssa.MakeClosure); ok {
			for _, inner := range flow.WithAnon(mc.Fn.(*ssa.Function)) {
				for _, ic := range flow.Calls(inner) {
					ls = append(ls, label(ic)...)
				}
			}
		}
		return ls
	}
	outs := spec.Run(f, nil)
	r.Count("esp_steps", spec.Steps)
	r.Count("exit_configurations", len(outs))
	fname := load.ShortFunc(f)
	claimed := 0
	type miss struct{ atoms []string }
	missing := map[string]*miss{}
	relNoClaim := []string{}
	for _, o := range outs {
		acts, atoms := o.ActList(), o.AtomList()
		if t.noSession != nil && t.noSession(atoms) {
			continue
		}
		if t.drain != nil {
			// work-list style: every claim enqueues; completeness is judged on configurations that went through both
			// the claiming loop and the draining loop (the others pair a claim with an empty list or vice versa and are
			// infeasible: the list is non-empty exactly when something was claimed — checked structurally below)
			if has(acts, "claim") && !has(acts, "enqueue") {
				missing["work-list entry"] = &miss{atoms}
			}
			if !(has(acts, "claim") && has(acts, "drain")) {
				if has(acts, "claim") {
					claimed++
				}
				continue
			}
		} else if !has(acts, "claim") {
			for _, a := range acts {
				if strings.HasPrefix(a, "rel:") {
					relNoClaim = append(relNoClaim, fmt.Sprintf("%s on path %v", a, atoms))
				}
			}
			continue
		}
		claimed++
		for _, res := range t.resources {
			if has(acts, "rel:"+res.name) {
				continue
			}
			if res.absent != nil && res.absent(atoms) {
				continue
			}
			if missing[res.name] == nil {
				missing[res.name] = &miss{atoms}
			}
		}
	}
	if claimed == 0 {
		r.Check("C16.release", fname, "claims the session", c.P.Pos(f.Pos()), false, "no path of this termination function removes the session from its primary table — anchors moved?")
		return
	}
	if t.drain != nil {
		m := missing["work-list entry"]
		d := ""
		if m != nil {
			d = fmt.Sprintf("a lease is removed from the table on a path that does not append it to the release work list (path guards: %v)", m.atoms)
		}
		r.Check("C16.release", fname, "claimed sessions are queued for release", c.P.Pos(f.Pos()), m == nil, d)
		okList, why := drainsEnqueued(f, t.drain)
		r.Check("C16.release", fname, "the release loop ranges over the queued sessions", c.P.Pos(f.Pos()), okList, why)
	}
	for _, res := range t.resources {
		m := missing[res.name]
		detail := ""
		if m != nil {
			detail = fmt.Sprintf("%s: a path that ends the session does not release its %s and does not establish that none is held (path guards: %v)", t.kind, res.name, m.atoms)
		}
		r.Check("C16.release", fname, res.name, c.P.Pos(f.Pos()), m == nil, detail)
	}
	sort.Strings(relNoClaim)
	d := ""
	if len(relNoClaim) > 0 {
		d = "resources are released on a path that did not claim the session: " + relNoClaim[0]
	}
	r.Check("C16.claimFirst", fname, "releases only after claim", c.P.Pos(f.Pos()), len(relNoClaim) == 0, d)

	// atomic claim: lookup and delete of the primary map under one continuous lock hold
	if t.claimMap != "" {
		h := locks.Analyze(f)
		var lookups []ssa.Instruction
		var dels []ssa.CallInstruction
		var unlocks []ssa.CallInstruction
		flow.Instrs(f, func(in ssa.Instruction) {
			if lk, ok := in.(*ssa.Lookup); ok && strings.HasSuffix(flow.FieldOwner(lk.X), t.claimMap) {
				lookups = append(lookups, in)
			}
			if call, ok := in.(ssa.CallInstruction); ok {
				if deleteFrom(t.claimMap)(call) {
					dels = append(dels, call)
				}
				if op, ok := locks.ClassifyCall(call); ok && !op.Acquire {
					if _, isDefer := in.(*ssa.Defer); !isDefer {
						unlocks = append(unlocks, call)
					}
				}
			}
		})
		ok, why := len(lookups) > 0 && len(dels) > 0, "lookup or delete of the primary table not found in this function"
		for _, d := range dels {
			if len(h.HeldAt(d)) == 0 {
				ok, why = false, "the session is removed from the table without holding a mutex"
			}
			for _, lk := range lookups {
				if !flow.InstrDominates(lk, d) {
					continue
				}
				if len(h.HeldAt(lk)) == 0 {
					ok, why = false, "the session is looked up without holding a mutex"
				}
				for _, u := range unlocks {
					if flow.InstrDominates(lk, u) && flow.InstrDominates(u, d) && !claimFlagBefore(h, lk, u) {
						ok, why = false, "the mutex is released between looking the session up and removing it, and no claim flag is tested-and-set under the first hold: two concurrent terminations both pass the existence check and both release its resources"
					}
				}
			}
		}
		r.Check("C16.atomicClaim", fname, t.claimMap, c.P.Pos(f.Pos()), ok, why)
	}
}

// c16Funnel: the other ways a session ends reach one of the modelled termination functions.
func c16Funnel(c *Ctx) {
	r := c.R
	r.Rule("C16.funnel", "every other termination entry point (DHCPv6 decline, teardown by id/MAC/username/all, PADT via teardown, subscriber idle/session timeout sweep) reaches a modelled termination function", 7)
	cg := c.P.CallGraph()
	type fun struct{ rel, recv, fn, target string }
	for _, x := range []fun{
		{"pkg/dhcpv6", "Server", "handleDecline", "handleRelease"},
		{"pkg/pppoe", "SessionTeardown", "HandleClientPADT", "cleanup"},
		{"pkg/pppoe", "SessionTeardown", "TerminateSession", "cleanup"},
		{"pkg/pppoe", "SessionTeardown", "TerminateByID", "cleanup"},
		{"pkg/pppoe", "SessionTeardown", "TerminateByMAC", "cleanup"},
		{"pkg/pppoe", "SessionTeardown", "TerminateByUsername", "cleanup"},
		{"pkg/pppoe", "SessionTeardown", "TerminateAll", "cleanup"},
		{"pkg/subscriber", "Manager", "cleanupExpiredSessions", "TerminateSession"},
		{"pkg/dhcp", "Server", "leaseCleanup", "cleanupExpiredLeases"},
	} {
		f := c.fn(x.rel, x.recv, x.fn)
		if f == nil {
			continue
		}
		reach := flow.ReachableFuncs(cg, []*ssa.Function{f}, func(g *ssa.Function) bool { return !load.InModule(g) })
		ok := false
		for g := range reach {
			if g.Name() == x.target && flow.RecvTypeName(g) == x.recv {
				ok = true
			}
		}
		r.Check("C16.funnel", load.ShortFunc(f), "reaches "+x.target, c.P.Pos(f.Pos()), ok, "this termination entry point no longer reaches "+x.target+", whose release discipline is what is checked")
	}
}

// claimFlagBefore: between the lookup lk and the unlock u (both under the lock) a field of the looked-up object is
// compared with a constant K (with the equal branch leaving the function without reaching u... i.e. the store is
// on the other branch) and then set to K: a test-and-set claim that makes the second caller back off.
func claimFlagBefore(h *locks.Held, lk ssa.Instruction, u ssa.CallInstruction) bool {
	f := lk.Parent()
	found := false
	flow.Instrs(f, func(in ssa.Instruction) {
		st, ok := in.(*ssa.Store)
		if !ok || !flow.InstrDominates(lk, st) || !flow.InstrDominates(st, u) || len(h.HeldAt(st)) == 0 {
			return
		}
		k, isK := st.Val.(*ssa.Const)
		fo := flow.FieldOwner(st.Addr)
		if !isK || fo == "" || k.Value == nil {
			return
		}
		// a dominating test `field == K` whose false edge leads here
		for _, ft := range flow.FactsAtInstr(st) {
			b, ok := ft.Cond.(*ssa.BinOp)
			if !ok {
				continue
			}
			kk, isKK := b.Y.(*ssa.Const)
			if !isKK || kk.Value == nil || kk.Value.ExactString() != k.Value.ExactString() || flow.FieldOwner(b.X) != fo {
				continue
			}
			if (b.Op.String() == "==" && !ft.Pol) || (b.Op.String() == "!=" && ft.Pol) {
				if len(h.HeldAt(ft.At.Instrs[len(ft.At.Instrs)-1])) > 0 {
					found = true
				}
			}
		}
	})
	return found
}

// drainsEnqueued: the per-session release call takes its session from an element of the slice that the claiming
// loop appends to (the slice value indexed in the draining loop is φ-connected to the append results), and the
// draining loop is not guarded by anything but its own range condition after the claiming loop.
func drainsEnqueued(f *ssa.Function, drain callPred) (bool, string) {
	var appends []ssa.Value
	flow.Instrs(f, func(in ssa.Instruction) {
		if call, ok := in.(*ssa.Call); ok {
			if b, ok := call.Call.Value.(*ssa.Builtin); ok && b.Name() == "append" {
				appends = append(appends, call)
			}
		}
	})
	connected := func(v ssa.Value) bool {
		seen := map[ssa.Value]bool{}
		var walk func(x ssa.Value) bool
		walk = func(x ssa.Value) bool {
			if seen[x] {
				return false
			}
			seen[x] = true
			for _, a := range appends {
				if a == x {
					return true
				}
			}
			if p, ok := x.(*ssa.Phi); ok {
				for _, e := range p.Edges {
					if walk(e) {
						return true
					}
				}
			}
			return false
		}
		return walk(v)
	}
	found := false
	for _, call := range flow.Calls(f) {
		if !drain(call) {
			continue
		}
		found = true
		ok := false
		for _, a := range call.Common().Args {
			// the argument is a field of an element loaded from the queued slice
			v := a
			for i := 0; i < 6 && v != nil; i++ {
				switch x := v.(type) {
				case *ssa.UnOp:
					v = x.X
				case *ssa.FieldAddr:
					v = x.X
				case *ssa.Field:
					v = x.X
				case *ssa.IndexAddr:
					if connected(x.X) {
						ok = true
					}
					v = nil
				case *ssa.Alloc:
					// local copy of the element: find what is stored into it
					var src ssa.Value
					for _, rf := range *x.Referrers() {
						if st, isSt := rf.(*ssa.Store); isSt && st.Addr == ssa.Value(x) {
							src = st.Val
						}
					}
					v = src
				default:
					v = nil
				}
			}
		}
		if !ok {
			return false, "the release call's session does not come from the work list the claiming loop fills"
		}
	}
	if !found {
		return false, "no release call found"
	}
	return true, ""
}

// c16Guard names only the conditions that can decide whether a resource handle is present; error checks on the
// results of the release calls themselves (logged and ignored by the code) are explored without being recorded,
// which keeps the configuration space small.
func c16Guard(cond ssa.Value) (string, []string, bool) {
	name, fields, ok := guardName(cond)
	if !ok {
		return "", nil, false
	}
	if i := strings.Index(name, "()"); i > 0 && !strings.HasPrefix(name, "len(") && !strings.HasPrefix(name, "elem(") && !strings.HasPrefix(name, "found(") {
		switch name[:i] {
		case "GetPool", "ParseMAC", "GetSession", "Lookup":
		default:
			return "", nil, false
		}
	}
	if strings.HasPrefix(name, "call:") && !strings.HasPrefix(name, "call:Has") {
		return "", nil, false
	}
	return canonGuard(name), fields, true
}
