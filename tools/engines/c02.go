package engines

import (
	"fmt"
	"go/token"
	"go/types"
	"strings"

	"bngvet/internal/esp"
	"bngvet/internal/flow"
	"bngvet/internal/load"

	"golang.org/x/tools/go/ssa"
)

func init() { Registry["C02"] = C02 }

func C02(c *Ctx) {
	r := c.R
	r.Explain = "Structural clauses of 'DHCP servers never bind one address to two clients': (v4) the address a REQUEST names reaches the lease record / the ACK only on paths where it was compared equal with the client's existing lease or confirmed by the ownership oracle (path-sensitive taint with sanitisers; pool membership is not a sanitiser); every NAK is returned immediately; the OFFERed address comes from the lease, the pool's allocator or the central allocator only; a DECLINE quarantines only the declining client's own address and removes it from both the owner map and the free list; free lists exclude network, broadcast and gateway; (v6) bindings are keyed by the DUID taken from the message's Client-ID option and a declined address must not go back to the free list.  Message interleavings, time and INIT-REBOOT semantics are not decided."
	r.Rule("C02.A1.requestProvenance", "handleRequest stores / acknowledges the client-named address only on paths where it equals the existing lease's address or addressOfferedTo(mac, ip, pool) held", 3)
	r.Rule("C02.A2.nakReturns", "every buildNAK result is returned at once (no fall-through to the ACK path)", 4)
	r.Rule("C02.A3.declineQuarantine", "DECLINE quarantines only the address leased to the declining client; quarantining removes the address from the owner map and the free list and records it as unavailable; nothing but slices of the free list itself is appended to it on that path", 5)
	r.Rule("C02.A4.v6DeclineNotFreed", "a DHCPv6 DECLINE does not return the declined address/prefix to the free pool", 1)
	r.Rule("C02.A5.v6KeyedByClientID", "DHCPv6 bindings are looked up and allocated under the DUID of the message's Client-ID option", 5)
	r.Rule("C02.A6.offerSource", "the address put into an OFFER comes from the client's unexpired lease, the pool allocator or the central allocator", 1)
	r.Rule("C02.A8.releaseOwnAddress", "the address handed to the pool on RELEASE/expiry is the lease's own address, never a field of the request", 2)
	r.Rule("C02.A9.expiryStamped", "if anything consults a DHCPv6 binding's expiry stamp, every path that records an address or prefix in a binding also stamps it", 1)
	r.Rule("C02.A7.usableOnly", "free lists are generated without the network, broadcast and gateway addresses", 3)

	c02Request(c)
	c02Decline(c)
	c02V6(c)
	c02OfferSource(c)
	c02Usable(c)
	c02ReleaseOwn(c)
	c02ExpiryStamp(c)
}

// c02ReleaseOwn: Pool.Release / MarkUnavailable-on-expiry arguments are the lease's address.
func c02ReleaseOwn(c *Ctx) {
	r := c.R
	n := 0
	for _, f := range c.moduleFuncs() {
		if f.Pkg == nil || !strings.HasSuffix(f.Pkg.Pkg.Path(), "pkg/dhcp") {
			continue
		}
		for _, call := range flow.Calls(f) {
			if !flow.CalleeIs(call, "pkg/dhcp", "Pool", "Release") {
				continue
			}
			n++
			arg := call.Common().Args[1]
			tainted := requestDerived(arg, map[ssa.Value]bool{})
			own := strings.HasSuffix(flow.FieldOwner(arg), "Lease.IP")
			r.Check("C02.A8.releaseOwnAddress", load.ShortFunc(f), "Pool.Release(lease.IP)", c.P.Pos(instrPos(call)), own && !tainted,
				"the address released into the pool is not the lease's own address (it can be a field of the client's message): a client can free another subscriber's address, which is then offered to a third while its holder's lease is still valid")
		}
	}
	if n == 0 {
		r.Check("C02.A8.releaseOwnAddress", "dhcp", "Pool.Release call sites", "-", false, "no call of Pool.Release found")
	}
}

// c02ExpiryStamp: conditional completeness of the DHCPv6 expiry stamp.
func c02ExpiryStamp(c *Ctx) {
	r := c.R
	const pkg = "pkg/dhcpv6"
	sp := c.P.SSAPkg(pkg)
	reader := ""
	for _, f := range c.moduleFuncs() {
		if f.Pkg != sp {
			continue
		}
		flow.Instrs(f, func(in ssa.Instruction) {
			if ld, ok := in.(*ssa.UnOp); ok && ld.Op == token.MUL && strings.HasSuffix(flow.FieldOwner(ld.X), "Lease.ValidEnd") {
				reader = load.ShortFunc(f)
			}
		})
	}
	if reader == "" {
		r.Check("C02.A9.expiryStamped", "dhcpv6", "expiry stamp consulted nowhere", "-", true, "")
		r.Note("C02.A9: nothing reads dhcpv6 Lease.ValidEnd on this tree, so incomplete stamping (the IA_PD branch of buildReply never sets it) has no behavioural effect; the rule arms itself as soon as a reader appears")
		return
	}
	for _, f := range c.moduleFuncs() {
		if f.Pkg != sp {
			continue
		}
		flow.Instrs(f, func(in ssa.Instruction) {
			st, ok := in.(*ssa.Store)
			if !ok {
				return
			}
			fo := flow.FieldOwner(st.Addr)
			if !(strings.HasSuffix(fo, "Lease.Address") || strings.HasSuffix(fo, "Lease.Prefix")) || isNilConst(st.Val) {
				return
			}
			stamped := false
			flow.Instrs(f, func(in2 ssa.Instruction) {
				if s2, ok := in2.(*ssa.Store); ok && strings.HasSuffix(flow.FieldOwner(s2.Addr), "Lease.ValidEnd") {
					if s2.Block() == st.Block() || sameRegion(st, s2) || sameRegion(s2, st) {
						stamped = true
					}
				}
			})
			r.Check("C02.A9.expiryStamped", load.ShortFunc(f), "binding of "+fo+" stamps ValidEnd", c.P.Pos(instrPos(st)), stamped,
				"a binding is recorded without its expiry stamp while "+reader+" treats a zero/old stamp as expired: a live delegation is reclaimed and given to another client")
		})
	}
}

// requestDerived: v is (a φ / conversion of) req.RequestedIPAddress() or req.ClientIPAddr.
func requestDerived(v ssa.Value, seen map[ssa.Value]bool) bool {
	if seen[v] {
		return false
	}
	seen[v] = true
	switch x := v.(type) {
	case *ssa.Call:
		if g := x.Call.StaticCallee(); g != nil && g.Name() == "RequestedIPAddress" {
			return true
		}
	case *ssa.UnOp:
		if strings.HasSuffix(flow.FieldOwner(x), "DHCPv4.ClientIPAddr") {
			return true
		}
		// a local captured by a closure lives in a cell: any value stored into the cell
		if al, ok := x.X.(*ssa.Alloc); ok {
			for _, rf := range *al.Referrers() {
				if st, ok := rf.(*ssa.Store); ok && st.Addr == ssa.Value(al) && requestDerived(st.Val, seen) {
					return true
				}
			}
		}
	case *ssa.Phi:
		for _, e := range x.Edges {
			if requestDerived(e, seen) {
				return true
			}
		}
	case *ssa.ChangeType:
		return requestDerived(x.X, seen)
	case *ssa.MakeInterface:
		return requestDerived(x.X, seen)
	}
	return false
}

func c02Request(c *Ctx) {
	r := c.R
	const pkg = "pkg/dhcp"
	f := c.fn(pkg, "Server", "handleRequest")
	if f == nil {
		return
	}
	tn := c.P.SSAPkg(pkg).Pkg.Scope().Lookup("Server").(*types.TypeName)
	spec := &esp.Spec{Recv: tn.Type().(*types.Named), Fields: map[string]bool{}}
	spec.Atom = func(cond ssa.Value) (string, []string, bool) {
		if call, ok := cond.(*ssa.Call); ok {
			g := call.Call.StaticCallee()
			if g == nil {
				return "", nil, false
			}
			switch g.Name() {
			case "Equal":
				// existingLease.IP.Equal(requestedIP)
				hasLease, hasReq := false, false
				for _, a := range call.Call.Args {
					if strings.HasSuffix(flow.FieldOwner(a), "Lease.IP") {
						hasLease = true
					}
					if requestDerived(a, map[ssa.Value]bool{}) {
						hasReq = true
					}
				}
				if hasLease && hasReq {
					return "lease.IP==requested", nil, true
				}
			case "addressOfferedTo":
				for _, a := range call.Call.Args {
					if requestDerived(a, map[ssa.Value]bool{}) {
						return "offered(requested)", nil, true
					}
				}
			case "Contains":
				return "pool.Contains(requested)", nil, true
			}
			return "", nil, false
		}
		if n, fs, ok := guardName(cond); ok && (strings.HasPrefix(n, "elem(Server.leases)") || strings.HasPrefix(n, "lookupLeaseByCircuitID()")) {
			return canonGuard(n), fs, true
		}
		return "", nil, false
	}
	spec.InstrAction = func(in ssa.Instruction) []string {
		if st, ok := in.(*ssa.Store); ok && strings.HasSuffix(flow.FieldOwner(st.Addr), "Lease.IP") && requestDerived(st.Val, map[ssa.Value]bool{}) {
			return []string{"sink:lease.IP"}
		}
		return nil
	}
	spec.MultiAction = func(call ssa.CallInstruction) []string {
		if g := call.Common().StaticCallee(); g != nil && g.Name() == "WithYourIP" {
			for _, a := range call.Common().Args {
				if requestDerived(a, map[ssa.Value]bool{}) {
					return []string{"sink:yiaddr"}
				}
			}
		}
		return nil
	}
	outs := spec.Run(f, nil)
	nSink := 0
	bad := ""
	for _, o := range outs {
		acts, atoms := o.ActList(), o.AtomList()
		if !hasPrefix(acts, "sink:") {
			continue
		}
		nSink++
		if !has(atoms, "lease.IP==requested") && !has(atoms, "offered(requested)") {
			bad = fmt.Sprintf("path %v reaches %v", atoms, acts)
		}
	}
	r.Check("C02.A1.requestProvenance", load.ShortFunc(f), "client-named address is sanitised before it is leased/acknowledged", c.P.Pos(f.Pos()), nSink > 0 && bad == "",
		"the address named by the client is recorded/acknowledged without having been matched against its lease or the ownership oracle (pool membership alone lets it claim another subscriber's address): "+bad)
	// the sanitiser itself: addressOfferedTo compares with what is held for this MAC
	if g := c.fn(pkg, "Server", "addressOfferedTo"); g != nil {
		ok := true
		why := ""
		for _, b := range g.Blocks {
			ret, isRet := b.Instrs[len(b.Instrs)-1].(*ssa.Return)
			if !isRet || b == g.Recover {
				continue
			}
			v := flow.ReturnValues(ret)[0]
			if !ownershipVerdict(v, 0) {
				ok, why = false, "addressOfferedTo can return a verdict that is not an equality test against the address held for the client ("+v.String()+")"
			}
		}
		r.Check("C02.A1.requestProvenance", load.ShortFunc(g), "verdict is an equality with the held address", c.P.Pos(g.Pos()), ok, why)
		// the local verdict compares with pool.Allocate(mac)
		usesAlloc := false
		for _, call := range flow.Calls(g) {
			if flow.CalleeIs(call, pkg, "Pool", "Allocate") {
				usesAlloc = true
			}
		}
		r.Check("C02.A1.requestProvenance", load.ShortFunc(g), "local verdict asks the pool which address this MAC holds", c.P.Pos(g.Pos()), usesAlloc, "the ownership oracle does not consult the pool's allocation for the client's MAC")
	}
	// ---- A2
	for _, name := range []string{"handleRequest", "handleDiscover", "handleInform"} {
		g := c.P.SSAFunc(pkg, "Server", name)
		if g == nil {
			continue
		}
		for _, call := range flow.Calls(g) {
			if !flow.CalleeIs(call, pkg, "Server", "buildNAK") {
				continue
			}
			cv := call.(*ssa.Call)
			returned := false
			for _, b := range g.Blocks {
				ret, isRet := b.Instrs[len(b.Instrs)-1].(*ssa.Return)
				if !isRet || b != cv.Block() {
					continue
				}
				for _, rv := range flow.ReturnValues(ret) {
					if ex, ok := rv.(*ssa.Extract); ok && ex.Tuple == ssa.Value(cv) {
						returned = true
					}
				}
			}
			r.Check("C02.A2.nakReturns", load.ShortFunc(g), "buildNAK result returned at once", c.P.Pos(instrPos(call)), returned, "a NAK is built but processing continues towards the ACK")
		}
	}
}

// ownershipVerdict: the returned bool is (a conjunction with) an Equal(...) call, or false.
func ownershipVerdict(v ssa.Value, d int) bool {
	if d > 6 {
		return false
	}
	switch x := v.(type) {
	case *ssa.Const:
		return isConstBool(x, false)
	case *ssa.Call:
		g := x.Call.StaticCallee()
		return g != nil && g.Name() == "Equal"
	case *ssa.Phi:
		for _, e := range x.Edges {
			if !ownershipVerdict(e, d+1) {
				return false
			}
		}
		return true
	case *ssa.BinOp:
		return false
	}
	return false
}

func c02Decline(c *Ctx) {
	r := c.R
	const pkg = "pkg/dhcp"
	if f := c.fn(pkg, "Server", "handleDecline"); f != nil {
		tn := c.P.SSAPkg(pkg).Pkg.Scope().Lookup("Server").(*types.TypeName)
		spec := &esp.Spec{Recv: tn.Type().(*types.Named), Fields: map[string]bool{}}
		spec.Atom = func(cond ssa.Value) (string, []string, bool) {
			if call, ok := cond.(*ssa.Call); ok {
				if g := call.Call.StaticCallee(); g != nil && g.Name() == "Equal" {
					for _, a := range call.Call.Args {
						if strings.HasSuffix(flow.FieldOwner(a), "Lease.IP") {
							return "lease.IP==declined", nil, true
						}
					}
				}
				return "", nil, false
			}
			if n, fs, ok := guardName(cond); ok && (strings.HasPrefix(n, "found(Server.leases)") || strings.HasPrefix(n, "elem(Server.leases)")) {
				return canonGuard(n), fs, true
			}
			return "", nil, false
		}
		spec.MultiAction = func(call ssa.CallInstruction) []string {
			if flow.CalleeIs(call, pkg, "Pool", "MarkUnavailable") {
				if requestDerived(call.Common().Args[1], map[ssa.Value]bool{}) {
					return []string{"quarantine:client-named"}
				}
				return []string{"quarantine:lease"}
			}
			return nil
		}
		n := 0
		bad := ""
		for _, o := range spec.Run(f, nil) {
			acts, atoms := o.ActList(), o.AtomList()
			if c.Tier == "debug" {
				fmt.Println("DECLINE", atoms, acts)
			}
			if !hasPrefix(acts, "quarantine:") {
				continue
			}
			n++
			if has(acts, "quarantine:client-named") && !has(atoms, "lease.IP==declined") {
				bad = fmt.Sprintf("path %v", atoms)
			}
		}
		r.Check("C02.A3.declineQuarantine", load.ShortFunc(f), "only the client's own leased address is quarantined", c.P.Pos(f.Pos()), n > 0 && bad == "",
			"the address named in the DECLINE is quarantined without having been compared with the address leased to that client: one client can take every address of the pool out of circulation ("+bad+")")
	}
	if f := c.fn(pkg, "Pool", "MarkUnavailable"); f != nil {
		tn := c.P.SSAPkg(pkg).Pkg.Scope().Lookup("Pool").(*types.TypeName)
		named := tn.Type().(*types.Named)
		ins, _ := mapOps(f, named, "unavailable")
		_, dels := mapOps(f, named, "allocated")
		r.Check("C02.A3.declineQuarantine", load.ShortFunc(f), "recorded as unavailable", c.P.Pos(f.Pos()), len(ins) > 0, "the declined address is not recorded")
		okDel := false
		for _, d := range dels {
			for _, ft := range flow.FactsAtInstr(d) {
				if call, ok := ft.Cond.(*ssa.Call); ok && ft.Pol {
					if g := call.Call.StaticCallee(); g != nil && g.Name() == "Equal" {
						okDel = true
					}
				}
			}
		}
		r.Check("C02.A3.declineQuarantine", load.ShortFunc(f), "removed from the owner map", c.P.Pos(f.Pos()), okDel,
			"the declined address stays in allocated[] under the declining client's MAC: Allocate answers that client's next DISCOVER from allocated[] with the address it just declined")
		okFree := false
		flow.Instrs(f, func(in ssa.Instruction) {
			if st, ok := in.(*ssa.Store); ok && strings.HasSuffix(flow.FieldOwner(st.Addr), "Pool.available") {
				if call, ok := st.Val.(*ssa.Call); ok {
					if b, ok := call.Call.Value.(*ssa.Builtin); ok && b.Name() == "append" {
						okFree = true
					}
				}
			}
		})
		r.Check("C02.A3.declineQuarantine", load.ShortFunc(f), "removed from the free list", c.P.Pos(f.Pos()), okFree, "the declined address stays in the free list")
		c02NoPutBack(c, f)
	}
}

func c02V6(c *Ctx) {
	r := c.R
	const pkg = "pkg/dhcpv6"
	cg := c.P.CallGraph()
	if f := c.fn(pkg, "Server", "handleDecline"); f != nil {
		reach := flow.ReachableFuncs(cg, []*ssa.Function{f}, func(g *ssa.Function) bool { return !load.InModule(g) })
		freed := ""
		for g := range reach {
			if (g.Name() == "Release") && (flow.RecvTypeName(g) == "AddressPool" || flow.RecvTypeName(g) == "PrefixPool" || flow.RecvTypeName(g) == "PoolAllocator") {
				freed = load.ShortFunc(g)
			}
		}
		r.Check("C02.A4.v6DeclineNotFreed", load.ShortFunc(f), "declined address is not released into the pool", c.P.Pos(f.Pos()), freed == "",
			"DECLINE is handled as RELEASE: the address the client reported as in conflict goes straight back to the free pool ("+freed+") and is handed to the next client")
	}
	// A5: the DUID handed to buildReply / buildAdvertise / release is string(<Client-ID option>.Data)
	for _, name := range []string{"handleSolicit", "handleRequest", "handleRenew", "handleRelease", "handleConfirm"} {
		f := c.P.SSAFunc(pkg, "Server", name)
		if f == nil {
			r.Fatalf("C02.A5: dhcpv6 Server.%s not found", name)
			continue
		}
		c.R.Count("functions_analysed", 1)
		var keys []ssa.Value
		for _, call := range flow.Calls(f) {
			g := call.Common().StaticCallee()
			if g == nil || flow.RecvTypeName(g) != "Server" {
				continue
			}
			switch g.Name() {
			case "buildReply", "buildAdvertise", "releaseAddress", "releasePrefix", "allocateAddress", "allocatePrefix":
				for i, p := range g.Params {
					if p.Name() == "clientDUID" && i < len(call.Common().Args) {
						keys = append(keys, call.Common().Args[i])
					}
				}
			}
		}
		flow.Instrs(f, func(in ssa.Instruction) {
			if lk, ok := in.(*ssa.Lookup); ok && strings.HasSuffix(flow.FieldOwner(lk.X), "Server.leases") {
				keys = append(keys, lk.Index)
			}
		})
		if len(keys) == 0 {
			continue
		}
		ok := true
		for _, k := range keys {
			if !fromClientID(k) {
				ok = false
			}
		}
		r.Check("C02.A5.v6KeyedByClientID", load.ShortFunc(f), "binding key = Client-ID option data", c.P.Pos(f.Pos()), ok, "a binding is looked up / allocated under a key that is not the DUID carried in the message's Client-ID option")
	}
}

// fromClientID: v == string(msg.GetOption(OptClientID).Data)
func fromClientID(v ssa.Value) bool {
	for i := 0; i < 6; i++ {
		switch x := v.(type) {
		case *ssa.Convert:
			v = x.X
		case *ssa.ChangeType:
			v = x.X
		case *ssa.UnOp:
			fa, ok := x.X.(*ssa.FieldAddr)
			if !ok || fieldVarName(fa) != "Data" {
				return false
			}
			call, ok := fa.X.(*ssa.Call)
			if !ok {
				return false
			}
			g := call.Call.StaticCallee()
			if g == nil || g.Name() != "GetOption" {
				return false
			}
			k, ok := constInt(call.Call.Args[len(call.Call.Args)-1])
			return ok && k == 1 // OPTION_CLIENTID
		default:
			return false
		}
	}
	return false
}

func c02OfferSource(c *Ctx) {
	r := c.R
	f := c.fn("pkg/dhcp", "Server", "handleDiscover")
	if f == nil {
		return
	}
	for _, call := range flow.Calls(f) {
		g := call.Common().StaticCallee()
		if g == nil || g.Name() != "WithYourIP" {
			continue
		}
		bad := offerSources(call.Common().Args[0], map[ssa.Value]bool{})
		r.Check("C02.A6.offerSource", load.ShortFunc(f), "yiaddr of the OFFER", c.P.Pos(instrPos(call)), len(bad) == 0, "the offered address can come from "+strings.Join(bad, ", "))
	}
}

func offerSources(v ssa.Value, seen map[ssa.Value]bool) []string {
	if seen[v] {
		return nil
	}
	seen[v] = true
	switch x := v.(type) {
	case *ssa.Phi:
		var bad []string
		for _, e := range x.Edges {
			bad = append(bad, offerSources(e, seen)...)
		}
		return bad
	case *ssa.Const:
		if x.Value == nil {
			return nil
		}
	case *ssa.UnOp:
		if strings.HasSuffix(flow.FieldOwner(x), "Lease.IP") {
			return nil
		}
	case *ssa.Extract:
		if call, ok := x.Tuple.(*ssa.Call); ok {
			if g := call.Call.StaticCallee(); g != nil && (g.Name() == "Allocate" || g.Name() == "LookupIPv4") {
				return nil
			}
		}
	case *ssa.Call:
		if g := x.Call.StaticCallee(); g != nil && g.Name() == "ParseIP" {
			a := x.Call.Args[0]
			if strings.HasSuffix(flow.FieldOwner(a), "Subscriber.IPv4Addr") {
				return nil
			}
			if ex, ok := a.(*ssa.Extract); ok {
				if cc, ok := ex.Tuple.(*ssa.Call); ok {
					if h := cc.Call.StaticCallee(); h != nil && h.Name() == "AllocateIPForSubscriber" {
						return nil
					}
				}
			}
		}
	}
	if requestDerived(v, map[ssa.Value]bool{}) {
		return []string{"a field of the request"}
	}
	return []string{v.String()}
}

func c02Usable(c *Ctx) {
	r := c.R
	for _, sp := range []struct{ rel, recv, fn string }{
		{"pkg/dhcp", "Pool", "generateAvailableIPs"},
		{"pkg/pool", "", "generateAvailableIPs"},
		{"pkg/pppoe", "", "NewIPPool"},
	} {
		f := c.fn(sp.rel, sp.recv, sp.fn)
		if f == nil {
			continue
		}
		// every append of a generated address is dominated by a failed Equal(gateway) test
		n := 0
		ok := true
		why := ""
		flow.Instrs(f, func(in ssa.Instruction) {
			call, isCall := in.(*ssa.Call)
			if !isCall {
				return
			}
			b, isB := call.Call.Value.(*ssa.Builtin)
			if !isB || b.Name() != "append" {
				return
			}
			if _, isIPs := call.Type().Underlying().(*types.Slice); !isIPs {
				return
			}
			n++
			gw := false
			for _, ft := range flow.FactsAtInstr(in) {
				if cc, isC := ft.Cond.(*ssa.Call); isC && !ft.Pol {
					if g := cc.Call.StaticCallee(); g != nil && g.Name() == "Equal" {
						gw = true
					}
				}
			}
			if !gw {
				ok, why = false, "an address is added to the free list without the gateway test"
			}
		})
		// network/broadcast: host counter starts at 1 and the count is 2^hostbits - 2, or an explicit broadcast test
		netBcast := false
		flow.Instrs(f, func(in ssa.Instruction) {
			if bo, isB := in.(*ssa.BinOp); isB && bo.Op == token.SUB {
				if k, isK := constInt(bo.Y); isK && k == 2 {
					if sh, isSh := bo.X.(*ssa.BinOp); isSh && sh.Op == token.SHL {
						netBcast = true
					}
				}
			}
			if call, isCall := in.(*ssa.Call); isCall {
				if g := call.Call.StaticCallee(); g != nil && g.Name() == "isBroadcast" {
					netBcast = true
				}
			}
		})
		r.Check("C02.A7.usableOnly", load.ShortFunc(f), "gateway, network and broadcast excluded", c.P.Pos(f.Pos()), n > 0 && ok && netBcast, why+" (or the host range is not 1..2^hostbits-2 / no broadcast test)")
	}
}
