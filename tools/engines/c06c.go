package engines

import (
	"fmt"
	"go/types"
	"sort"
	"strings"

	"bngvet/internal/cexec"
	"bngvet/internal/cfront"
	"bngvet/internal/flow"
	"bngvet/internal/load"

	"golang.org/x/tools/go/ssa"
)

// pattern of a multi-byte quantity: for memory byte k (little-endian hosts: value byte k, LSB first) the index of
// the source byte it holds, -1 for a zero byte; src names the kind of source (ip, mac, field …) for the report.
type bpat struct {
	idx []int64
	src string
}

func (p bpat) String() string { return fmt.Sprintf("%s%v", p.src, p.idx) }

func (p bpat) same(q bpat) bool {
	if len(p.idx) != len(q.idx) {
		return false
	}
	for i := range p.idx {
		if p.idx[i] != q.idx[i] {
			return false
		}
	}
	return true
}

func (p bpat) isIdentity() bool {
	for i, v := range p.idx {
		if v != int64(i) {
			return false
		}
	}
	return len(p.idx) > 1
}

func (p bpat) isReversed() bool {
	n := int64(len(p.idx))
	for i, v := range p.idx {
		if v != n-1-int64(i) {
			return false
		}
	}
	return n > 1
}

// cPattern turns a C byte composition into a pattern when all non-zero bytes come from one source.
func cPattern(comp []cexec.Byte) (bpat, bool) {
	if comp == nil {
		return bpat{}, false
	}
	var p bpat
	base := int64(-1)
	for _, b := range comp {
		if b.Src == "" {
			if b.Idx != 0 {
				return bpat{}, false
			}
			p.idx = append(p.idx, -1)
			continue
		}
		if p.src == "" {
			p.src = b.Src
		} else if p.src != b.Src {
			return bpat{}, false
		}
		if base < 0 || b.Idx < base {
			base = b.Idx
		}
		p.idx = append(p.idx, b.Idx)
	}
	if p.src == "" {
		return bpat{}, false
	}
	for i := range p.idx {
		if p.idx[i] >= 0 {
			p.idx[i] -= base
		}
	}
	return p, true
}

func gPattern(comp []gByte) (bpat, bool) {
	var p bpat
	base := int64(-1)
	for _, b := range comp {
		if b.root == "" {
			p.idx = append(p.idx, -1)
			continue
		}
		if strings.HasPrefix(b.root, "const") {
			return bpat{}, false
		}
		if p.src == "" {
			p.src = b.root
		} else if p.src != b.root {
			return bpat{}, false
		}
		if base < 0 || b.idx < base {
			base = b.idx
		}
		p.idx = append(p.idx, b.idx)
	}
	if p.src == "" {
		return bpat{}, false
	}
	for i := range p.idx {
		if p.idx[i] >= 0 {
			p.idx[i] -= base
		}
	}
	return p, true
}

// lazy evaluation of a Go value outside a summarised helper: operands first, no path sensitivity.
func (g *gEval) lazy(v ssa.Value, env map[ssa.Value]gval, depth int) gval {
	if r, ok := env[v]; ok {
		return r
	}
	if depth > 12 {
		return gval{why: "too deep"}
	}
	env[v] = gval{why: "cycle"}
	var r gval
	switch x := v.(type) {
	case *ssa.Const:
		r = g.val(x, env)
	case *ssa.Parameter:
		r = gval{why: "param:" + x.Name()}
		if isByteSeq(x.Type()) {
			r = gval{kind: gSlice, root: x.Name(), n: -1}
		}
	case *ssa.Phi:
		// all edges must agree
		var first *gval
		for _, e := range x.Edges {
			ev := g.lazy(e, env, depth+1)
			if ev.kind == gConst && ev.k == 0 {
				continue // zero default of a guard
			}
			if first == nil {
				c := ev
				first = &c
			} else if fmt.Sprint(first.comp) != fmt.Sprint(ev.comp) || first.kind != ev.kind {
				first = &gval{why: "phi of different values"}
				break
			}
		}
		if first != nil {
			r = *first
		} else {
			r = gval{kind: gConst}
		}
	case ssa.Instruction:
		for _, op := range x.Operands(nil) {
			if *op != nil {
				if _, isFn := (*op).(*ssa.Function); isFn {
					continue
				}
				if _, isB := (*op).(*ssa.Builtin); isB {
					continue
				}
				g.lazy(*op, env, depth+1)
			}
		}
		r = g.eval(v, env)
		if u, ok := v.(*ssa.UnOp); ok && r.kind == gUnknown {
			// load of a struct field holding bytes (net.IP, HardwareAddr): a named byte source
			if fa, ok := u.X.(*ssa.FieldAddr); ok && isByteSeq(u.Type()) {
				r = gval{kind: gSlice, root: "field:" + flow.FieldOwner(fa), n: -1}
			}
		}
	default:
		r = gval{why: fmt.Sprintf("%T", v)}
	}
	env[v] = r
	return r
}

// goValuePattern finds the byte pattern of the value stored at/with v (a key or field value).
func (g *gEval) goValuePattern(c *Ctx, v ssa.Value, f *ssa.Function, depth int) (bpat, string, bool) {
	if depth > 4 {
		return bpat{}, "call chain too deep", false
	}
	// pointer to a local: the unique store
	if a, ok := v.(*ssa.Alloc); ok {
		var st *ssa.Store
		n := 0
		for _, ref := range *a.Referrers() {
			if s, ok := ref.(*ssa.Store); ok && s.Addr == a {
				st = s
				n++
			}
		}
		if n == 1 {
			return g.goValuePattern(c, st.Val, f, depth)
		}
		return bpat{}, fmt.Sprintf("%d stores to the key variable", n), false
	}
	if p, ok := v.(*ssa.Parameter); ok && !isByteSeq(p.Type()) {
		// follow every caller
		idx := -1
		for i, fp := range f.Params {
			if fp == p {
				idx = i
			}
		}
		var got *bpat
		why := "no caller computes the value"
		cg := c.P.CallGraph()
		node := cg.Nodes[f]
		if node == nil || idx < 0 {
			return bpat{}, why, false
		}
		for _, e := range node.In {
			if e.Site == nil || !load.InModule(e.Caller.Func) {
				continue
			}
			args := e.Site.Common().Args
			if idx >= len(args) {
				continue
			}
			pt, w, ok := g.goValuePattern(c, args[idx], e.Caller.Func, depth+1)
			if !ok {
				why = w
				continue
			}
			if got == nil {
				got = &pt
			} else if !got.same(pt) {
				return bpat{}, fmt.Sprintf("callers disagree: %v vs %v", *got, pt), false
			}
		}
		if got != nil {
			return *got, "", true
		}
		return bpat{}, why, false
	}
	val := g.lazy(v, map[ssa.Value]gval{}, 0)
	if val.kind != gComp {
		return bpat{}, val.why, false
	}
	p, ok := gPattern(val.comp)
	if !ok {
		return bpat{}, "bytes from several sources", false
	}
	return p, "", true
}

// cExpect: what the kernel programs do with a map key / value field.
type cExpect struct {
	pat  bpat
	how  string
	node *cfront.Node
	prog string
}

func c06Keys(c *Ctx, tus []*cfront.TU, uses []mapUse) {
	r := c.R
	g := newGEval(c)
	// ---- C side: run every program once, collect expectations ----
	keyExp := map[string][]cExpect{}   // map name + "@off" -> patterns of keys built from packet bytes
	fieldExp := map[string][]cExpect{} // "rec.field" -> W/H evidence
	for _, tu := range tus {
		for _, fn := range programs(tu) {
			x := runMerge(tu, fn)
			for _, ev := range x.Events {
				switch ev.Kind {
				case "lookup", "update", "delete":
					for i := 0; i+1 < len(ev.Args); i += 2 {
						off, _ := ev.Args[i].IsConst()
						if p, ok := cPattern(ev.Args[i+1].Comp); ok && len(p.idx) > 1 && strings.HasPrefix(p.src, "pkt:") {
							k := fmt.Sprintf("%s@%d", ev.Map, off)
							keyExp[k] = append(keyExp[k], cExpect{p, ev.Kind + " key built in " + ev.Func, ev.Node, fn.Name})
						}
					}
				case "pktstore":
					if p, ok := cPattern(ev.Val.Comp); ok && len(p.idx) > 1 && strings.HasPrefix(p.src, "map:") {
						f := p.src[strings.LastIndex(p.src, ":")+1:]
						fieldExp[f] = append(fieldExp[f], cExpect{p, "stored into the frame field " + ev.Lbl, ev.Node, fn.Name})
					}
				case "cmp":
					pa, oka := cPattern(ev.Args[0].Comp)
					pb, okb := cPattern(ev.Args[1].Comp)
					if oka && okb && len(pa.idx) > 1 && len(pa.idx) == len(pb.idx) {
						mp, pp := pa, pb
						if strings.HasPrefix(pb.src, "map:") {
							mp, pp = pb, pa
						}
						if strings.HasPrefix(mp.src, "map:") && strings.HasPrefix(pp.src, "pkt:") && mp.isIdentity() {
							f := mp.src[strings.LastIndex(mp.src, ":")+1:]
							// the field is compared with packet bytes in pattern pp
							fieldExp[f] = append(fieldExp[f], cExpect{pp, "compared with " + pp.src, ev.Node, fn.Name})
						}
					}
				}
			}
		}
	}
	var k keyed
	// ---- helper summaries (sibling agreement) ----
	// every Go helper that turns a hardware address into a 64-bit key must agree with the C mac_to_u64 composition
	var macC *bpat
	for key, exps := range keyExp {
		for _, e := range exps {
			if len(e.pat.idx) == 8 && (strings.Contains(e.pat.src, "h_source") || strings.Contains(e.pat.src, "chaddr")) {
				p := e.pat
				if macC == nil {
					macC = &p
				} else if !macC.same(p) {
					r.Check("C06.keyDerivation", "bpf", "MAC keys agree across programs ("+key+")", e.node.Pos(), false, fmt.Sprintf("%v vs %v", *macC, p))
				}
			}
		}
	}
	for _, f := range c.moduleFuncs() {
		if len(f.Params) != 1 || f.Signature.Results().Len() != 1 || f.Signature.Recv() != nil {
			continue
		}
		pn := f.Params[0].Type().String()
		rw := intWidth(f.Signature.Results().At(0).Type())
		if !(strings.HasSuffix(pn, "net.HardwareAddr") && rw == 8) && !(strings.HasSuffix(pn, "net.IP") && rw == 4) {
			continue
		}
		s := g.summary(f)
		fn := load.ShortFunc(f)
		pos := c.P.Pos(f.Pos())
		if !s.ok {
			r.Check("C06.keyDerivation", fn, "key helper is a fixed byte composition of its input", pos, false,
				"the result is not the same composition of input bytes for every input ("+s.why+"): the kernel program always folds a fixed number of packet bytes")
			continue
		}
		r.Check("C06.keyDerivation", fn, "key helper is a fixed byte composition of its input", pos, !s.lenDep,
			"the composition depends on the length of the input beyond the short-input guard: longer inputs (16-byte chaddr, EUI-64) produce a key the kernel program never computes")
		p, _ := gPattern(s.comp)
		r.List("go_key_helpers", fmt.Sprintf("%s: %v guards=%v", fn, p, s.guards))
		if rw == 8 && macC != nil {
			r.Check("C06.keyDerivation", fn, "MAC key composition equals the kernel's mac_to_u64", pos, p.same(*macC),
				fmt.Sprintf("Go composes %v, the kernel programs compose %v from the frame's hardware address", p, *macC))
		}
	}
	// fixed-size byte keys built from a variable-length identifier (circuit-id): the kernel zero-fills the key and
	// copies the first min(len, N) raw bytes; the Go helper must be exactly that (no trimming, hashing or re-encoding)
	for _, f := range c.moduleFuncs() {
		if f.Pkg == nil || !strings.HasSuffix(f.Pkg.Pkg.Path(), "pkg/ebpf") || len(f.Params) != 1 || f.Signature.Results().Len() != 1 || f.Signature.Recv() != nil {
			continue
		}
		arr, isArr := f.Signature.Results().At(0).Type().Underlying().(*types.Array)
		if !isArr || !isByteSeq(f.Params[0].Type()) || !isByteSeq(f.Signature.Results().At(0).Type()) {
			continue
		}
		s := g.summary(f)
		fn := load.ShortFunc(f)
		okK := s.ok && int64(len(s.comp)) == arr.Len()
		why := s.why
		if okK {
			for i, b := range s.comp {
				if b.root != f.Params[0].Name()+"|0" || b.idx != int64(i) {
					okK = false
					why = fmt.Sprintf("byte %d of the key is %v, not byte %d of the identifier (zero when absent)", i, b, i)
					break
				}
			}
		}
		r.Check("C06.keyDerivation", fn, "fixed-size key is the zero-padded raw prefix of the identifier", c.P.Pos(f.Pos()), okK,
			"the kernel program zero-fills the key and copies the identifier's first bytes unchanged; this helper does something else ("+why+"): identifiers for which the two differ are never found by the fast path, or are found under another subscriber's key")
	}
	// ---- keys per call site ----
	seenKey := map[string]bool{}
	for _, u := range uses {
		if u.mapName == "" || u.keyV == nil {
			continue
		}
		fn := load.ShortFunc(u.fn)
		kt, _ := deref(u.key)
		st, isStruct := kt.Underlying().(*types.Struct)
		type part struct {
			off  int64
			w    int64
			v    ssa.Value
			name string
		}
		var parts []part
		if isStruct {
			lay := goLayout(kt)
			for _, lf := range lay.leaves {
				if lf.width < 2 || lf.pad || strings.Contains(lf.name, ".") || strings.Contains(lf.name, "[") {
					continue
				}
				// the store into this field of the key variable
				if a, ok := u.keyV.(*ssa.Alloc); ok {
					for _, ref := range *a.Referrers() {
						fa, ok := ref.(*ssa.FieldAddr)
						if !ok || st.Field(fa.Field).Name() != lf.name {
							continue
						}
						for _, r2 := range *fa.Referrers() {
							if s, ok := r2.(*ssa.Store); ok && s.Addr == fa {
								parts = append(parts, part{lf.off, lf.width, s.Val, lf.name})
							}
						}
					}
				}
			}
		} else if w := intWidth(kt); w > 1 {
			parts = append(parts, part{0, w, u.keyV, ""})
		}
		for _, pt := range parts {
			ck := fmt.Sprintf("%s@%d", u.mapName, pt.off)
			exps := keyExp[ck]
			if len(exps) == 0 {
				continue
			}
			gp, why, ok := g.goValuePattern(c, pt.v, u.fn, 0)
			id := fn + "|" + ck
			if seenKey[id] {
				continue
			}
			seenKey[id] = true
			site := fmt.Sprintf("%s key%s of %s", u.method, dotName(pt.name), u.mapName)
			if !ok {
				r.List("keys_not_decided", fn+": "+site+": "+why)
				continue
			}
			e := exps[0]
			r.Check("C06.keyDerivation", fn, k.name(fn, site+" composed as the kernel composes it"), c.P.Pos(u.call.Pos()), gp.same(e.pat) || sameShape(gp, e.pat),
				fmt.Sprintf("the control plane's key holds the identifying bytes as %v (LSB first); %s (%s, %s) builds it as %v: on a little-endian host the two never compare equal, so the entry the control plane wrote is not the one the program finds", gp, e.prog, e.how, e.node.Pos(), e.pat))
		}
	}
	// ---- value fields: stores anywhere in the module into fields of mirrored structs ----
	type goStore struct {
		fn  *ssa.Function
		pos string
		pat bpat
	}
	goField := map[string][]goStore{}
	for _, f := range c.moduleFuncs() {
		if f.Pkg == nil {
			continue
		}
		flow.Instrs(f, func(in ssa.Instruction) {
			st, ok := in.(*ssa.Store)
			if !ok {
				return
			}
			fa, ok := st.Addr.(*ssa.FieldAddr)
			if !ok || intWidth(st.Val.Type()) < 2 {
				return
			}
			owner := flow.FieldOwner(fa) // Type.Field
			if owner == "" {
				return
			}
			gp, _, ok := g.goValuePattern(c, st.Val, f, 2)
			if !ok {
				return
			}
			goField[owner] = append(goField[owner], goStore{f, c.P.Pos(st.Pos()), gp})
		})
	}
	var fkeys []string
	for f := range fieldExp {
		fkeys = append(fkeys, f)
	}
	sort.Strings(fkeys)
	for _, cf := range fkeys {
		exps := fieldExp[cf]
		// C field "rec.field" <-> Go "Type.Field" by normalised names (through the mirrored struct table)
		var gstores []goStore
		var gname string
		for owner, ss := range goField {
			parts := strings.SplitN(owner, ".", 2)
			cparts := strings.SplitN(cf, ".", 2)
			if len(parts) == 2 && len(cparts) == 2 && normName(parts[1]) == normName(cparts[1]) && mirrors(parts[0], cparts[0]) {
				gstores, gname = ss, owner
			}
		}
		if gstores == nil {
			r.List("fields_without_go_store", cf)
			continue
		}
		e := exps[0]
		for _, gs := range gstores {
			if len(gs.pat.idx) != len(e.pat.idx) {
				continue
			}
			// C copies field memory raw to/from the wire in pattern e.pat (identity = wire image expected;
			// reversed = host number expected).  Go memory image on a little-endian host = gs.pat.
			want := "a wire-order image (memory byte k = address byte k)"
			ok := gs.pat.isIdentity()
			if e.pat.isReversed() {
				want = "a host-order number"
				ok = gs.pat.isReversed()
			} else if !e.pat.isIdentity() {
				continue
			}
			fn := load.ShortFunc(gs.fn)
			r.Check("C06.byteOrder", fn, k.name(fn, "store to "+gname+" matches the program's use of "+cf), gs.pos, ok,
				fmt.Sprintf("%s %s (%s) treats %s as %s, but the control plane stores %v there (LSB first; marshalled native-endian): on a little-endian host the address/port arrives byte-swapped", e.prog, e.how, e.node.Pos(), cf, want, gs.pat))
		}
	}
	r.Assume("byte-order verdicts assume a little-endian host (x86-64/arm64): cilium/ebpf marshals with the native order and clang -target bpf follows the host")
}

func dotName(n string) string {
	if n == "" {
		return ""
	}
	return "." + n
}

// sameShape: equal index vectors (sources differ by name only).
func sameShape(a, b bpat) bool { return a.same(b) }

func mirrors(goType, cRec string) bool {
	if normName(goType) == normName(cRec) {
		return true
	}
	for k, v := range c06Alias {
		if strings.HasSuffix(k, "."+goType) && strings.TrimPrefix(v, "struct ") == cRec {
			return true
		}
	}
	return false
}
