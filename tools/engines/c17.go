package engines

import (
	"fmt"
	"go/token"
	"go/types"
	"strings"

	"bngvet/internal/flow"
	"bngvet/internal/load"

	"golang.org/x/tools/go/ssa"
)

func init() { Registry["C17"] = C17 }

func C17(c *Ctx) {
	r := c.R
	const pkg = "pkg/pool"
	r.Explain = "Structural premises of 'all peers agree on who owns a subscriber': the score of a (subscriber, node) pair is a pure function of the pair (the functions below GetOwner/getHealthyOwner read nothing but their parameters: no package state, receiver, map iteration, clock or randomness), which is what makes highest-random-weight hashing order-independent and minimally disruptive; the peer list is kept in canonical order and free of duplicates by every function that changes it; the healthy-owner walk returns the first eligible element of the ranking and falls back to the local node only after it; owner lookup and allocation use the same score function; the local-versus-forward decision of Allocate/Release is taken only from the healthy-owner result.  Ties on equal 64-bit scores, distribution quality and end-to-end HTTP are not decided."
	r.Rule("C17.U1.pure", "rendezvousHash, rendezvousRanked, hashCombine and hashString (and what they call in the module) read only their parameters: no globals, no receiver state, no map iteration, no time/rand/os", 3)
	r.Rule("C17.U2.canonicalPeers", "every store to the peer list keeps it sorted and duplicate-free: growth is followed by sort.Strings and guarded by a membership scan, removal is the order-preserving splice", 3)
	r.Rule("C17.U3.healthyWalk", "getHealthyOwner ranks with rendezvousRanked over the peer list and returns the first element that is the local node or not known unhealthy; the local node is the fallback only after the whole ranking", 3)
	r.Rule("C17.U4.sameScore", "GetOwner and the allocation path score (subscriber, node) with the same function hashCombine(hashString(key), node)", 2)
	r.Rule("C17.U5.routeByOwner", "Allocate and Release touch the local pool only under owner == local node, where owner is getHealthyOwner's result", 2)

	// ---- U1
	for _, name := range []string{"rendezvousHash", "rendezvousRanked", "hashCombine", "hashString"} {
		var f *ssa.Function
		if name == "hashString" { // optional: the key hash may be written out in its callers, where it is covered by their purity
			if f = c.P.SSAFunc(pkg, "", name); f == nil || len(f.Blocks) == 0 {
				continue
			}
		} else if f = c.fn(pkg, "", name); f == nil {
			continue
		}
		bad := impurities(c, f, map[*ssa.Function]bool{}, 0)
		r.Check("C17.U1.pure", load.ShortFunc(f), "reads only its parameters", c.P.Pos(f.Pos()), len(bad) == 0, "the score/ranking is not a pure function of (subscriber, peer set): "+strings.Join(bad, "; "))
	}

	// ---- U2
	sp := c.P.SSAPkg(pkg)
	n := 0
	for _, f := range c.moduleFuncs() {
		if f.Pkg != sp {
			continue
		}
		flow.Instrs(f, func(in ssa.Instruction) {
			st, ok := in.(*ssa.Store)
			if !ok || !strings.HasSuffix(flow.FieldOwner(st.Addr), "PeerPool.peerNodes") {
				return
			}
			n++
			ok2, why := canonicalStore(f, st)
			r.Check("C17.U2.canonicalPeers", load.ShortFunc(f), "store to peerNodes", c.P.Pos(instrPos(st)), ok2, why)
		})
	}
	if n == 0 {
		r.Check("C17.U2.canonicalPeers", "pool.PeerPool", "stores", "-", false, "no store to PeerPool.peerNodes found")
	}

	// ---- U3
	if f := c.fn(pkg, "PeerPool", "getHealthyOwner"); f != nil {
		var ranked ssa.Value
		for _, call := range flow.Calls(f) {
			if flow.CalleeIs(call, pkg, "", "rendezvousRanked") {
				args := call.Common().Args
				okArgs := isParam(args[0]) && strings.HasSuffix(flow.FieldOwner(args[1]), "PeerPool.peerNodes")
				r.Check("C17.U3.healthyWalk", load.ShortFunc(f), "ranking = rendezvousRanked(subscriber, peerNodes)", c.P.Pos(instrPos(call)), okArgs, "the ranking is not computed from the subscriber id and the peer list")
				ranked = call.(ssa.Value)
			}
		}
		if ranked == nil {
			r.Check("C17.U3.healthyWalk", load.ShortFunc(f), "ranking", c.P.Pos(f.Pos()), false, "getHealthyOwner does not call rendezvousRanked")
		}
		okRet, why := true, ""
		nInLoop, nAfter := 0, 0
		for _, b := range f.Blocks {
			ret, isRet := b.Instrs[len(b.Instrs)-1].(*ssa.Return)
			if !isRet || b == f.Recover || len(ret.Results) != 1 {
				continue
			}
			res := flow.ReturnValues(ret)[0]
			if x, i := elemOf(res); x != nil && x == ranked {
				_ = i
				nInLoop++
				// on every path to this return: node == p.nodeID, or !ok, or h.healthy (φ-aware, so `!ok || h.healthy`
				// and a boolean helper inlined at the call site are seen through)
				g, _ := flow.EveryPathHas(b, func(ft flow.Fact) bool {
					if bo, ok := ft.Cond.(*ssa.BinOp); ok && bo.Op == token.EQL && ft.Pol && (strings.HasSuffix(flow.FieldOwner(bo.Y), "PeerPool.nodeID") || strings.HasSuffix(flow.FieldOwner(bo.X), "PeerPool.nodeID")) {
						return true
					}
					if bo, ok := ft.Cond.(*ssa.BinOp); ok && bo.Op == token.NEQ && !ft.Pol && (strings.HasSuffix(flow.FieldOwner(bo.Y), "PeerPool.nodeID") || strings.HasSuffix(flow.FieldOwner(bo.X), "PeerPool.nodeID")) {
						return true
					}
					if name, _, okn := guardName(ft.Cond); okn && strings.HasPrefix(name, "found(PeerPool.peerHealthMap)") && !ft.Pol {
						return true
					}
					if fo := flow.FieldOwner(ft.Cond); strings.HasSuffix(fo, "peerHealth.healthy") && ft.Pol {
						return true
					}
					return false
				})
				if !g {
					okRet, why = false, "a ranked node is returned without being the local node or passing the health test"
				}
			} else if strings.HasSuffix(flow.FieldOwner(res), "PeerPool.nodeID") {
				nAfter++
				// must be after the loop: the loop's exit condition false dominates
			} else {
				okRet, why = false, "getHealthyOwner returns something that is neither an element of the ranking nor the local node"
			}
		}
		r.Check("C17.U3.healthyWalk", load.ShortFunc(f), "returns first eligible ranked node, else local", c.P.Pos(f.Pos()), okRet && nInLoop >= 1 && nAfter >= 1, why)
		// the walk is in rank order: a range loop over the ranking (index φ stepping +1 from -1)
		inOrder := false
		flow.Instrs(f, func(in ssa.Instruction) {
			if ia, ok := in.(*ssa.IndexAddr); ok && ia.X == ranked && countsUpFromZero(ia.Index) {
				inOrder = true
			}
		})
		r.Check("C17.U3.healthyWalk", load.ShortFunc(f), "ranking walked from the top", c.P.Pos(f.Pos()), inOrder, "the ranking is not walked in order from its first element")
	}

	// ---- U4: both scorers call hashCombine(<key hash>, <node>) with the key hash computed the same way from the key
	// parameter alone (same canonical expression in both functions — whether through hashString or written out)
	shapes := map[string]string{}
	for _, name := range []string{"rendezvousHash", "rendezvousRanked"} {
		f := c.fn(pkg, "", name)
		if f == nil {
			continue
		}
		ok, why := false, "no call of hashCombine found"
		for _, call := range flow.Calls(f) {
			if flow.CalleeIs(call, pkg, "", "hashCombine") {
				sh := flow.Shape(call.Common().Args[0])
				switch {
				case strings.Contains(sh, "?") || strings.Contains(sh, "…") || strings.Contains(sh, "dyn"):
					ok, why = false, "the key hash passed to hashCombine depends on something other than the key parameter and constants: "+sh
				case !strings.Contains(sh, "p0") || strings.Contains(sh, "p1") || strings.Contains(sh, "p2"):
					ok, why = false, "the key hash passed to hashCombine is not a function of the key parameter alone: "+sh
				default:
					ok = true
					shapes[name] = sh
				}
			}
		}
		r.Check("C17.U4.sameScore", load.ShortFunc(f), "score = hashCombine(hashString(key), node)", c.P.Pos(f.Pos()), ok, "this function scores nodes with something other than hashCombine(hash of the key, node): owner lookup and allocation would disagree ("+why+")")
	}
	if a, b := shapes["rendezvousHash"], shapes["rendezvousRanked"]; a != "" && b != "" && a != b {
		r.Check("C17.U4.sameScore", "pool", "the two scorers hash the key the same way", "-", false, "rendezvousHash computes "+a+" but rendezvousRanked computes "+b)
	}

	// ---- U5
	for _, sp5 := range []struct{ fn, local string }{{"Allocate", "allocateLocal"}, {"Release", "releaseLocal"}} {
		f := c.fn(pkg, "PeerPool", sp5.fn)
		if f == nil {
			continue
		}
		ok, why := true, ""
		n := 0
		tn := sp.Pkg.Scope().Lookup("LocalPool").(*types.TypeName)
		if len(accessesOf(f, tn.Type().(*types.Named), map[string]bool{"allocations": true, "ipToSub": true, "available": true})) > 0 {
			ok, why = false, sp5.fn+" reads or writes the local pool directly instead of deciding by owner first"
		}
		for _, call := range flow.Calls(f) {
			g := call.Common().StaticCallee()
			if g == nil || flow.RecvTypeName(g) != "PeerPool" || g.Pkg != sp {
				continue
			}
			touchesLocal := g.Name() == sp5.local || len(accessesOf(g, tn.Type().(*types.Named), map[string]bool{"allocations": true, "ipToSub": true, "available": true})) > 0
			if !touchesLocal {
				continue
			}
			n++
			gated := false
			for _, ft := range flow.FactsAtInstr(call) {
				isOwner := func(v ssa.Value) bool {
					cc, ok := v.(*ssa.Call)
					if !ok {
						return false
					}
					h := cc.Call.StaticCallee()
					return h != nil && (h.Name() == "getHealthyOwner" || h.Name() == "GetOwner")
				}
				isLocal := func(v ssa.Value) bool { return strings.HasSuffix(flow.FieldOwner(v), "PeerPool.nodeID") }
				// owner == p.nodeID established, in either spelling (`==` taken, `!=` not taken) and operand order
				if flow.Holds(ft, token.EQL, isOwner, isLocal) {
					gated = true
				}
			}
			if !gated {
				ok, why = false, fmt.Sprintf("%s reaches the local pool through %s without owner == local node having been established: a node that is not the (healthy) owner serves the subscriber from its own pool", sp5.fn, g.Name())
			}
		}
		r.Check("C17.U5.routeByOwner", load.ShortFunc(f), "local pool used only as owner", c.P.Pos(f.Pos()), ok && n >= 1, why)
	}
}

// impurities lists what makes f (and its module callees) depend on anything but its parameters.
func impurities(c *Ctx, f *ssa.Function, seen map[*ssa.Function]bool, depth int) []string {
	if seen[f] || depth > 6 {
		return nil
	}
	seen[f] = true
	var bad []string
	for _, g := range flow.WithAnon(f) {
		flow.Instrs(g, func(in ssa.Instruction) {
			switch x := in.(type) {
			case *ssa.UnOp:
				if gl, ok := x.X.(*ssa.Global); ok && x.Op == token.MUL {
					bad = append(bad, "reads package variable "+gl.Name()+" at "+c.P.Pos(instrPos(in)))
				}
			case *ssa.Store:
				if gl, ok := x.Addr.(*ssa.Global); ok {
					bad = append(bad, "writes package variable "+gl.Name())
				}
			case *ssa.Range:
				if _, isMap := x.X.Type().Underlying().(*types.Map); isMap {
					bad = append(bad, "iterates over a map (order is random) at "+c.P.Pos(instrPos(in)))
				}
			case *ssa.Go:
				bad = append(bad, "starts a goroutine")
			case *ssa.Select:
				bad = append(bad, "uses select")
			case ssa.CallInstruction:
				callee := x.Common().StaticCallee()
				if callee == nil {
					if x.Common().IsInvoke() {
						// hash.Hash64 methods on a locally created hasher are fine
						if strings.HasPrefix(types.TypeString(x.Common().Value.Type(), nil), "hash.") {
							return
						}
						bad = append(bad, "dynamic call "+x.Common().Method.Name()+" at "+c.P.Pos(instrPos(in)))
					} else if _, isBuiltin := x.Common().Value.(*ssa.Builtin); !isBuiltin {
						if _, isClosure := x.Common().Value.(*ssa.MakeClosure); !isClosure {
							bad = append(bad, "call through a function value at "+c.P.Pos(instrPos(in)))
						}
					}
					return
				}
				if callee.Pkg != nil {
					switch p := callee.Pkg.Pkg.Path(); {
					case p == "time" || p == "math/rand" || p == "math/rand/v2" || p == "crypto/rand" || p == "os" || p == "sync/atomic" || strings.HasPrefix(p, "net"):
						bad = append(bad, "calls "+p+"."+callee.Name())
					case load.InModule(callee):
						bad = append(bad, impurities(c, callee, seen, depth+1)...)
					}
				}
			}
		})
	}
	if f.Signature.Recv() != nil {
		bad = append(bad, "is a method (can read receiver state)")
	}
	return bad
}

// canonicalStore: the value stored into peerNodes is sorted / duplicate-free by construction.
func canonicalStore(f *ssa.Function, st *ssa.Store) (bool, string) {
	val := st.Val
	// constructor: value sorted before the store
	sortedBefore := false
	sortedAfter := false
	for _, call := range flow.Calls(f) {
		if !flow.CalleeIs(call, "sort", "", "Strings") {
			continue
		}
		arg := call.Common().Args[0]
		if arg == val && flow.InstrDominates(call, st) {
			sortedBefore = true
		}
		if strings.HasSuffix(flow.FieldOwner(arg), "PeerPool.peerNodes") {
			if through, _ := flow.MustPassThrough(st, func(in ssa.Instruction) bool { return in == call.(ssa.Instruction) }, nil); through {
				sortedAfter = true
			}
		}
		// value is a φ / later version of the sorted slice
		if p, ok := val.(*ssa.Phi); ok && flow.InstrDominates(call, st) {
			for _, e := range p.Edges {
				if e == arg {
					sortedBefore = true
				}
			}
			if arg == ssa.Value(p) {
				sortedBefore = true
			}
		}
	}
	if _, fresh := st.Addr.(*ssa.FieldAddr).X.(*ssa.Alloc); fresh {
		if sortedBefore {
			return true, ""
		}
		return false, "the constructor stores a peer list that was not sorted first: nodes configured with the same peers in different orders break ties differently"
	}
	app, isApp := val.(*ssa.Call)
	if !isApp {
		return false, "peerNodes is assigned something that is neither a sorted list nor an append/splice of the current list"
	}
	b, ok := app.Call.Value.(*ssa.Builtin)
	if !ok || b.Name() != "append" {
		return false, "peerNodes is assigned the result of a call other than append"
	}
	// removal splice: append(p.peerNodes[:i], p.peerNodes[i+1:]...)
	s0, ok0 := app.Call.Args[0].(*ssa.Slice)
	s1, ok1 := app.Call.Args[1].(*ssa.Slice)
	if ok0 && ok1 && strings.HasSuffix(flow.FieldOwner(s0.X), "PeerPool.peerNodes") && strings.HasSuffix(flow.FieldOwner(s1.X), "PeerPool.peerNodes") && s0.Low == nil && s0.High != nil && s1.High == nil {
		if bo, ok := s1.Low.(*ssa.BinOp); ok && bo.Op == token.ADD && bo.X == s0.High {
			if k, ok := constInt(bo.Y); ok && k == 1 {
				return true, ""
			}
		}
		return false, "the removal is not the order-preserving splice [:i] + [i+1:]"
	}
	// growth: append(p.peerNodes, x): must be re-sorted and guarded by a membership scan that returns when found
	if strings.HasSuffix(flow.FieldOwner(app.Call.Args[0]), "PeerPool.peerNodes") {
		if !sortedAfter {
			return false, "a peer is appended without re-sorting the list: nodes that learnt their peers in different orders hold differently ordered lists (ties resolve differently) and later binary searches / splices misbehave"
		}
		// the list is scanned for the new member (some test peerNodes[i] == <parameter> exists), and the append is not
		// reachable on a path where that test succeeded (path-sensitive, so `if indexOf(list, id) >= 0 { return }` counts)
		isHit := func(ft flow.Fact) bool {
			bo, ok := ft.Cond.(*ssa.BinOp)
			if !ok || !((bo.Op == token.EQL && ft.Pol) || (bo.Op == token.NEQ && !ft.Pol)) {
				return false
			}
			x, _ := elemOf(bo.X)
			y := bo.Y
			if x == nil {
				x, _ = elemOf(bo.Y)
				y = bo.X
			}
			return x != nil && strings.HasSuffix(flow.FieldOwner(x), "PeerPool.peerNodes") && isParam(y)
		}
		scan := false
		flow.Instrs(f, func(in ssa.Instruction) {
			if iff, ok := in.(*ssa.If); ok {
				if isHit(flow.Fact{Cond: iff.Cond, Pol: true}) || isHit(flow.Fact{Cond: iff.Cond, Pol: false}) {
					scan = true
				}
			}
		})
		dedup := scan && !flow.SomePathHas(st.Block(), isHit)
		if !dedup {
			return false, "a peer is appended without a membership scan over the whole list: announcing a member again inserts it twice, and removing it later leaves one copy that keeps owning subscribers"
		}
		return true, ""
	}
	return false, "peerNodes is assigned an append that does not extend or splice the current list"
}

// countsUpFromZero: idx is the index of a loop that visits 0, 1, 2, …: the range form (φ[-1, idx] + 1) or the
// three-clause form (φ[0, φ+1]).
func countsUpFromZero(idx ssa.Value) bool {
	plusOne := func(v ssa.Value, of ssa.Value) bool {
		bo, ok := v.(*ssa.BinOp)
		if !ok || bo.Op != token.ADD || bo.X != of {
			return false
		}
		k, isK := constInt(bo.Y)
		return isK && k == 1
	}
	if bo, ok := idx.(*ssa.BinOp); ok && bo.Op == token.ADD {
		if k, isK := constInt(bo.Y); isK && k == 1 {
			if phi, isPhi := bo.X.(*ssa.Phi); isPhi {
				for _, e := range phi.Edges {
					if e == idx {
						continue
					}
					if c, isC := constInt(e); !isC || c != -1 {
						return false
					}
				}
				return true
			}
		}
	}
	if phi, ok := idx.(*ssa.Phi); ok {
		sawZero := false
		for _, e := range phi.Edges {
			if c, isC := constInt(e); isC && c == 0 {
				sawZero = true
				continue
			}
			if !plusOne(e, phi) {
				return false
			}
		}
		return sawZero
	}
	return false
}
