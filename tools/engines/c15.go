package engines

import (
	"fmt"
	"go/token"
	"go/types"
	"sort"
	"strings"

	"bngvet/internal/bounds"
	"bngvet/internal/flow"
	"bngvet/internal/lin"
	"bngvet/internal/load"

	"golang.org/x/tools/go/callgraph"
	"golang.org/x/tools/go/ssa"
)

func init() { Registry["C15"] = C15 }

// C15: CoA/Disconnect requests are acted on only if authentic.
func C15(c *Ctx) {
	r := c.R
	r.Explain = "Structural clauses of C15 decided on the SSA form of pkg/radius/coa.go: (D1) every call that can reach a session-changing handler or a datagram send is dominated by the true outcome of the authenticator check and those functions have no other callers; (D2) the check hashes code|id|len, 16 zero bytes, attributes, secret in that order and compares every byte; (D3) the verified slice is buf[:length] with 20 <= length <= n proved; (D4) the response carries the request identifier and a response authenticator over the request authenticator; (D5) handlers only see attributes parsed from the verified bytes.  MD5 arithmetic and 'for all secrets' are not decided."
	r.Rule("C15.D1.gate", "in the CoA receive loop every call that may reach a handler invocation or a UDP send is dominated by verifyRequestAuthenticator(...) == true", 2)
	r.Rule("C15.D1.callers", "functions that invoke a CoA/Disconnect handler or send on the CoA socket are called only from the gated receive loop chain", 3)
	r.Rule("C15.D2.hash", "request authenticator = MD5(packet[:4] | 16 zero bytes | packet[20:] | secret), writes unconditional and in this order", 1)
	r.Rule("C15.D2.compare", "verification returns true only after every byte of the received authenticator was compared equal with the digest", 1)
	r.Rule("C15.D3", "the datagram handed to verification is buf[:length] with 20 <= length <= bytes received, and the authenticator is buf[4:20] of the same buffer", 3)
	r.Rule("C15.D4", "response: code/identifier from the request chain, authenticator = MD5(packet[:4] | request authenticator | packet[20:] | secret) copied into packet[4:20], sent to the request's source address", 6)
	r.Rule("C15.D6", "no slice of the per-loop receive buffer (request authenticator, attribute bytes) is handed to a goroutine, captured by a closure, stored in the heap or sent on a channel: the response must be computed from the request that is being answered, not from a later datagram", 1)
	r.Rule("C15.D5", "attributes handed to the handlers are parsed from buf[20:length] of the verified datagram", 1)

	const pkg = "pkg/radius"
	loop := c.fn(pkg, "CoAServer", "receiveLoop")
	verify := c.fn(pkg, "CoAServer", "verifyRequestAuthenticator")
	send := c.fn(pkg, "CoAServer", "sendResponse")
	if loop == nil || verify == nil || send == nil {
		return
	}
	sp := c.P.SSAPkg(pkg)
	cg := c.P.CallGraph()

	// ---- effect set S: functions of package radius that (transitively, through static calls) invoke a handler
	// field of CoAServer or write to CoAServer.conn
	isEffect := func(in ssa.Instruction) string {
		call, ok := in.(ssa.CallInstruction)
		if !ok {
			return ""
		}
		com := call.Common()
		if com.IsInvoke() {
			return ""
		}
		if f := com.StaticCallee(); f != nil {
			if (f.Name() == "WriteToUDP" || f.Name() == "WriteTo" || f.Name() == "Write" || f.Name() == "WriteMsgUDP") && flow.RecvTypeName(f) == "UDPConn" {
				return "send:" + f.Name()
			}
			return ""
		}
		// dynamic call of a function value loaded from a CoAServer handler field (possibly via a local copy)
		if fo := fieldOrigin(com.Value); strings.HasPrefix(fo, "CoAServer.") {
			return "handler:" + fo
		}
		return ""
	}
	S := map[*ssa.Function]string{}
	var members []*ssa.Function
	for _, m := range sp.Members {
		_ = m
	}
	var pkgFuncs []*ssa.Function
	for _, f := range c.moduleFuncs() {
		if f.Pkg == sp || (f.Parent() != nil && f.Parent().Pkg == sp) {
			pkgFuncs = append(pkgFuncs, f)
		}
	}
	for _, f := range pkgFuncs {
		flow.Instrs(f, func(in ssa.Instruction) {
			if e := isEffect(in); e != "" {
				if _, ok := S[f]; !ok {
					S[f] = e
				}
			}
		})
	}
	for changed := true; changed; {
		changed = false
		for _, f := range pkgFuncs {
			if _, ok := S[f]; ok {
				continue
			}
			for _, call := range flow.Calls(f) {
				if g := call.Common().StaticCallee(); g != nil && g != loop {
					if _, ok := S[g]; ok {
						S[f] = "calls " + load.ShortFunc(g)
						changed = true
						break
					}
				}
			}
		}
	}
	for f := range S {
		members = append(members, f)
	}
	sort.Slice(members, func(i, j int) bool { return members[i].String() < members[j].String() })
	r.Count("effect_functions", len(members))
	for _, f := range members {
		r.List("effect_functions", load.ShortFunc(f)+" ("+S[f]+")")
	}
	if _, ok := S[loop]; !ok {
		r.Fatal("C15: the receive loop reaches no handler invocation or send — anchors moved; re-anchor the checker")
		return
	}

	// ---- D1.gate: in the loop, each call into S is dominated by verify()==true
	gated := 0
	for _, call := range flow.Calls(loop) {
		var eff string
		if g := call.Common().StaticCallee(); g != nil {
			if _, ok := S[g]; ok {
				eff = load.ShortFunc(g)
			}
		}
		if e := isEffect(call); e != "" {
			eff = e
		}
		if eff == "" {
			continue
		}
		ok := false
		for _, ft := range flow.FactsAtInstr(call) {
			if vc, isCall := ft.Cond.(*ssa.Call); isCall && ft.Pol && vc.Call.StaticCallee() == verify {
				ok = true
			}
		}
		gated++
		r.Check("C15.D1.gate", load.ShortFunc(loop), "call "+eff, c.P.Pos(instrPos(call)), ok, "not dominated by the true branch of verifyRequestAuthenticator")
	}
	// ---- D1.callers: every member of S other than the loop is called only from S (static call sites), never used as a value
	for _, f := range members {
		if f == loop {
			continue
		}
		var bad []string
		for _, caller := range allCallers(cg, f) {
			if _, ok := S[caller]; !ok {
				bad = append(bad, load.ShortFunc(caller))
			}
		}
		if f.Object() != nil && f.Object().Exported() && f.Signature.Recv() != nil {
			bad = append(bad, "exported method (callable from outside the package)")
		}
		r.Check("C15.D1.callers", load.ShortFunc(f), "callers", c.P.Pos(f.Pos()), len(bad) == 0, "reachable without the authenticator gate from: "+strings.Join(bad, ", "))
	}
	// the loop itself must only be started by Start (go statement)
	for _, caller := range allCallers(cg, loop) {
		r.Check("C15.D1.callers", load.ShortFunc(loop), "caller "+load.ShortFunc(caller), c.P.Pos(caller.Pos()), caller.Name() == "Start", "receive loop entered from an unexpected function")
	}

	// ---- D2: shape of verifyRequestAuthenticator
	var packetP, authP *ssa.Parameter
	for _, p := range verify.Params[1:] {
		if packetP == nil {
			packetP = p
		} else if authP == nil {
			authP = p
		}
	}
	hus := hashUses(verify, "crypto/md5")
	if len(hus) != 1 {
		r.Check("C15.D2.hash", load.ShortFunc(verify), "md5", c.P.Pos(verify.Pos()), false, fmt.Sprintf("expected exactly one md5.New() use, found %d", len(hus)))
	} else {
		hu := hus[0]
		want := []string{packetP.Name() + "[0:4]", "zeros(16)", packetP.Name() + "[20:]", "[]byte(CoAServer.secret)"}
		got := descStrings(hu.Writes)
		ok := hu.OK && equalStrings(got, want)
		r.Check("C15.D2.hash", load.ShortFunc(verify), "md5 input", c.P.Pos(instrPos(hu.New)), ok, fmt.Sprintf("hash input is %v %s, want %v", got, hu.Why, want))
		// compare
		okc, why := allBytesCompared(verify, authP, hu.Sum)
		r.Check("C15.D2.compare", load.ShortFunc(verify), "compare", c.P.Pos(verify.Pos()), okc, why)
	}

	// ---- D3: the call site of verify in the loop
	bp := bounds.NewProg(cg, func(f *ssa.Function) bool { return load.InModule(f) })
	be := bp.Fn(loop)
	var vcall *ssa.Call
	for _, call := range flow.Calls(loop) {
		if call.Common().StaticCallee() == verify {
			if vc, ok := call.(*ssa.Call); ok {
				vcall = vc
			}
		}
	}
	var buf ssa.Value
	var lengthV ssa.Value
	if vcall == nil {
		r.Fatal("C15.D3: no call of verifyRequestAuthenticator in the receive loop")
	} else {
		args := vcall.Call.Args // recv, packet, authenticator
		pk, okp := args[1].(*ssa.Slice)
		au, oka := args[2].(*ssa.Slice)
		shape := okp && oka && pk.Low == nil && pk.High != nil
		if shape {
			buf = pk.X
			lengthV = pk.High
		}
		r.Check("C15.D3", load.ShortFunc(loop), "verified slice is buf[:length]", c.P.Pos(instrPos(vcall)), shape, "verification is not applied to buf[:length]")
		if shape {
			// the read that filled buf
			var nV ssa.Value
			flow.Instrs(loop, func(in ssa.Instruction) {
				if ex, ok := in.(*ssa.Extract); ok && ex.Index == 0 {
					if call, ok := ex.Tuple.(*ssa.Call); ok {
						if f := call.Call.StaticCallee(); f != nil && f.Name() == "ReadFromUDP" && len(call.Call.Args) > 1 && sameSliceBase(call.Call.Args[1], buf) {
							nV = ex
						}
					}
				}
			})
			if nV == nil {
				r.Check("C15.D3", load.ShortFunc(loop), "length<=n", c.P.Pos(instrPos(vcall)), false, "no ReadFromUDP into the verified buffer found")
			} else {
				L, N := be.Eval(lengthV), be.Eval(nV)
				r.Check("C15.D3", load.ShortFunc(loop), "length<=n", c.P.Pos(instrPos(vcall)), be.Prove(vcall, N.Sub(L)), "length field may exceed the bytes received")
				r.Check("C15.D3", load.ShortFunc(loop), "length>=20", c.P.Pos(instrPos(vcall)), be.Prove(vcall, L.AddK(-20)), "length field below the 20-byte RADIUS header is not rejected before verification")
			}
			lo, _ := constInt(orZero(au.Low))
			hi, hok := constInt(orZero(au.High))
			r.Check("C15.D3", load.ShortFunc(loop), "authenticator is buf[4:20]", c.P.Pos(instrPos(vcall)), sameSliceBase(au.X, buf) && lo == 4 && hok && hi == 20, "authenticator argument is not bytes 4..20 of the verified buffer")
		}
	}

	// ---- D5: attributes parsed from buf[20:length]
	if buf != nil {
		n := 0
		for _, call := range flow.Calls(loop) {
			g := call.Common().StaticCallee()
			if g == nil || g.Name() != "parseAttributes" {
				continue
			}
			n++
			sl, ok := call.Common().Args[0].(*ssa.Slice)
			lo, _ := constInt(orZero(sl0(sl, ok)))
			stripConv := func(v ssa.Value) ssa.Value {
				for {
					cv, isC := v.(*ssa.Convert)
					if !isC {
						return v
					}
					v = cv.X
				}
			}
			sameLen := func(a, b ssa.Value) bool { return a != nil && b != nil && stripConv(a) == stripConv(b) }
			good := ok && sameSliceBase(sl.X, buf) && lo == 20 && sameLen(sl.High, lengthV)
			if ok && !good && lo == 20 && sl.High == nil {
				// packet := buf[:length]; parseAttributes(packet[20:]) — the tail of the verified slice itself
				if inner, isIn := sl.X.(*ssa.Slice); isIn && inner.Low == nil && sameSliceBase(inner.X, buf) && sameLen(inner.High, lengthV) {
					good = true
				}
			}
			r.Check("C15.D5", load.ShortFunc(loop), "parseAttributes(buf[20:length])", c.P.Pos(instrPos(call)), good, "attributes are not parsed from exactly the verified bytes buf[20:length]")
			// the result flows to the handlers
			if cv, isv := call.(*ssa.Call); isv && good {
				var attrs ssa.Value
				for _, ref := range *cv.Referrers() {
					if ex, ok := ref.(*ssa.Extract); ok && ex.Index == 0 {
						attrs = ex
					}
				}
				for _, hc := range flow.Calls(loop) {
					hg := hc.Common().StaticCallee()
					if hg == nil {
						continue
					}
					if _, inS := S[hg]; !inS {
						continue
					}
					found := false
					for _, a := range hc.Common().Args {
						if types.Identical(a.Type(), attrs.Type()) {
							found = a == attrs
						}
					}
					r.Check("C15.D5", load.ShortFunc(loop), "attrs passed to "+hg.Name(), c.P.Pos(instrPos(hc)), found, "handler receives attributes other than those parsed from the verified datagram")
				}
			}
		}
		if n == 0 {
			r.Check("C15.D5", load.ShortFunc(loop), "parseAttributes(buf[20:length])", c.P.Pos(loop.Pos()), false, "no parseAttributes call in the receive loop")
		}
	}

	// ---- D6: slices of the reused receive buffer must not outlive the loop iteration
	if buf != nil {
		n := bufferEscapes(c, loop, buf, "C15.D6")
		r.Count("buffer_alias_sites", n)
	}

	// ---- D4: response construction in sendResponse and the parameter chain
	c15Response(c, loop, send, S, buf)
}

func sl0(s *ssa.Slice, ok bool) ssa.Value {
	if !ok || s == nil {
		return nil
	}
	return s.Low
}

func orZero(v ssa.Value) ssa.Value { return v }

func descStrings(ds []byteDesc) []string {
	var out []string
	for _, d := range ds {
		s := d.String()
		out = append(out, s)
	}
	return out
}

func equalStrings(a, b []string) bool {
	if len(a) != len(b) {
		return false
	}
	for i := range a {
		if a[i] != b[i] {
			return false
		}
	}
	return true
}

// sameSliceBase: a and b denote the same backing buffer (identical SSA value, or slices of it).
func sameSliceBase(a, b ssa.Value) bool {
	strip := func(v ssa.Value) ssa.Value {
		for {
			switch x := v.(type) {
			case *ssa.Slice:
				v = x.X
			case *ssa.ChangeType:
				v = x.X
			default:
				return v
			}
		}
	}
	return a != nil && b != nil && strip(a) == strip(b)
}

// fieldOrigin: T.f when v is (a φ-free copy of) a value loaded from a struct field.
func fieldOrigin(v ssa.Value) string { return fieldOriginD(v, 0) }

func fieldOriginD(v ssa.Value, depth int) string {
	if depth > 8 {
		return ""
	}
	for i := 0; i < 4; i++ {
		if s := flow.FieldOwner(v); s != "" {
			return s
		}
		switch x := v.(type) {
		case *ssa.ChangeType:
			v = x.X
		case *ssa.Phi:
			// all non-nil edges from the same field
			var s string
			for _, e := range x.Edges {
				if c, ok := e.(*ssa.Const); ok && c.Value == nil {
					continue
				}
				fo := fieldOriginD(e, depth+1)
				if fo == "" || (s != "" && s != fo) {
					return ""
				}
				s = fo
			}
			return s
		default:
			return ""
		}
	}
	return ""
}

// allCallers returns callers of f through the call graph, looking through synthetic wrappers (bound methods, thunks).
func allCallers(g *callgraph.Graph, f *ssa.Function) []*ssa.Function {
	seen := map[*ssa.Function]bool{}
	var out []*ssa.Function
	var walk func(x *ssa.Function, d int)
	walk = func(x *ssa.Function, d int) {
		n := g.Nodes[x]
		if n == nil || d > 4 {
			return
		}
		for _, e := range n.In {
			cf := e.Caller.Func
			if seen[cf] {
				continue
			}
			seen[cf] = true
			if cf.Synthetic != "" && cf.Pkg == nil {
				walk(cf, d+1)
				continue
			}
			out = append(out, cf)
		}
	}
	walk(f, 0)
	sort.Slice(out, func(i, j int) bool { return out[i].String() < out[j].String() })
	return out
}

// allBytesCompared: every `return true` of f is reached only after a loop compared A[i] with digest[i] for every
// index of A (or the result is an equality library call over A and the digest).
func allBytesCompared(f *ssa.Function, A *ssa.Parameter, sum *ssa.Call) (bool, string) {
	if A == nil || sum == nil {
		return false, "authenticator parameter or digest not identified"
	}
	e := bounds.NewFn(f)
	isDigest := func(v ssa.Value) bool { return v == ssa.Value(sum) }
	any := false
	for _, b := range f.Blocks {
		ret, ok := b.Instrs[len(b.Instrs)-1].(*ssa.Return)
		if !ok || b == f.Recover || len(ret.Results) != 1 {
			continue
		}
		res := ret.Results[0]
		if k, ok := res.(*ssa.Const); ok {
			if !constBool(k) {
				continue // return false
			}
			any = true
			// return true: facts must include the loop exit i >= len(A)
			exit := false
			var idxForm lin.Form
			var header *ssa.BasicBlock
			for _, ft := range flow.FactsAt(b) {
				bo, ok := ft.Cond.(*ssa.BinOp)
				if !ok || ft.Pol || bo.Op != token.LSS {
					continue
				}
				if lenOf(bo.Y) == ssa.Value(A) {
					exit = true
					idxForm = e.Eval(bo.X)
					header = ft.At
				}
			}
			if !exit {
				return false, "a `return true` is reachable without exhausting the authenticator bytes (no dominating loop exit i >= len(authenticator))"
			}
			// every back edge into the header must be dominated by A[i]==digest[i]
			for _, p := range header.Preds {
				if !header.Dominates(p) {
					continue
				}
				okEq := false
				facts := flow.FactsAt(p)
				if ef, ok := flow.EdgeFact(p, header); ok {
					facts = append(facts, ef)
				}
				for _, ft := range facts {
					bo, ok := ft.Cond.(*ssa.BinOp)
					if !ok {
						continue
					}
					eq := (bo.Op == token.EQL && ft.Pol) || (bo.Op == token.NEQ && !ft.Pol)
					if !eq {
						continue
					}
					xa, xi := elemOf(bo.X)
					ya, yi := elemOf(bo.Y)
					if xa == nil || ya == nil {
						continue
					}
					pair := (xa == ssa.Value(A) && isDigest(ya)) || (ya == ssa.Value(A) && isDigest(xa))
					if pair && e.Eval(xi).Sub(idxForm).IsConst() && e.Eval(xi).Sub(idxForm).K == 0 && e.Eval(yi).Sub(idxForm).IsConst() && e.Eval(yi).Sub(idxForm).K == 0 {
						okEq = true
					}
				}
				if !okEq {
					return false, "the comparison loop can continue to the next byte without authenticator[i] == digest[i] having been established"
				}
			}
			continue
		}
		// non-constant result: must be an equality library call over (A, digest)
		any = true
		// subtle.ConstantTimeCompare(a, b) == 1
		wantOne := false
		if bo, isB := res.(*ssa.BinOp); isB && bo.Op == token.EQL {
			if k, isK := constInt(bo.Y); isK && k == 1 {
				res, wantOne = bo.X, true
			}
		}
		call, ok := res.(*ssa.Call)
		if !ok {
			return false, "result is neither a constant nor an equality call"
		}
		g := call.Call.StaticCallee()
		if g == nil || g.Pkg == nil {
			return false, "result computed by a dynamic call"
		}
		name := g.Pkg.Pkg.Path() + "." + g.Name()
		switch {
		case (name == "bytes.Equal" || name == "crypto/hmac.Equal") && !wantOne:
		case name == "crypto/subtle.ConstantTimeCompare" && wantOne:
		default:
			return false, "result computed by " + name + ", not a byte-wise equality"
		}
		// the digest, or its prefix of the authenticator's length (what the byte loop compares as well)
		unslice := func(v ssa.Value) ssa.Value {
			if sl, isSl := v.(*ssa.Slice); isSl && sl.Low == nil && (sl.High == nil || lenOf(sl.High) == ssa.Value(A)) {
				return sl.X
			}
			return v
		}
		a0, a1 := unslice(call.Call.Args[0]), unslice(call.Call.Args[1])
		if !((a0 == ssa.Value(A) && isDigest(a1)) || (a1 == ssa.Value(A) && isDigest(a0))) {
			return false, "equality call does not compare the received authenticator with the digest"
		}
	}
	if !any {
		return false, "function never returns true"
	}
	return true, ""
}

func constBool(k *ssa.Const) bool {
	return k.Value != nil && k.Value.String() == "true"
}

// lenOf: v == len(x) → x
func lenOf(v ssa.Value) ssa.Value {
	c, ok := v.(*ssa.Call)
	if !ok {
		return nil
	}
	if b, ok := c.Call.Value.(*ssa.Builtin); ok && b.Name() == "len" {
		return c.Call.Args[0]
	}
	return nil
}

// elemOf: v == *(&x[i]) → (x, i)
func elemOf(v ssa.Value) (ssa.Value, ssa.Value) {
	u, ok := v.(*ssa.UnOp)
	if !ok || u.Op != token.MUL {
		return nil, nil
	}
	ia, ok := u.X.(*ssa.IndexAddr)
	if !ok {
		return nil, nil
	}
	return ia.X, ia.Index
}

// c15Response checks D4 on sendResponse and the parameter chain leading to it.
func c15Response(c *Ctx, loop, send *ssa.Function, S map[*ssa.Function]string, buf ssa.Value) {
	r := c.R
	fn := load.ShortFunc(send)
	// the packet: the value passed to WriteToUDP
	var wr ssa.CallInstruction
	for _, call := range flow.Calls(send) {
		if g := call.Common().StaticCallee(); g != nil && g.Name() == "WriteToUDP" {
			wr = call
		}
	}
	if wr == nil {
		r.Check("C15.D4", fn, "send", c.P.Pos(send.Pos()), false, "no WriteToUDP in sendResponse")
		return
	}
	packet := wr.Common().Args[1]
	addrArg := wr.Common().Args[2]
	role := map[string]*ssa.Parameter{}
	if p, ok := addrArg.(*ssa.Parameter); ok {
		role["addr"] = p
	}
	r.Check("C15.D4", fn, "destination is a parameter", c.P.Pos(instrPos(wr)), role["addr"] != nil, "the response is not sent to an address received as a parameter")
	// header stores
	storeAt := func(idx int64) (ssa.Value, *ssa.Store) {
		var val ssa.Value
		var st *ssa.Store
		flow.Instrs(send, func(in ssa.Instruction) {
			s, ok := in.(*ssa.Store)
			if !ok {
				return
			}
			ia, ok := s.Addr.(*ssa.IndexAddr)
			if !ok || ia.X != packet {
				return
			}
			if k, ok := constInt(ia.Index); ok && k == idx {
				val, st = s.Val, s
			}
		})
		return val, st
	}
	hus := hashUses(send, "crypto/md5")
	var sum *ssa.Call
	if len(hus) == 1 {
		sum = hus[0].Sum
	}
	for _, h := range []struct {
		idx  int64
		name string
	}{{0, "code"}, {1, "identifier"}} {
		v, st := storeAt(h.idx)
		p, isParam := v.(*ssa.Parameter)
		ok := isParam && st != nil && sum != nil && flow.InstrDominates(st, sum)
		if ok {
			role[h.name] = p
		}
		r.Check("C15.D4", fn, fmt.Sprintf("packet[%d] = %s parameter, before hashing", h.idx, h.name), c.P.Pos(send.Pos()), ok, fmt.Sprintf("packet[%d] is not set from a parameter before the response authenticator is computed", h.idx))
	}
	if len(hus) != 1 {
		r.Check("C15.D4", fn, "md5 input", c.P.Pos(send.Pos()), false, fmt.Sprintf("expected one md5.New() use, found %d", len(hus)))
		return
	}
	hu := hus[0]
	okHash := hu.OK && len(hu.Writes) == 4 &&
		hu.Writes[0].Kind == "seg" && hu.Writes[0].Base == packet && hu.Writes[0].Lo == 0 && hu.Writes[0].Hi == 4 &&
		hu.Writes[1].Kind == "val" && isParam(hu.Writes[1].Base) &&
		hu.Writes[2].Kind == "seg" && hu.Writes[2].Base == packet && hu.Writes[2].Lo == 20 && hu.Writes[2].Hi == -1 &&
		hu.Writes[3].Kind == "field" && hu.Writes[3].Field == "CoAServer.secret"
	if okHash {
		role["requestAuth"] = hu.Writes[1].Base.(*ssa.Parameter)
	}
	r.Check("C15.D4", fn, "md5 input", c.P.Pos(instrPos(hu.New)), okHash, fmt.Sprintf("response authenticator hashes %v %s, want [packet[0:4] <request authenticator param> packet[20:] []byte(CoAServer.secret)]", descStrings(hu.Writes), hu.Why))
	// copy(packet[4:20], digest) between Sum and the send
	okCopy := false
	flow.Instrs(send, func(in ssa.Instruction) {
		call, ok := in.(*ssa.Call)
		if !ok {
			return
		}
		if b, ok := call.Call.Value.(*ssa.Builtin); !ok || b.Name() != "copy" {
			return
		}
		d := describeBytes(call.Call.Args[0])
		if d.Kind == "seg" && d.Base == packet && d.Lo == 4 && d.Hi == 20 && call.Call.Args[1] == ssa.Value(hu.Sum) &&
			flow.InstrDominates(hu.Sum, call) && flow.InstrDominates(call, wr) {
			okCopy = true
		}
	})
	r.Check("C15.D4", fn, "copy(packet[4:20], digest) before send", c.P.Pos(instrPos(wr)), okCopy, "the digest is not copied into packet[4:20] between Sum and WriteToUDP")
	// attribute bytes are in place before hashing: every copy into packet[20:] dominates Sum
	// ---- parameter chain back to the receive loop
	cg := c.P.CallGraph()
	leaf := map[string]func(v ssa.Value) (bool, string){
		"identifier": func(v ssa.Value) (bool, string) {
			x, i := elemOf(v)
			k, ok := constInt(orZero(i))
			return x != nil && sameSliceBase(x, buf) && ok && k == 1, "identifier is not buf[1] of the verified datagram"
		},
		"requestAuth": func(v ssa.Value) (bool, string) {
			d := describeBytes(v)
			return d.Kind == "seg" && sameSliceBase(d.Base, buf) && d.Lo == 4 && d.Hi == 20, "request authenticator is not buf[4:20] of the verified datagram"
		},
		"addr": func(v ssa.Value) (bool, string) {
			ex, ok := v.(*ssa.Extract)
			if !ok || ex.Index != 1 {
				return false, "destination is not the source address returned by ReadFromUDP"
			}
			call, ok := ex.Tuple.(*ssa.Call)
			g := (*ssa.Function)(nil)
			if ok {
				g = call.Call.StaticCallee()
			}
			return g != nil && g.Name() == "ReadFromUDP", "destination is not the source address returned by ReadFromUDP"
		},
	}
	for _, name := range []string{"identifier", "requestAuth", "addr"} {
		p := role[name]
		if p == nil {
			continue
		}
		n := 0
		var trace func(f *ssa.Function, par *ssa.Parameter, depth int)
		trace = func(f *ssa.Function, par *ssa.Parameter, depth int) {
			idx := paramIndex(f, par)
			node := cg.Nodes[f]
			if node == nil || idx < 0 || depth > 6 {
				r.Check("C15.D4", load.ShortFunc(f), name+" chain", c.P.Pos(f.Pos()), false, "cannot trace parameter to its callers")
				return
			}
			for _, e := range node.In {
				if e.Site == nil {
					continue
				}
				args := e.Site.Common().Args
				if idx >= len(args) {
					continue
				}
				arg := args[idx]
				caller := e.Caller.Func
				if caller == loop {
					ok, why := leaf[name](arg)
					n++
					r.Check("C15.D4", load.ShortFunc(loop), name+" passed to "+f.Name(), c.P.Pos(instrPos(e.Site)), ok, why)
					continue
				}
				cp, isP := arg.(*ssa.Parameter)
				if !isP {
					n++
					r.Check("C15.D4", load.ShortFunc(caller), name+" passed to "+f.Name(), c.P.Pos(instrPos(e.Site)), false, "the "+name+" handed on is not the one received from the caller")
					continue
				}
				trace(caller, cp, depth+1)
			}
		}
		trace(send, p, 0)
		if n == 0 {
			r.Check("C15.D4", fn, name+" chain", c.P.Pos(send.Pos()), false, "no call chain from the receive loop found")
		}
	}
	// response codes: ACK only on the Success branch, request kind preserved.  Call-site driven (every caller of the
	// response sender in the package, through pass-through wrappers), so the rule does not depend on which function
	// the ACK/NAK selection lives in; the expected pair follows from the response type whose Success flag is tested.
	pairs := map[string][2]int64{"CoAResponse.Success": {44, 45}, "DisconnectResponse.Success": {41, 42}}
	var codeSites func(g *ssa.Function, argIdx int, depth int)
	seenSite := map[ssa.Instruction]bool{}
	codeSites = func(g *ssa.Function, argIdx int, depth int) {
		node := cg.Nodes[g]
		if node == nil || depth > 4 {
			return
		}
		for _, e := range node.In {
			if e.Site == nil || e.Site.Common().StaticCallee() != g || seenSite[e.Site] {
				continue
			}
			seenSite[e.Site] = true
			caller := e.Caller.Func
			args := e.Site.Common().Args
			if argIdx >= len(args) {
				continue
			}
			arg := args[argIdx]
			if cp, isP := arg.(*ssa.Parameter); isP {
				codeSites(caller, paramIndex(caller, cp), depth+1)
				continue
			}
			ok, why := false, "response code is not a φ of the ACK/NAK constants selected by the response's Success flag"
			if phi, isPhi := arg.(*ssa.Phi); isPhi && len(phi.Edges) == 2 {
				ok = true
				for i, ed := range phi.Edges {
					k, isC := constInt(ed)
					succ, field := successBranch(phi.Block().Preds[i], phi.Block())
					want, known := pairs[field]
					switch {
					case !isC:
						ok = false
					case succ == -1 || !known:
						ok, why = false, "cannot relate the code to the Success test of a CoA or Disconnect response"
					case succ == 1 && k != want[0]:
						ok, why = false, fmt.Sprintf("Success branch sends code %d, want %d", k, want[0])
					case succ == 0 && k != want[1]:
						ok, why = false, fmt.Sprintf("failure branch sends code %d, want %d", k, want[1])
					}
				}
			}
			r.Check("C15.D4", load.ShortFunc(caller), "ACK iff Success", c.P.Pos(instrPos(e.Site)), ok, why)
		}
	}
	if ci := paramIndex(send, role["code"]); ci >= 0 {
		codeSites(send, ci, 0)
	}
}

func isParam(v ssa.Value) bool { _, ok := v.(*ssa.Parameter); return ok }

func paramIndex(f *ssa.Function, p *ssa.Parameter) int {
	for i, q := range f.Params {
		if q == p {
			return i
		}
	}
	return -1
}

// successBranch: 1 when block b (a predecessor of join) lies on the true side of an If testing a field named
// Success, 0 on the false side, -1 unknown; also the owner of that field ("CoAResponse.Success").
func successBranch(b, join *ssa.BasicBlock) (int, string) {
	facts := flow.FactsAt(b)
	if ef, ok := flow.EdgeFact(b, join); ok {
		facts = append(facts, ef)
	}
	for _, ft := range facts {
		if fo := flow.FieldOwner(ft.Cond); strings.HasSuffix(fo, ".Success") {
			if i := strings.LastIndex(fo[:len(fo)-len(".Success")], "."); i >= 0 {
				fo = fo[i+1:]
			}
			if ft.Pol {
				return 1, fo
			}
			return 0, fo
		}
	}
	return -1, ""
}

// bufferEscapes checks that no value aliasing buf (slices of it, and parameters they are passed to, through
// static module calls) reaches a go statement, a closure binding, a heap store or a channel send.
// One obligation per function that handles an alias.  Returns the number of alias uses inspected.
func bufferEscapes(c *Ctx, start *ssa.Function, buf ssa.Value, rule string) int {
	type job struct {
		f       *ssa.Function
		tainted map[ssa.Value]bool
	}
	seenFn := map[string]bool{}
	total := 0
	var run func(j job, depth int)
	run = func(j job, depth int) {
		if depth > 6 {
			return
		}
		f := j.f
		// propagate within f: slices/changetypes/phis of tainted values
		for changed := true; changed; {
			changed = false
			flow.Instrs(f, func(in ssa.Instruction) {
				v, ok := in.(ssa.Value)
				if !ok || j.tainted[v] {
					return
				}
				switch x := in.(type) {
				case *ssa.Slice:
					if j.tainted[x.X] {
						j.tainted[v], changed = true, true
					}
				case *ssa.ChangeType:
					if j.tainted[x.X] {
						j.tainted[v], changed = true, true
					}
				case *ssa.Phi:
					for _, e := range x.Edges {
						if j.tainted[e] {
							j.tainted[v], changed = true, true
						}
					}
				}
			})
		}
		var bad []string
		uses := 0
		flow.Instrs(f, func(in ssa.Instruction) {
			switch x := in.(type) {
			case *ssa.Go:
				for _, a := range x.Call.Args {
					if j.tainted[a] {
						uses++
						bad = append(bad, "passed to a go statement at "+c.P.Pos(instrPos(in)))
					}
				}
			case *ssa.MakeClosure:
				for _, b := range x.Bindings {
					if j.tainted[b] {
						uses++
						bad = append(bad, "captured by a closure at "+c.P.Pos(instrPos(in)))
					}
				}
			case *ssa.Store:
				if j.tainted[x.Val] {
					uses++
					if _, local := x.Addr.(*ssa.Alloc); !local {
						bad = append(bad, "stored to the heap at "+c.P.Pos(instrPos(in)))
					}
				}
			case *ssa.Send:
				if j.tainted[x.X] {
					uses++
					bad = append(bad, "sent on a channel at "+c.P.Pos(instrPos(in)))
				}
			case *ssa.MapUpdate:
				if j.tainted[x.Value] {
					uses++
					bad = append(bad, "stored in a map at "+c.P.Pos(instrPos(in)))
				}
			case *ssa.Call:
				callee := x.Call.StaticCallee()
				for i, a := range x.Call.Args {
					if !j.tainted[a] {
						continue
					}
					uses++
					if callee != nil && load.InModule(callee) && len(callee.Blocks) > 0 && i < len(callee.Params) {
						key := fmt.Sprintf("%s#%d", callee, i)
						if !seenFn[key] {
							seenFn[key] = true
							run(job{callee, map[ssa.Value]bool{callee.Params[i]: true}}, depth+1)
						}
					}
				}
			}
		})
		total += uses
		c.R.Check(rule, load.ShortFunc(f), "receive-buffer aliases stay within the iteration", c.P.Pos(f.Pos()), len(bad) == 0, "a slice of the reused receive buffer is "+strings.Join(bad, "; "))
	}
	// initial taint: every slice of buf in start
	t := map[ssa.Value]bool{}
	flow.Instrs(start, func(in ssa.Instruction) {
		if sl, ok := in.(*ssa.Slice); ok && sameSliceBase(sl.X, buf) {
			t[sl] = true
		}
	})
	run(job{start, t}, 0)
	return total
}
