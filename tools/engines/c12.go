package engines

import (
	"fmt"
	"go/token"
	"go/types"
	"sort"
	"strings"

	"bngvet/internal/flow"
	"bngvet/internal/load"

	"golang.org/x/tools/go/ssa"
)

func init() { Registry["C12"] = C12 }

func C12(c *Ctx) {
	r := c.R
	defer c12RestoredMaps(c)
	r.Explain = "Structural clauses of 'allocations survive restart and replication unchanged': on reload and on a remote announcement every call that mutates the in-memory allocator is handed the prefix parsed from the stored/announced record; the result of applying an announcement is examined; store and memory halves of allocate/release are ordered and rolled back so a store failure leaves both in agreement and form one critical section; MarshalJSON/UnmarshalJSON of each allocator use identical field sets and restore every field the query methods read; reverse indexes are evicted when a record moves.  Enumeration-order effects beyond the provenance rule and crash points are not decided."
	r.Rule("C12.P1.announcedValueUsed", "in loadAllocations and handleRemoteChange every call that binds a subscriber in the in-memory allocator takes the prefix parsed from the stored/announced record", 4)
	r.Rule("C12.P2.storeMemoryAgreement", "a failed store write rolls the in-memory acquire back; a release removes the store record before freeing memory; both halves run under one hold of the allocator's lock", 9)
	r.Rule("C12.P3.serialisation", "MarshalJSON and UnmarshalJSON of an allocator use the same field set (same JSON keys and types) and UnmarshalJSON assigns every field that query methods read", 6)
	r.Rule("C12.P4.applyResultExamined", "the error returned by applying a stored or announced record is acted on (logged, propagated or resolved): a conflicting record is not silently ignored — an error branch that merely continues counts as ignoring", 2)
	r.Rule("C12.P5.moveEvictsReverse", "re-binding a subscriber to a different prefix removes the old prefix's reverse-index entry", 2)

	const pkg = "pkg/allocator"
	binders := func(call ssa.CallInstruction) (string, bool) {
		g := call.Common().StaticCallee()
		if g == nil {
			return "", false
		}
		rt := flow.RecvTypeName(g)
		if rt != "IPAllocator" && rt != "EpochBitmapAllocator" {
			return "", false
		}
		switch g.Name() {
		case "Allocate", "AllocateSpecific", "SetAllocation", "AllocateWithMAC":
			return rt + "." + g.Name(), true
		}
		return "", false
	}
	for _, fn := range []string{"loadAllocations", "handleRemoteChange"} {
		f := c.fn(pkg, "DistributedAllocator", fn)
		if f == nil {
			continue
		}
		// values derived from net.ParseCIDR(record.Prefix)
		parsed := map[ssa.Value]bool{}
		flow.Instrs(f, func(in ssa.Instruction) {
			if ex, ok := in.(*ssa.Extract); ok {
				if call, ok := ex.Tuple.(*ssa.Call); ok {
					if g := call.Call.StaticCallee(); g != nil && g.Name() == "ParseCIDR" && strings.HasSuffix(flow.FieldOwner(call.Call.Args[0]), "DistributedAllocation.Prefix") {
						parsed[ex] = true
					}
				}
			}
		})
		// through joins: a phi whose incoming values are the parsed prefix or nil (the helper's failure return)
		for changed := true; changed; {
			changed = false
			flow.Instrs(f, func(in ssa.Instruction) {
				phi, ok := in.(*ssa.Phi)
				if !ok || parsed[phi] {
					return
				}
				some := false
				for _, e := range phi.Edges {
					if k, isK := e.(*ssa.Const); isK && k.IsNil() {
						continue
					}
					if !parsed[e] {
						return
					}
					some = true
				}
				if some {
					parsed[phi] = true
					changed = true
				}
			})
		}
		n := 0
		for _, call := range flow.Calls(f) {
			name, ok := binders(call)
			if !ok {
				continue
			}
			n++
			uses := false
			for _, a := range call.Common().Args {
				if parsed[a] {
					uses = true
				}
				// or a field of the parsed *net.IPNet (e.g. prefix.IP)
				if ld, isLd := a.(*ssa.UnOp); isLd {
					if fa, isFA := ld.X.(*ssa.FieldAddr); isFA && parsed[fa.X] {
						uses = true
					}
				}
			}
			r.Check("C12.P1.announcedValueUsed", load.ShortFunc(f), "call "+name, c.P.Pos(instrPos(call)), uses,
				"the subscriber is bound by "+name+" without the prefix recorded in the store: the allocator picks its own (first-free) address, so after a restart or on a peer the subscriber maps to a different address than the record says")
			// P4
			if cv, isVal := call.(*ssa.Call); isVal && strings.HasSuffix(name, "SetAllocation") {
				// "examined" means acted on: an error branch that only continues or returns is the same behaviour as
				// discarding the result, so both forms get the same verdict
				examined := false
				for _, rf := range *cv.Referrers() {
					cmp, isCmp := rf.(*ssa.BinOp)
					if !isCmp || cmp.Op != token.NEQ {
						if _, isRet := rf.(*ssa.Return); isRet {
							examined = true // propagated to the caller
						}
						continue
					}
					for _, u := range *cmp.Referrers() {
						ifi, isIf := u.(*ssa.If)
						if !isIf {
							continue
						}
						tb := ifi.Block().Succs[0]
						if len(tb.Preds) != 1 {
							continue
						}
						for _, b := range f.Blocks {
							if !tb.Dominates(b) {
								continue
							}
							for _, in := range b.Instrs {
								switch x := in.(type) {
								case *ssa.Call, *ssa.Go, *ssa.Store, *ssa.MapUpdate, *ssa.Send:
									examined = true
								case *ssa.Return:
									if len(x.Results) > 0 {
										examined = true
									}
								}
							}
						}
					}
				}
				r.Check("C12.P4.applyResultExamined", load.ShortFunc(f), "result of "+name, c.P.Pos(instrPos(call)), examined,
					"the error from applying the record is discarded: a record that conflicts with the local state (address held by another subscriber) is dropped without trace and memory and store keep disagreeing")
			}
		}
		if n == 0 {
			r.Check("C12.P1.announcedValueUsed", load.ShortFunc(f), "binds", c.P.Pos(f.Pos()), false, "no allocator-mutating call found — anchors moved?")
		}
	}
	c05Rollback(c, "C12.P2.storeMemoryAgreement")
	r.Rule("C12.P8.innerMapKey", "in MemoryAllocationStore.SaveAllocation/UnmarshalJSON an inner index map is created under the very key whose absence was tested", 5)
	c12InnerMapKey(c)
	r.Rule("C12.P9.syncComparesPrefix", "handleRemoteChange skips an announced record as already known only after comparing the prefix held by the session allocator with the announced prefix, and the apply is reachable for a known subscriber", 2)
	c12SyncComparesPrefix(c)
	c12KeyScope(c)
	c12Serialisation(c)
	// P5: reuse the eviction clause of the pairing rule on the bitmap allocator
	pairRule(c, "C12.P5.moveEvictsReverse", []pairSpec{{"pkg/allocator", "IPAllocator", "allocated", "indexToSubscriber", restoreExempt}})
}

func c12Serialisation(c *Ctx) {
	r := c.R
	for _, typ := range []string{"IPAllocator", "EpochBitmapAllocator", "MemoryAllocationStore"} {
		m := c.P.SSAFunc("pkg/allocator", typ, "MarshalJSON")
		u := c.P.SSAFunc("pkg/allocator", typ, "UnmarshalJSON")
		if m == nil || u == nil {
			r.Check("C12.P3.serialisation", "allocator."+typ, "MarshalJSON/UnmarshalJSON present", "-", m == nil && u == nil, "only one of MarshalJSON/UnmarshalJSON exists")
			continue
		}
		c.R.Count("functions_analysed", 2)
		// the anonymous/auxiliary struct handed to json.Marshal / json.Unmarshal
		auxType := func(f *ssa.Function, fn string) types.Type {
			var t types.Type
			for _, call := range flow.Calls(f) {
				g := call.Common().StaticCallee()
				if g == nil || g.Pkg == nil || g.Pkg.Pkg.Path() != "encoding/json" || g.Name() != fn {
					continue
				}
				arg := call.Common().Args[len(call.Common().Args)-1]
				if mi, ok := arg.(*ssa.MakeInterface); ok {
					t = mi.X.Type()
					if p, ok := t.(*types.Pointer); ok {
						t = p.Elem()
					}
				}
			}
			return t
		}
		mt, ut := auxType(m, "Marshal"), auxType(u, "Unmarshal")
		same := mt != nil && ut != nil && jsonShape(mt) == jsonShape(ut)
		r.Check("C12.P3.serialisation", "allocator.(*"+typ+")", "marshal/unmarshal field sets agree", c.P.Pos(u.Pos()), same,
			fmt.Sprintf("MarshalJSON writes %s but UnmarshalJSON reads %s", jsonShape(mt), jsonShape(ut)))
		// every field read by the other methods is assigned by UnmarshalJSON
		tn := c.P.SSAPkg("pkg/allocator").Pkg.Scope().Lookup(typ).(*types.TypeName)
		named := tn.Type().(*types.Named)
		st := named.Underlying().(*types.Struct)
		all := map[string]bool{}
		for i := 0; i < st.NumFields(); i++ {
			all[st.Field(i).Name()] = true
		}
		assigned := map[string]bool{}
		for _, a := range accessesOf(u, named, all) {
			if a.write {
				assigned[a.field] = true
			}
		}
		read := map[string]bool{}
		for _, f := range c.moduleFuncs() {
			if flow.RecvTypeName(f) != typ || f.Name() == "UnmarshalJSON" || f.Name() == "MarshalJSON" {
				continue
			}
			for _, a := range accessesOf(f, named, all) {
				read[a.field] = true
			}
		}
		var missing []string
		for fld := range read {
			// search-start hints only bias which free slot is tried first; every lookup answers the same without them
			if !assigned[fld] && fld != "mu" && fld != "nextFree" && fld != "nextFreeHint" {
				missing = append(missing, fld)
			}
		}
		sort.Strings(missing)
		r.Check("C12.P3.serialisation", "allocator.(*"+typ+")", "UnmarshalJSON restores every field the methods read", c.P.Pos(u.Pos()), len(missing) == 0,
			"fields read by the allocator's methods but not assigned by UnmarshalJSON: "+strings.Join(missing, ", ")+" — a restored allocator answers queries from stale or zero state")
	}
}

// jsonShape renders a struct type as its sorted (json key : type) list.
func jsonShape(t types.Type) string {
	if t == nil {
		return "<not found>"
	}
	st, ok := t.Underlying().(*types.Struct)
	if !ok {
		return types.TypeString(t, nil)
	}
	var parts []string
	for i := 0; i < st.NumFields(); i++ {
		key := st.Field(i).Name()
		tag := st.Tag(i)
		if j := strings.Index(tag, `json:"`); j >= 0 {
			rest := tag[j+6:]
			if k := strings.Index(rest, `"`); k >= 0 {
				key = strings.Split(rest[:k], ",")[0]
			}
		}
		parts = append(parts, key+":"+types.TypeString(st.Field(i).Type(), func(p *types.Package) string { return p.Name() }))
	}
	sort.Strings(parts)
	return "{" + strings.Join(parts, " ") + "}"
}
