package engines

import (
	"fmt"
	"go/constant"
	"go/token"
	"go/types"
	"strings"

	"bngvet/internal/flow"

	"golang.org/x/tools/go/ssa"
)

// guardName gives a position-free name to the branch conditions that decide whether a resource handle is
// present: nil tests and emptiness tests of struct fields, comma-ok results of map lookups on fields,
// boolean fields, boolean capability calls (Has*Support) and nil tests of call results.
// The name describes the condition as written (operator included); callers compare against both spellings.
func guardName(cond ssa.Value) (string, []string, bool) {
	switch x := cond.(type) {
	case *ssa.BinOp:
		op := x.Op.String()
		l := operandName(x.X)
		if l == "" {
			return "", nil, false
		}
		switch y := x.Y.(type) {
		case *ssa.Const:
			switch {
			case y.Value == nil:
				return l + op + "nil", fieldsOf(l), true
			case y.Value.Kind() == constant.String || y.Value.Kind() == constant.Int || y.Value.Kind() == constant.Bool:
				return l + op + y.Value.ExactString(), fieldsOf(l), true
			}
		}
		// identity guard: an index entry compared with the id/object being handled (idx[k] == id)
		if strings.HasPrefix(l, "elem(") && (x.Op == token.EQL || x.Op == token.NEQ) {
			return l + op + "·", fieldsOf(l), true
		}
		return "", nil, false
	case *ssa.Extract:
		// v, ok := m[k]
		if lk, ok := x.Tuple.(*ssa.Lookup); ok && lk.CommaOk && x.Index == 1 {
			if fo := flow.FieldOwner(lk.X); fo != "" {
				return "found(" + fo + ")", nil, true
			}
		}
	case *ssa.Call:
		if g := x.Call.StaticCallee(); g != nil {
			if b, ok := x.Type().Underlying().(*types.Basic); ok && b.Kind() == types.Bool {
				return "call:" + g.Name(), nil, true
			}
		}
	case *ssa.UnOp:
		if x.Op == token.MUL {
			if fo := flow.FieldOwner(x); fo != "" {
				if b, ok := x.Type().Underlying().(*types.Basic); ok && b.Kind() == types.Bool {
					return fo, fieldsOf(fo), true
				}
			}
		}
	}
	return "", nil, false
}

func fieldsOf(name string) []string {
	if i := strings.LastIndex(name, "."); i >= 0 {
		f := strings.TrimRight(name[i+1:], ")")
		return []string{f}
	}
	return nil
}

// operandName: T.f for field loads, len(T.f), result() for call results (nil tests on what a getter returned).
func operandName(v ssa.Value) string { return operandNameD(v, 0) }

func operandNameD(v ssa.Value, depth int) string {
	if depth > 8 {
		return "" // φ cycle (loop-carried value)
	}
	if fo := flow.FieldOwner(v); fo != "" {
		return fo
	}
	switch x := v.(type) {
	case *ssa.Call:
		if b, ok := x.Call.Value.(*ssa.Builtin); ok && b.Name() == "len" {
			if fo := flow.FieldOwner(x.Call.Args[0]); fo != "" {
				return "len(" + fo + ")"
			}
			return ""
		}
		if g := x.Call.StaticCallee(); g != nil {
			return g.Name() + "()"
		}
		if x.Call.IsInvoke() {
			return x.Call.Method.Name() + "()"
		}
	case *ssa.Extract:
		if call, ok := x.Tuple.(*ssa.Call); ok {
			if g := call.Call.StaticCallee(); g != nil {
				return fmt.Sprintf("%s()#%d", g.Name(), x.Index)
			}
		}
		if lk, ok := x.Tuple.(*ssa.Lookup); ok && x.Index == 0 {
			if fo := flow.FieldOwner(lk.X); fo != "" {
				return "elem(" + fo + ")"
			}
		}
	case *ssa.Lookup:
		if fo := flow.FieldOwner(x.X); fo != "" {
			return "elem(" + fo + ")"
		}
	case *ssa.Phi:
		// a local that is either nil or one call's result
		var s string
		for _, e := range x.Edges {
			if k, ok := e.(*ssa.Const); ok && k.Value == nil {
				continue
			}
			n := operandNameD(e, depth+1)
			if n == "" || (s != "" && s != n) {
				return ""
			}
			s = n
		}
		return s
	case *ssa.ChangeType:
		return operandNameD(x.X, depth+1)
	case *ssa.MakeInterface:
		return operandNameD(x.X, depth+1)
	}
	return ""
}

// atomTrue / atomFalse: does the decided-atom list establish that the named comparison holds / fails?
// Atom lists contain "name" (true) or "!name" (false), with the operator as written in the source, so both
// spellings of a test (x != nil false ≡ x == nil true) are accepted.
func atomHolds(atoms []string, base, op, val string) bool {
	neg := map[string]string{"!=": "==", "==": "!=", ">": "<=", "<=": ">", "<": ">=", ">=": "<"}
	return has(atoms, base+op+val) || has(atoms, "!"+base+neg[op]+val)
}

// canonEmptiness gives the many spellings of an emptiness test (len(x)==0, !=0, >0, <1, >=1, <=0) one canonical atom
// "len(x)>0"; a leading "!" marks the negation (understood by esp).
func canonEmptiness(name string) string {
	if !strings.HasPrefix(name, "len(") {
		return name
	}
	i := strings.Index(name, ")")
	if i < 0 {
		return name
	}
	l, rest := name[:i+1], name[i+1:]
	switch rest {
	case ">0", "!=0", ">=1":
		return l + ">0"
	case "==0", "<=0", "<1":
		return "!" + l + ">0"
	}
	return name
}

// canonGuard: one atom for the two spellings of a test (x != v is the negation of x == v), so that a path cannot
// carry both "x!=nil is false" and "x==nil is false".
func canonGuard(name string) string {
	name = canonEmptiness(name)
	if strings.HasPrefix(name, "!") {
		return name
	}
	if i := strings.Index(name, "!="); i > 0 {
		return "!" + name[:i] + "==" + name[i+2:]
	}
	return name
}
