package engines

import (
	"fmt"
	"go/constant"
	"go/types"
	"sort"
	"strings"

	"bngvet/internal/cfront"
)

// package <-> translation unit association (which kernel program a control-plane package drives).
var c06Assoc = map[string]string{
	"pkg/ebpf":      "bpf/dhcp_fastpath.c",
	"pkg/nat":       "bpf/nat44.c",
	"pkg/qos":       "bpf/qos_ratelimit.c",
	"pkg/antispoof": "bpf/antispoof.c",
}

// Go type name -> C struct name where normalised names differ (confirmed by the "mirrors …" comments).
var c06Alias = map[string]string{
	"pkg/ebpf.ServerConfig": "struct dhcp_server_config",
	"pkg/nat.BPFLogEntry":   "struct nat_log_entry",
	"pkg/antispoof.Config":  "struct antispoof_config",
	"pkg/antispoof.Stats":   "struct antispoof_stats",
	"pkg/nat.natKey":        "struct nat_key",
}

// constant-name prefixes that differ between the sides.
var c06ConstPrefix = map[string][2]string{
	"pkg/antispoof": {"mode", "antispoof"},
}

func unitByRel(tus []*cfront.TU, rel string) *cfront.TU {
	for _, tu := range tus {
		if tu.Rel == rel {
			return tu
		}
	}
	return nil
}

// c06Events compares every Go struct that mirrors a C struct (by name), whether or not a map call site uses it:
// event structs read from perf/ring buffers and statistics structs are only reachable this way.
func c06Events(c *Ctx, tus []*cfront.TU, atCallSites map[string]bool) {
	r := c.R
	aliased := map[string]bool{}
	for _, v := range c06Alias {
		aliased[v] = true
	}
	var rels []string
	for rel := range c06Assoc {
		rels = append(rels, rel)
	}
	sort.Strings(rels)
	pairs := 0
	for _, rel := range rels {
		tu := unitByRel(tus, c06Assoc[rel])
		pk := c.P.Pkg(rel)
		if tu == nil || pk == nil {
			r.Fatalf("C06: association %s <-> %s cannot be resolved", rel, c06Assoc[rel])
			continue
		}
		cnames := map[string]string{}
		for name, rec := range tu.Layout.Recs {
			if strings.HasPrefix(name, "struct ") && !strings.Contains(name, "unnamed") && tu.InRepo(rec.Decl) {
				cnames[normName(strings.TrimPrefix(name, "struct "))] = name
			}
		}
		scope := pk.Types.Scope()
		names := scope.Names()
		sort.Strings(names)
		for _, n := range names {
			tn, ok := scope.Lookup(n).(*types.TypeName)
			if !ok {
				continue
			}
			st, ok := tn.Type().Underlying().(*types.Struct)
			_ = st
			arr, isArr := tn.Type().Underlying().(*types.Array)
			_ = arr
			if !ok && !isArr {
				continue
			}
			cname := c06Alias[rel+"."+n]
			if cname == "" {
				cname = cnames[normName(n)]
				if aliased[cname] {
					continue // the C struct has a declared Go mirror under another name
				}
			}
			if cname == "" {
				continue
			}
			pairs++
			r.List("mirrored_structs", rel+"."+n+" <-> "+cname)
			if atCallSites[tn.Type().String()] {
				continue // already compared where it is marshalled
			}
			g := goLayout(tn.Type())
			cl := cLayout(tu, cname)
			// structs that only travel through perf/ring buffers are decoded from a record that may carry the
			// C struct's tail padding: only the fields have to line up
			if cl.err == "" && g.err == "" && cl.size > g.size && tailPadOnly(cl, g.size) {
				r.Note(fmt.Sprintf("%s.%s is %d bytes, %s is %d bytes: the difference is C tail padding only", rel, n, g.size, cname, cl.size))
				cl.size = g.size
			}
			diffs := compareLayouts(g, cl)
			r.Check("C06.events", rel+"."+n, "mirrors "+cname, c.P.Pos(tn.Pos()), len(diffs) == 0, strings.Join(diffs, "; "))
		}
	}
	r.Count("mirrored_struct_pairs", pairs)
}

func c06Constants(c *Ctx, tus []*cfront.TU) {
	r := c.R
	var rels []string
	for rel := range c06Assoc {
		rels = append(rels, rel)
	}
	sort.Strings(rels)
	for _, rel := range rels {
		tu := unitByRel(tus, c06Assoc[rel])
		pk := c.P.Pkg(rel)
		if tu == nil || pk == nil {
			continue
		}
		cvals := map[string]int64{}
		corig := map[string]string{}
		mac, err := tu.Macros()
		if err != nil {
			r.Fatalf("C06: macros of %s: %v", tu.Rel, err)
			continue
		}
		for k, v := range mac {
			if strings.HasPrefix(k, "__") {
				continue
			}
			cvals[normName(k)] = v
			corig[normName(k)] = k
		}
		for k, v := range tu.EnumConsts() {
			cvals[normName(k)] = v
			corig[normName(k)] = k
		}
		scope := pk.Types.Scope()
		names := scope.Names()
		sort.Strings(names)
		for _, n := range names {
			cn, ok := scope.Lookup(n).(*types.Const)
			if !ok || cn.Val().Kind() != constant.Int {
				continue
			}
			key := normName(n)
			if p, ok := c06ConstPrefix[rel]; ok && strings.HasPrefix(key, p[0]) {
				key = p[1] + strings.TrimPrefix(key, p[0])
			}
			cv, ok := cvals[key]
			if !ok {
				continue
			}
			gv, exact := constant.Int64Val(cn.Val())
			if !exact {
				u, _ := constant.Uint64Val(cn.Val())
				gv = int64(u)
			}
			r.Check("C06.constants", rel, n+" == "+corig[key], c.P.Pos(cn.Pos()), gv == cv,
				fmt.Sprintf("Go %s = %d, C %s = %d: the control plane writes a value the program interprets differently", n, gv, corig[key], cv))
		}
	}
}

func tailPadOnly(c layout, from int64) bool {
	for _, lf := range c.leaves {
		if lf.off+lf.width > from {
			return false
		}
	}
	return true
}
