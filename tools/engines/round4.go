package engines

import (
	"go/constant"
	"go/token"
	"strings"

	"bngvet/internal/flow"
	"bngvet/internal/load"

	"golang.org/x/tools/go/ssa"
)

// Rules added after the fourth seeding round.

// c12KeyScope (rule C12.P7): the prefix under which a pool's records are queried and watched ends with the separator
// that precedes the subscriber id in a record key.  Without the separator the query for pool "isp-1" also returns the
// records of pool "isp-10" (and the watch applies their changes), so one pool replays and releases another's
// allocations.
func c12KeyScope(c *Ctx) {
	r := c.R
	r.Rule("C12.P7.keyScope", "the store prefix used for reload and watch ends with the separator that precedes the subscriber id in a record key, and the record key extends exactly that prefix: pools whose ids share a textual prefix do not see each other's records", 2)
	kp := c.fn("pkg/allocator", "DistributedAllocator", "keyPrefix")
	ak := c.fn("pkg/allocator", "DistributedAllocator", "allocationKey")
	if kp == nil || ak == nil {
		return
	}
	// the string a function returns: Sprintf with a constant format, or a concatenation; rendered as a template in
	// which run-time parts are "%"
	template := func(f *ssa.Function) (string, bool) {
		var tpl string
		n := 0
		for _, b := range f.Blocks {
			ret, ok := b.Instrs[len(b.Instrs)-1].(*ssa.Return)
			if !ok || b == f.Recover || len(ret.Results) != 1 {
				continue
			}
			n++
			t, ok := stringTemplate(ret.Results[0], 0)
			if !ok || (tpl != "" && tpl != t) {
				return "", false
			}
			tpl = t
		}
		return tpl, n > 0
	}
	pt, ok1 := template(kp)
	at, ok2 := template(ak)
	r.Check("C12.P7.keyScope", load.ShortFunc(kp), "prefix ends with the separator", c.P.Pos(kp.Pos()), ok1 && strings.HasSuffix(pt, "/"),
		"the reload/watch prefix is not a literal template ending in \"/\" ("+pt+"): the prefix of pool P also matches every pool whose id starts with P")
	r.Check("C12.P7.keyScope", load.ShortFunc(ak), "record key = prefix + subscriber id", c.P.Pos(ak.Pos()), ok1 && ok2 && at == pt+"%",
		"the record key template ("+at+") is not the reload/watch prefix ("+pt+") followed by the subscriber id: records are written where the reload does not look, or looked up across pools")
}

// stringTemplate renders a string-valued SSA expression: constants literally, run-time parts as "%".
func stringTemplate(v ssa.Value, depth int) (string, bool) {
	if depth > 6 {
		return "", false
	}
	switch x := v.(type) {
	case *ssa.Const:
		if x.Value != nil && x.Value.Kind() == constant.String {
			return constant.StringVal(x.Value), true
		}
	case *ssa.BinOp:
		if x.Op == token.ADD {
			a, ok1 := stringTemplate(x.X, depth+1)
			b, ok2 := stringTemplate(x.Y, depth+1)
			return a + b, ok1 && ok2
		}
	case *ssa.Call:
		if g := x.Call.StaticCallee(); g != nil && g.Pkg != nil && g.Pkg.Pkg.Path() == "fmt" && g.Name() == "Sprintf" && len(x.Call.Args) > 0 {
			if k, ok := x.Call.Args[0].(*ssa.Const); ok && k.Value != nil && k.Value.Kind() == constant.String {
				f := constant.StringVal(k.Value)
				out := ""
				for i := 0; i < len(f); i++ {
					if f[i] == '%' && i+1 < len(f) {
						if f[i+1] == '%' {
							out += "%%"
						} else {
							out += "%"
						}
						i++
						continue
					}
					out += string(f[i])
				}
				return out, true
			}
			return "", false
		}
		// same-package helper returning a template (keyPrefix() + id)
		if g := x.Call.StaticCallee(); g != nil && len(g.Blocks) > 0 && g.Signature.Results().Len() == 1 {
			for _, b := range g.Blocks {
				if ret, ok := b.Instrs[len(b.Instrs)-1].(*ssa.Return); ok && b != g.Recover && len(ret.Results) == 1 {
					return stringTemplate(ret.Results[0], depth+1)
				}
			}
		}
		return "", false
	case *ssa.Parameter, *ssa.UnOp, *ssa.Phi, *ssa.Extract, *ssa.Field:
		return "%", true
	case *ssa.ChangeType:
		return stringTemplate(x.X, depth+1)
	}
	return "", false
}

// c13Fifo (rule C13.S7): the active forwards queued changes one by one in queue order: what broadcastLoop hands to
// broadcastToClients is the very message it received from the pendingChanges queue (or a heartbeat it built itself),
// not something assembled from several queued messages — regrouping changes (all adds, then all deletes) reorders
// an add/delete/add of one session and the standby ends without it.
func c13Fifo(c *Ctx) {
	r := c.R
	r.Rule("C13.S7.fifoForward", "broadcastLoop forwards each queued change as received, in queue order: the message given to broadcastToClients is the value received from pendingChanges or a heartbeat literal built in place", 2)
	f := c.fn("pkg/ha", "HASyncer", "broadcastLoop")
	if f == nil {
		return
	}
	n := 0
	for _, call := range flow.Calls(f) {
		if !flow.CalleeIs(call, "pkg/ha", "HASyncer", "broadcastToClients") {
			continue
		}
		n++
		arg := call.Common().Args[len(call.Common().Args)-1]
		ok, why := false, "the message broadcast is neither the value received from the queue nor a message literal built in place"
		switch x := arg.(type) {
		case *ssa.Extract:
			// select: the tuple's received value
			if _, isSel := x.Tuple.(*ssa.Select); isSel {
				ok = true
			}
		case *ssa.UnOp:
			if x.Op == token.ARROW {
				ok = true
			}
		case *ssa.Alloc:
			ok = true // &SyncMessage{...} built in place (heartbeat); its Type is checked by S1 on the standby side
		}
		r.Check("C13.S7.fifoForward", load.ShortFunc(f), "message forwarded as received", c.P.Pos(instrPos(call)), ok, why)
	}
	if n == 0 {
		r.Check("C13.S7.fifoForward", load.ShortFunc(f), "forwards", c.P.Pos(f.Pos()), false, "broadcastLoop does not call broadcastToClients")
	}
	// and nothing else drains the queue
	for _, g := range c.moduleFuncs() {
		if g == f || g.Pkg != f.Pkg {
			continue
		}
		for _, fn := range flow.WithAnon(g) {
			if fn.Parent() == f {
				continue
			}
			flow.Instrs(fn, func(in ssa.Instruction) {
				var ch ssa.Value
				switch x := in.(type) {
				case *ssa.UnOp:
					if x.Op == token.ARROW {
						ch = x.X
					}
				case *ssa.Select:
					for _, st := range x.States {
						if st.Dir == 2 /* types.RecvOnly */ && strings.HasSuffix(flow.FieldOwner(st.Chan), "HASyncer.pendingChanges") {
							ch = st.Chan
						}
					}
				}
				if ch != nil && strings.HasSuffix(flow.FieldOwner(ch), "HASyncer.pendingChanges") {
					r.Check("C13.S7.fifoForward", load.ShortFunc(fn), "single consumer of pendingChanges", c.P.Pos(instrPos(in)), false, "a second function receives from the change queue: messages taken there bypass the in-order forwarder")
				}
			})
		}
	}
}
