package engines

import (
	"fmt"
	"go/constant"
	"go/types"
	"sort"
	"strings"

	"bngvet/internal/cfront"
	"bngvet/internal/flow"
	"bngvet/internal/load"

	"golang.org/x/tools/go/ssa"
)

func init() { Registry["C06"] = c06 }

// ---------- layouts ----------

// leaf is one scalar (or byte blob element) of a flattened layout.
type leaf struct {
	off, width int64
	name       string // dotted path
	pad        bool   // Go blank field / C field named like padding
}

type layout struct {
	size   int64
	leaves []leaf
	err    string
	desc   string
}

func isPadName(n string) bool {
	b := strings.ToLower(n[strings.LastIndex(n, ".")+1:])
	return b == "_" || strings.HasPrefix(b, "_pad") || strings.HasPrefix(b, "pad") || strings.HasPrefix(b, "reserved") || strings.HasPrefix(b, "_reserved") || strings.HasPrefix(b, "__pad")
}

// goLayout computes what encoding/binary (and therefore cilium/ebpf's sysenc.Marshal/Unmarshal) reads and writes for t:
// fields in declaration order, no padding, blank fields included, arrays flattened.
func goLayout(t types.Type) layout {
	var l layout
	l.desc = types.TypeString(t, func(p *types.Package) string { return p.Name() })
	var walk func(t types.Type, path string, pad bool)
	walk = func(t types.Type, path string, pad bool) {
		switch u := t.Underlying().(type) {
		case *types.Basic:
			var w int64
			switch u.Kind() {
			case types.Bool, types.Int8, types.Uint8:
				w = 1
			case types.Int16, types.Uint16:
				w = 2
			case types.Int32, types.Uint32, types.Float32:
				w = 4
			case types.Int64, types.Uint64, types.Float64:
				w = 8
			default:
				if l.err == "" {
					l.err = fmt.Sprintf("field %s has type %s, which encoding/binary cannot size (binary.Size = -1: Put/Lookup fail at run time)", path, u.Name())
				}
				return
			}
			l.leaves = append(l.leaves, leaf{off: l.size, width: w, name: path, pad: pad})
			l.size += w
		case *types.Array:
			for i := int64(0); i < u.Len(); i++ {
				walk(u.Elem(), fmt.Sprintf("%s[%d]", path, i), pad)
			}
		case *types.Struct:
			for i := 0; i < u.NumFields(); i++ {
				f := u.Field(i)
				p := f.Name()
				if path != "" {
					p = path + "." + f.Name()
				}
				if !f.Exported() && f.Name() != "_" && l.err == "" {
					l.err = fmt.Sprintf("field %s is unexported: binary.Read cannot set it (Lookup panics or fails), and sysenc refuses the zero-copy path", p)
				}
				walk(f.Type(), p, pad || f.Name() == "_" || isPadName(f.Name()))
			}
		default:
			if l.err == "" {
				l.err = fmt.Sprintf("%s (%s) is not a fixed-size value for encoding/binary", path, t.String())
			}
		}
	}
	walk(t, "", false)
	return l
}

// cLayout flattens clang's record layout of a C type.
func cLayout(tu *cfront.TU, typ string) layout {
	var l layout
	l.desc = typ
	sz, err := tu.SizeOfStr(typ)
	if err != nil {
		l.err = err.Error()
		return l
	}
	l.size = sz
	var walk func(typ string, base int64, path string, pad bool)
	walk = func(typ string, base int64, path string, pad bool) {
		t, err := cfront.ParseType(typ)
		if err != nil {
			l.err = err.Error()
			return
		}
		switch t.Kind {
		case "int", "enum", "ptr":
			l.leaves = append(l.leaves, leaf{off: base, width: t.Size, name: path, pad: pad})
		case "array":
			esz, _ := tu.SizeOf(t.Elem)
			for i := int64(0); i < t.Len; i++ {
				walk(typeStr(t.Elem), base+i*esz, fmt.Sprintf("%s[%d]", path, i), pad)
			}
		case "record":
			r := tu.Layout.Recs[t.Rec]
			if r == nil {
				l.err = "no layout for " + t.Rec
				return
			}
			if strings.HasPrefix(t.Rec, "union") {
				// unions: use the first member (keys/values of this repository's maps contain none)
				l.err = "union in a map key/value: not compared"
				return
			}
			for _, f := range r.Fields {
				if f.Bitfield {
					l.err = "bit-field in a map key/value: not compared"
					return
				}
				p := f.Name
				if path != "" {
					p = path + "." + f.Name
				}
				walk(f.Type, base+f.Off, p, pad || isPadName(f.Name))
			}
		default:
			l.err = "unsupported C type " + typ
		}
	}
	walk(typ, 0, "", false)
	return l
}

func typeStr(t *cfront.CType) string {
	switch t.Kind {
	case "int":
		names := map[int64]string{1: "char", 2: "short", 4: "int", 8: "long long"}
		if t.Signed {
			if t.Size == 1 {
				return "signed char"
			}
			return names[t.Size]
		}
		return "unsigned " + names[t.Size]
	case "enum":
		return "unsigned int"
	case "ptr":
		return "void *"
	case "record":
		return t.Rec
	case "array":
		return fmt.Sprintf("%s[%d]", typeStr(t.Elem), t.Len)
	}
	return "int"
}

func normName(n string) string {
	n = strings.ToLower(n)
	n = strings.ReplaceAll(n, "_", "")
	return n
}

// compareLayouts returns the list of disagreements between what Go writes/reads and what C declares.
func compareLayouts(g, c layout) []string {
	var out []string
	if g.err != "" {
		return []string{"Go side: " + g.err}
	}
	if c.err != "" {
		return []string{"C side: " + c.err}
	}
	if g.size != c.size {
		out = append(out, fmt.Sprintf("size: Go marshals %d bytes, the C declaration is %d bytes (cilium/ebpf rejects the call: \"doesn't marshal to %d bytes\")", g.size, c.size, c.size))
	}
	// byte ownership
	type own struct {
		w, idx int64
		name   string
		pad    bool
		set    bool
	}
	mk := func(l layout) []own {
		b := make([]own, l.size)
		for _, lf := range l.leaves {
			for i := int64(0); i < lf.width && lf.off+i < l.size; i++ {
				b[lf.off+i] = own{lf.width, i, lf.name, lf.pad, true}
			}
		}
		return b
	}
	gb, cb := mk(g), mk(c)
	n := g.size
	if c.size < n {
		n = c.size
	}
	reported := map[string]bool{}
	for i := int64(0); i < n; i++ {
		go_, c_ := gb[i], cb[i]
		if !c_.set {
			continue // implicit C padding: any Go bytes
		}
		if !go_.set {
			continue
		}
		if c_.pad || go_.pad {
			if c_.pad && go_.pad {
				continue
			}
			// a real field on one side sits on padding of the other
			k := go_.name + "/" + c_.name
			if !reported[k] {
				reported[k] = true
				out = append(out, fmt.Sprintf("offset %d: Go field %s (%d bytes) overlaps C field %s (%d bytes): padding on one side, data on the other", i, go_.name, go_.w, c_.name, c_.w))
			}
			continue
		}
		if go_.w != c_.w || go_.idx != c_.idx {
			k := go_.name + "/" + c_.name
			if !reported[k] {
				reported[k] = true
				out = append(out, fmt.Sprintf("offset %d: Go field %s is %d bytes wide (byte %d of it), C field %s is %d bytes wide (byte %d of it): scalars do not line up", i, go_.name, go_.w, go_.idx, c_.name, c_.w, c_.idx))
			}
		}
	}
	// same name, different place
	cn := map[string]leaf{}
	for _, lf := range c.leaves {
		if !lf.pad {
			cn[normName(lf.name)] = lf
		}
	}
	for _, lf := range g.leaves {
		if lf.pad {
			continue
		}
		if cl, ok := cn[normName(lf.name)]; ok && (cl.off != lf.off || cl.width != lf.width) {
			out = append(out, fmt.Sprintf("field %s: Go offset %d width %d, C field %s offset %d width %d", lf.name, lf.off, lf.width, cl.name, cl.off, cl.width))
		}
	}
	return out
}

// ---------- Go side: map bindings and call sites ----------

type mapUse struct {
	call    ssa.CallInstruction
	fn      *ssa.Function
	method  string
	field   *types.Var // struct field holding the *ebpf.Map
	mapName string
	key     types.Type // static type behind the key interface (pointer stripped once)
	val     types.Type
	keyV    ssa.Value
	valV    ssa.Value
	valPtr  bool
}

func isEbpfMapPtr(t types.Type) bool {
	p, ok := t.(*types.Pointer)
	if !ok {
		return false
	}
	n, ok := p.Elem().(*types.Named)
	return ok && n.Obj().Name() == "Map" && n.Obj().Pkg() != nil && strings.HasSuffix(n.Obj().Pkg().Path(), "cilium/ebpf")
}

// mapBindings: struct field -> eBPF map name, from stores of coll.Maps["name"].
func mapBindings(c *Ctx) map[*types.Var]string {
	out := map[*types.Var]string{}
	for _, f := range c.moduleFuncs() {
		flow.Instrs(f, func(in ssa.Instruction) {
			st, ok := in.(*ssa.Store)
			if !ok || !isEbpfMapPtr(st.Val.Type()) {
				return
			}
			fv := flow.FieldOf(st.Addr)
			if fv == nil {
				return
			}
			v := st.Val
			if ex, ok := v.(*ssa.Extract); ok {
				v = ex.Tuple
			}
			lk, ok := v.(*ssa.Lookup)
			if !ok {
				return
			}
			k, ok := lk.Index.(*ssa.Const)
			if !ok || k.Value == nil || k.Value.Kind() != constant.String {
				return
			}
			name := constant.StringVal(k.Value)
			if old, dup := out[fv]; dup && old != name {
				c.R.Fatalf("map field %s is bound to two map names (%s, %s)", fv.Name(), old, name)
			}
			out[fv] = name
		})
	}
	return out
}

func ifaceStatic(v ssa.Value) (types.Type, ssa.Value, bool) {
	if mi, ok := v.(*ssa.MakeInterface); ok {
		return mi.X.Type(), mi.X, true
	}
	return nil, nil, false
}

func mapUses(c *Ctx, bind map[*types.Var]string) []mapUse {
	var out []mapUse
	fieldOfRecv := func(v ssa.Value) *types.Var {
		if u, ok := v.(*ssa.UnOp); ok {
			return flow.FieldOf(u.X)
		}
		return nil
	}
	for _, f := range c.moduleFuncs() {
		for _, call := range flow.Calls(f) {
			callee := flow.StaticCallee(call)
			if callee == nil || callee.Signature.Recv() == nil {
				continue
			}
			rt := callee.Signature.Recv().Type()
			args := call.Common().Args
			if isEbpfMapPtr(rt) {
				name := callee.Name()
				var ki, vi int = -1, -1
				switch name {
				case "Put", "Update", "Lookup", "LookupAndDelete", "LookupWithFlags", "LookupAndDeleteWithFlags":
					ki, vi = 1, 2
				case "Delete", "LookupBytes", "NextKeyBytes":
					ki = 1
				case "NextKey":
					ki = 1
				default:
					continue
				}
				u := mapUse{call: call, fn: f, method: name, field: fieldOfRecv(args[0])}
				if u.field != nil {
					u.mapName = bind[u.field]
				}
				if ki >= 0 && ki < len(args) {
					if t, x, ok := ifaceStatic(args[ki]); ok {
						u.key, u.keyV = t, x
					}
				}
				if vi >= 0 && vi < len(args) {
					if t, x, ok := ifaceStatic(args[vi]); ok {
						u.val, u.valV = t, x
					}
				}
				out = append(out, u)
				continue
			}
			// iterator: m.Iterate().Next(&k, &v)
			if p, ok := rt.(*types.Pointer); ok {
				if n, ok := p.Elem().(*types.Named); ok && n.Obj().Name() == "MapIterator" && callee.Name() == "Next" {
					u := mapUse{call: call, fn: f, method: "Iterate.Next"}
					if itc, ok := args[0].(*ssa.Call); ok && len(itc.Call.Args) > 0 {
						u.field = fieldOfRecv(itc.Call.Args[0])
						if u.field != nil {
							u.mapName = bind[u.field]
						}
					}
					if t, x, ok := ifaceStatic(args[1]); ok {
						u.key, u.keyV = t, x
					}
					if t, x, ok := ifaceStatic(args[2]); ok {
						u.val, u.valV = t, x
					}
					out = append(out, u)
				}
			}
		}
	}
	sort.Slice(out, func(i, j int) bool { return out[i].call.Pos() < out[j].call.Pos() })
	return out
}

func deref(t types.Type) (types.Type, bool) {
	if p, ok := t.Underlying().(*types.Pointer); ok {
		return p.Elem(), true
	}
	return t, false
}

// ---------- the engine ----------

func c06(c *Ctx) {
	r := c.R
	r.Explain = "Both sides of every shared eBPF map are computed from source: the Go key/value type at each Put/Update/Lookup/Delete/NextKey/Iterate.Next call on a map field bound by coll.Maps[name] is laid out by encoding/binary's rules (what cilium/ebpf v0.12.3 writes and reads); the C key/value type of the map of that name is laid out by clang (constant-evaluated sizeof/offsetof probe).  Sizes, scalar boundaries byte by byte, offsets of equally named fields and the slice requirement of per-CPU maps are compared; so are all Go structs that mirror a C struct by name, and all shared numeric constants.  Key helpers are summarised by symbolic execution of their SSA into byte compositions (which input byte lands in which byte of the key, and whether that depends on the input length) and compared with the composition the kernel program builds from packet bytes; value fields the program copies raw into or compares raw with the frame must be written as wire images, fields it byte-swaps as host numbers.  Circuit-id padding beyond its length constant and big-endian hosts are not decided."
	r.Rule("C06.layout", "for every call on a map the control plane shares with a kernel program, the bytes encoding/binary produces for the Go key/value type have the size, scalar boundaries and (for equally named fields) offsets of the C declaration of that map's key/value; per-CPU maps are read into slices", 60)
	r.Rule("C06.bound", "every *ebpf.Map field used by the control plane is bound to a map the C sources declare (or is documented as having no kernel declaration)", 20)
	r.Rule("C06.events", "structs exchanged through perf/ring buffers and statistics structs mirror the C declaration", 2)
	r.Rule("C06.constants", "numeric constants shared by both sides (modes, flags, key lengths) have the same value in Go and C", 8)
	r.Rule("C06.keyDerivation", "derived keys are the same function of the identifying bytes on both sides: the byte composition of the Go helper equals the byte composition of the key the C program builds from the packet", 6)
	r.Rule("C06.byteOrder", "a value field the kernel program copies raw into / compares raw with packet bytes is written by the control plane as a wire-order image; a field the program byte-swaps or uses arithmetically is written as a host number", 4)
	r.LoadTriage("C06.txt")

	tus := c.bpfUnits()
	cmaps := map[string]*cfront.BPFMap{}
	mapTU := map[string]*cfront.TU{}
	for _, tu := range tus {
		for name, m := range tu.Layout.Maps {
			if old, ok := cmaps[name]; ok && (old.KeySize != m.KeySize || old.ValueSize != m.ValueSize) {
				r.Check("C06.bound", "bpf", "map "+name+" declared consistently", m.Decl.Pos(), false, "two units declare map "+name+" with different key/value sizes")
			}
			cmaps[name] = m
			mapTU[name] = tu
		}
	}
	r.Count("c_maps", len(cmaps))
	bind := mapBindings(c)
	r.Count("go_map_fields_bound", len(bind))
	var bnames []string
	for fv, n := range bind {
		bnames = append(bnames, fv.Name()+"="+n)
		_, ok := cmaps[n]
		r.Check("C06.bound", "go", "field "+fv.Name()+" -> map "+n, c.P.Pos(fv.Pos()), ok, "the control plane asks the collection for map \""+n+"\", which no bpf/*.c file declares: the field stays nil / Load fails")
	}
	sort.Strings(bnames)
	for _, b := range bnames {
		r.List("map_bindings", b)
	}

	atCall := map[string]bool{}
	var markType func(t types.Type)
	markType = func(t types.Type) {
		atCall[t.String()] = true
		switch u := t.Underlying().(type) {
		case *types.Struct:
			for i := 0; i < u.NumFields(); i++ {
				if _, ok := u.Field(i).Type().Underlying().(*types.Struct); ok {
					markType(u.Field(i).Type())
				}
			}
		case *types.Slice:
			markType(u.Elem())
		}
	}
	uses := mapUses(c, bind)
	r.Count("go_map_call_sites", len(uses))
	var k keyed
	for _, u := range uses {
		fn := load.ShortFunc(u.fn)
		pos := c.P.Pos(u.call.Pos())
		if u.field == nil {
			r.Check("C06.bound", fn, k.name(fn, u.method+" on a map that is not a struct field"), pos, false, "the receiver map cannot be tied to a map name")
			continue
		}
		if u.mapName == "" {
			// maps injected by the caller (pkg/walledgarden SetMaps): no kernel declaration exists in this repository
			r.List("no_kernel_declaration", fn+": "+u.method+" on "+u.field.Name())
			r.Count("call_sites_without_kernel_declaration", 1)
			continue
		}
		cm := cmaps[u.mapName]
		if cm == nil {
			continue // reported under C06.bound
		}
		tu := mapTU[u.mapName]
		site := fmt.Sprintf("%s(%s)", u.method, u.mapName)
		// key
		if u.key != nil {
			kt, _ := deref(u.key)
			markType(kt)
			g := goLayout(kt)
			var cl layout
			if cm.KeyType != "" {
				cl = cLayout(tu, cm.KeyType)
			} else {
				cl = layout{size: cm.KeySize, desc: fmt.Sprintf("%d-byte key", cm.KeySize)}
			}
			diffs := compareLayouts(g, cl)
			r.Check("C06.layout", fn, k.name(fn, site+" key "+g.desc+" vs "+cl.desc), pos, len(diffs) == 0, strings.Join(diffs, "; "))
		} else if u.method != "Iterate.Next" || true {
			r.Check("C06.layout", fn, k.name(fn, site+" key has a static type"), pos, false, "the key is passed as an interface value whose dynamic type is not visible at the call")
		}
		// value
		if u.method == "Delete" || u.method == "NextKey" || u.method == "LookupBytes" || u.method == "NextKeyBytes" {
			continue
		}
		if u.val == nil {
			r.Check("C06.layout", fn, k.name(fn, site+" value has a static type"), pos, false, "the value is passed as an interface value whose dynamic type is not visible at the call")
			continue
		}
		vt, wasPtr := deref(u.val)
		markType(vt)
		perCPU := strings.HasPrefix(cm.Type, "PERCPU") || strings.HasPrefix(cm.Type, "LRU_PERCPU")
		if perCPU {
			sl, isSlice := vt.Underlying().(*types.Slice)
			ok := isSlice && (wasPtr || u.method == "Put" || u.method == "Update")
			detail := fmt.Sprintf("map %s is BPF_MAP_TYPE_%s: cilium/ebpf requires a slice (one element per possible CPU); %s is handed %s, so the call returns an error every time", u.mapName, cm.Type, u.method, types.TypeString(u.val, nil))
			r.Check("C06.layout", fn, k.name(fn, site+" per-CPU value is a slice"), pos, ok, detail)
			if !isSlice {
				// still compare the element layout the author intended
				g := goLayout(vt)
				diffs := compareLayouts(g, cLayout(tu, cm.ValueType))
				r.Check("C06.layout", fn, k.name(fn, site+" per-CPU element "+g.desc+" vs "+cm.ValueType), pos, len(diffs) == 0, strings.Join(diffs, "; "))
				continue
			}
			vt = sl.Elem()
		}
		g := goLayout(vt)
		var cl layout
		if cm.ValueType != "" {
			cl = cLayout(tu, cm.ValueType)
		} else {
			cl = layout{size: cm.ValueSize, desc: fmt.Sprintf("%d-byte value", cm.ValueSize)}
		}
		diffs := compareLayouts(g, cl)
		r.Check("C06.layout", fn, k.name(fn, site+" value "+g.desc+" vs "+cl.desc), pos, len(diffs) == 0, strings.Join(diffs, "; "))
	}
	c06Events(c, tus, atCall)
	c06Constants(c, tus)
	c06Keys(c, tus, uses)
}
