package engines

import (
	"go/types"
	"sort"
	"strings"

	"bngvet/internal/flow"
	"bngvet/internal/load"

	"golang.org/x/tools/go/ssa"
)

// c04Detached (rule C04.G6): no slice of the frame receive buffer is stored into the long-lived per-session
// records.  The receive loop reuses one buffer for every frame; a session field that aliases it (the client
// MAC in particular) changes with every frame received, which makes the owner-MAC check compare the frame with
// itself.
func c04Detached(c *Ctx) {
	r := c.R
	r.Rule("C04.G6.detachedFromRxBuffer", "no slice of the reused frame receive buffer is stored in a field of the per-session records (Session and the state machines it owns): stored bytes are copies", 3)
	const pkg = "pkg/pppoe"
	sp := c.P.SSAPkg(pkg)
	if sp == nil {
		r.Fatal("C04: package pkg/pppoe not loaded")
		return
	}
	// long-lived record types: Session and, transitively, the struct types it points to (same package)
	long := map[*types.Named]bool{}
	var addT func(t types.Type)
	addT = func(t types.Type) {
		if p, ok := t.(*types.Pointer); ok {
			t = p.Elem()
		}
		n, ok := t.(*types.Named)
		if !ok || n.Obj().Pkg() == nil || n.Obj().Pkg() != sp.Pkg || long[n] {
			return
		}
		st, ok := n.Underlying().(*types.Struct)
		if !ok {
			return
		}
		long[n] = true
		for i := 0; i < st.NumFields(); i++ {
			addT(st.Field(i).Type())
		}
	}
	if tn, ok := sp.Pkg.Scope().Lookup("Session").(*types.TypeName); ok {
		addT(tn.Type())
	} else {
		r.Fatal("C04: type pppoe.Session not found")
		return
	}
	// taint: buffers handed to the socket's recv in a loop
	tainted := map[ssa.Value]bool{}
	var funcs []*ssa.Function
	for _, f := range c.moduleFuncs() {
		if f.Pkg == sp {
			funcs = append(funcs, f)
		}
	}
	nsrc := 0
	for _, f := range funcs {
		for _, call := range flow.Calls(f) {
			name := ""
			if g := call.Common().StaticCallee(); g != nil {
				name = g.Name()
			} else if call.Common().IsInvoke() {
				name = call.Common().Method.Name()
			}
			if name != "recv" && name != "ReadFrom" && name != "Read" && name != "Recvfrom" {
				continue
			}
			for _, a := range call.Common().Args {
				if _, ok := a.Type().Underlying().(*types.Slice); ok {
					tainted[a] = true
					nsrc++
				}
			}
		}
	}
	isSlice := func(v ssa.Value) bool {
		_, ok := v.Type().Underlying().(*types.Slice)
		return ok
	}
	cg := c.P.CallGraph()
	for changed := true; changed; {
		changed = false
		mark := func(v ssa.Value) {
			if !tainted[v] {
				tainted[v] = true
				changed = true
			}
		}
		for _, f := range funcs {
			flow.Instrs(f, func(in ssa.Instruction) {
				switch x := in.(type) {
				case *ssa.Slice:
					if tainted[x.X] {
						mark(x)
					}
				case *ssa.ChangeType:
					if tainted[x.X] && isSlice(x) {
						mark(x)
					}
				case *ssa.Convert:
					if tainted[x.X] && isSlice(x) {
						mark(x)
					}
				case *ssa.Phi:
					for _, e := range x.Edges {
						if tainted[e] {
							mark(x)
						}
					}
				}
			})
			// parameters
			if node := cg.Nodes[f]; node != nil {
				for i, p := range f.Params {
					if tainted[p] || !isSlice(p) {
						continue
					}
					for _, e := range node.In {
						if e.Site == nil || e.Caller.Func.Pkg != sp {
							continue
						}
						args := e.Site.Common().Args
						// invoke-mode calls carry the receiver separately
						off := 0
						if e.Site.Common().IsInvoke() {
							off = 1
						}
						if i-off >= 0 && i-off < len(args) && tainted[args[i-off]] {
							mark(p)
						}
					}
				}
			}
		}
	}
	// sinks
	n := 0
	var k keyed
	for _, f := range funcs {
		flow.Instrs(f, func(in ssa.Instruction) {
			st, ok := in.(*ssa.Store)
			if !ok || !isSlice(st.Val) {
				return
			}
			fa, ok := st.Addr.(*ssa.FieldAddr)
			if !ok {
				return
			}
			pt, ok := fa.X.Type().Underlying().(*types.Pointer)
			if !ok {
				return
			}
			nt, ok := pt.Elem().(*types.Named)
			if !ok || !long[nt] {
				return
			}
			n++
			fn := load.ShortFunc(f)
			r.Check("C04.G6.detachedFromRxBuffer", fn, k.name(fn, "store to "+flow.FieldOwner(fa)), c.P.Pos(st.Pos()), !tainted[st.Val],
				"the stored slice is (a slice of) the frame receive buffer, which the receive loop overwrites with the next frame: "+flow.FieldOwner(fa)+" silently changes to the bytes of whatever frame arrived last — for Session.ClientMAC this makes the owner check compare a frame with itself, so any station can drive or tear down any session")
		})
	}
	r.Count("rx_buffer_sources", nsrc)
	var names []string
	for t := range long {
		names = append(names, t.Obj().Name())
	}
	sort.Strings(names)
	r.List("per_session_record_types", strings.Join(names, ","))
	if nsrc == 0 {
		r.Check("C04.G6.detachedFromRxBuffer", "pkg/pppoe", "receive buffer found", "-", false, "no recv/ReadFrom call with a byte-slice argument found in pkg/pppoe")
	}
}
