package engines

func init() { Registry["C01"] = C01 }

// the pool implementations C01/C05 name, with their mutex and the state it guards
var poolGuards = []guardSpec{
	{"pkg/allocator", "IPAllocator", "mu", []string{"bitmap", "allocatedCount", "nextFree", "allocated", "indexToSubscriber"}, restoreExempt},
	{"pkg/allocator", "EpochBitmapAllocator", "mu", []string{"generations", "subscribers", "ipToSubscriber", "currentEpoch", "nextFreeHint"}, restoreExempt},
	{"pkg/allocator", "MemoryAllocationStore", "mu", []string{"byPool", "bySubscriber", "byIP", "poolTotals"}, restoreExempt},
	{"pkg/dhcp", "Pool", "mu", []string{"allocated", "available", "unavailable"}, nil},
	{"pkg/dhcpv6", "AddressPool", "mu", []string{"allocated", "available"}, nil},
	{"pkg/dhcpv6", "PrefixPool", "mu", []string{"allocated", "available"}, nil},
	{"pkg/pppoe", "IPPool", "mu", []string{"allocated", "available"}, nil},
	{"pkg/pool", "LocalPool", "mu", []string{"allocations", "ipToSub", "available"}, nil},
}

// UnmarshalJSON restores into an object that is not yet shared with other goroutines (json.Unmarshal target)
var restoreExempt = map[string]string{"UnmarshalJSON": "restores a serialised object that is not yet shared"}

var poolPairs = []pairSpec{
	{"pkg/allocator", "IPAllocator", "allocated", "indexToSubscriber", restoreExempt},
	{"pkg/allocator", "EpochBitmapAllocator", "subscribers", "ipToSubscriber", restoreExempt},
	{"pkg/pool", "LocalPool", "allocations", "ipToSub", nil},
}

var poolInserts = []insertSpec{
	{"pkg/allocator", "IPAllocator", "allocated", "mu", map[string]string{"SetAllocation": "replays an announced/stored record: conflict handling is its own rule (C12)", "UnmarshalJSON": "restores a serialised allocator"}},
	{"pkg/allocator", "EpochBitmapAllocator", "subscribers", "mu", map[string]string{"UnmarshalJSON": "restores a serialised allocator"}},
	{"pkg/dhcp", "Pool", "allocated", "mu", nil},
	{"pkg/dhcpv6", "AddressPool", "allocated", "mu", nil},
	{"pkg/dhcpv6", "PrefixPool", "allocated", "mu", nil},
	{"pkg/pppoe", "IPPool", "allocated", "mu", nil},
	{"pkg/pool", "LocalPool", "allocations", "mu", nil},
}

func C01(c *Ctx) {
	r := c.R
	defer c01IndexArithmetic(c)
	r.Explain = "Structural necessary conditions of address uniqueness for every pool implementation: lockset (every access to pool state holds the pool's mutex, helpers via their callers), check-then-act atomicity (each owner-map insert is dominated by a lookup miss made under the same lock hold), paired forward/reverse maps, and a take-from-free witness for each bind.  Uniqueness over histories when a witness itself is wrong (2-bit epoch wrap), index/address arithmetic and hash collisions are not decided."
	r.Rule("C01.lockset", "every read/write of a pool's allocation state happens with that pool's mutex held (write lock for writes); helper functions are covered by every one of their callers", 60)
	r.Rule("C01.atomicInsert", "each insert into a pool's owner map is dominated by a lookup miss on that map under one uninterrupted lock hold (same subscriber asking again gets the same value, also under concurrent callers)", 8)
	r.Rule("C01.paired", "forward (subscriber->value) and reverse (value->subscriber) maps are inserted into and deleted from together on every path", 12)
	r.Rule("C01.witness", "a value is bound to a subscriber only after a take-from-free witness: the bit/generation test on the chosen index, or removal of the value from the free list", 8)
	locksetRule(c, "C01.lockset", poolGuards)
	atomicInsertRule(c, "C01.atomicInsert", poolInserts)
	pairRule(c, "C01.paired", poolPairs)
	c01Witness(c)
	// the epoch allocator's owner map must not outlive a slot's freeness (else a second subscriber takes the slot)
	sweepAfterAdvance(c, "C01.epochSweep")
}
