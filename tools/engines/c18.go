package engines

import (
	"fmt"
	"regexp"
	"sort"
	"strings"

	"bngvet/internal/cexec"
	"bngvet/internal/cfront"
	"bngvet/internal/flow"
	"bngvet/internal/load"

	"golang.org/x/tools/go/ssa"
)

func init() { Registry["C18"] = c18 }

// a packet byte XORed with something: "pkt:<field>[+off] ^ "
var c18XorSrc = regexp.MustCompile(`(pkt:[^|^]+?) \^ `)

var c18Opaque = []string{"update_stats", "log_violation"}

type c18Path struct {
	verdict    int64
	verdictOK  bool
	proto      string // ipv4 ipv6 other short
	incomplete string // "", "eth", "ipv4", "ipv6": a header bounds test failed on this path
	lenProved  bool   // the state proves the header really is incomplete
	binding    string // present absent
	cfg        string
	valid      string // yes no n/a (ipv4_valid / ipv6_valid tested)
	eq         string // yes no untested
	inrange    string // yes no untested
	modeAtoms  []cexec.Atom
	protoAtoms []cexec.Atom
	modeConst  bool // mode decided to be 0 without a test (no config and no binding)
	ret        cexec.Ret
}

func c18Classify(rt cexec.Ret) c18Path {
	p := c18Path{proto: "other", binding: "absent", cfg: "absent", valid: "n/a", eq: "untested", inrange: "untested", ret: rt}
	p.verdict, p.verdictOK = rt.Val.IsConst()
	mismatch, v6cmp := false, 0
	protoKnown := false
	for _, a := range rt.St.Atoms {
		switch {
		case strings.HasPrefix(a.L, "pkt+") && a.R == "data_end" && a.Op == ">":
			off := strings.TrimPrefix(a.L, "pkt+")
			which := map[string]string{"14": "eth", "34": "ipv4", "54": "ipv6"}[off]
			if which == "" {
				which = "hdr@" + off
			}
			if a.Holds {
				p.incomplete = which
				lim := map[string]int64{"eth": 13, "ipv4": 33, "ipv6": 53}[which]
				p.lenProved = rt.St.ProvesLenAtMost(lim)
			}
		case a.L == "nonnull:mapval:subscriber_bindings" && a.Op == "nz":
			if a.Holds {
				p.binding = "present"
			}
		case a.L == "nonnull:mapval:antispoof_config" && a.Op == "nz":
			if a.Holds {
				p.cfg = "present"
			}
		case strings.HasSuffix(a.L, ".mode") || strings.HasSuffix(a.L, ".default_mode"):
			p.modeAtoms = append(p.modeAtoms, a)
		case a.L == "pkt:ethhdr.h_proto" && (a.Op == "==" || a.Op == "!=") && a.RC != nil:
			p.protoAtoms = append(p.protoAtoms, a)
			if a.Holds && a.Op == "==" {
				protoKnown = true
				switch *a.RC {
				case 0x0008:
					p.proto = "ipv4"
				case 0xDD86:
					p.proto = "ipv6"
				default:
					p.proto = fmt.Sprintf("ethertype#%d", *a.RC)
				}
			}
		case strings.HasSuffix(a.L, ".ipv4_valid") || strings.HasSuffix(a.L, ".ipv6_valid"):
			if a.Holds == (a.Op == "nz" || a.Op == "!=") {
				p.valid = "yes"
			} else {
				p.valid = "no"
			}
		case (a.Op == "==" || a.Op == "!=") && a.L == "pkt:iphdr.saddr" && strings.HasSuffix(a.R, ".ipv4_addr"):
			if a.Holds == (a.Op == "==") {
				p.eq = "yes"
			} else {
				p.eq = "no"
			}
		case (a.Op == "==" || a.Op == "!=") && a.RC != nil && *a.RC == 0 && strings.Contains(a.L, " ^ ") && strings.Contains(a.L, ".ipv6_addr") && c18OnlyOr(a.L):
			// branch-free comparison: the OR of the byte-wise XORs of source and bound address is tested against zero
			terms := strings.Count(a.L, " ^ ")
			withBound := strings.Count(a.L, ".ipv6_addr")
			srcs := map[string]bool{}
			for _, m := range c18XorSrc.FindAllStringSubmatch(a.L, -1) {
				srcs[m[1]] = true
			}
			n := terms
			if withBound < n {
				n = withBound
			}
			if len(srcs) < n {
				n = len(srcs)
			}
			v6cmp += n
			if a.Holds == (a.Op == "!=") {
				mismatch = true
			}
		case (a.Op == "!=" || a.Op == "==") && strings.HasSuffix(a.R, ".ipv6_addr"):
			v6cmp++
			if a.Holds == (a.Op == "!=") {
				mismatch = true
			}
		case strings.HasPrefix(a.L, "nonnull:mapval:allowed_ranges"):
			in := a.Holds
			if a.Op == "==" {
				in = !in
			}
			if in {
				p.inrange = "yes"
			} else {
				p.inrange = "no"
			}
		}
	}
	_ = protoKnown
	if v6cmp > 0 {
		switch {
		case mismatch:
			p.eq = "no"
		case v6cmp == 16:
			p.eq = "yes"
		default:
			p.eq = fmt.Sprintf("partial(%d bytes)", v6cmp)
		}
	}
	if p.binding == "absent" && p.cfg == "absent" {
		p.modeConst = true
	}
	return p
}

// protoCompatible: can this path be taken by a frame whose ethertype field (as loaded, network order) is code?
// code < 0 stands for "any value other than IPv4/IPv6".
func (p c18Path) protoCompatible(code int64) bool {
	for _, a := range p.protoAtoms {
		eq := a.Holds
		if a.Op == "!=" {
			eq = !eq
		}
		is := code >= 0 && *a.RC == code
		if eq != is {
			// an equality with some third ethertype is compatible with "other"
			if code < 0 && eq && *a.RC != 0x0008 && *a.RC != 0xDD86 {
				continue
			}
			return false
		}
	}
	return true
}

// compatible: can this path be taken when the effective mode is m?
func (p c18Path) compatible(m int64) bool {
	if p.modeConst {
		return m == 0
	}
	src := ".default_mode"
	if p.binding == "present" {
		src = ".mode"
	}
	for _, a := range p.modeAtoms {
		if !strings.HasSuffix(a.L, src) || a.RC == nil || (a.Op != "==" && a.Op != "!=") {
			continue
		}
		eq := a.Holds
		if a.Op == "!=" {
			eq = !eq
		}
		if eq != (m == *a.RC) {
			return false
		}
	}
	return true
}

func c18(c *Ctx) {
	r := c.R
	r.Explain = "Every feasible path of antispoof_ingress is enumerated by path-sensitive abstract interpretation of clang's AST; the branch conditions a path went through are kept as atoms over the effective mode, binding presence, validity flags, the source==bound comparison (per byte for IPv6), the allowed-range lookup, the ethertype and the header-length tests, together with the path's packet-length facts.  For every (mode, ethertype) pair compatible with a path the verdict is compared with the table the property states; a frame may be forwarded unvalidated only if the path's facts imply that its IP header is incomplete.  On the Go side the four control-plane entry points must make their map call on every successful return unless the map is nil, store the validity flag with the address and take the mode from the manager.  LPM-trie semantics and concurrent map updates are not decided; layouts, constants and byte order are C06's."
	r.Rule("C18.table", "the decision table extracted from antispoof_ingress (every path, branch conditions as atoms over mode, binding, validity flags, source==bound, in-range, ethertype, header completeness) equals the table the property states: strict => forward iff source == bound address; log-only => forward; loose => forward iff in an allowed range; disabled / non-IP => forward; a frame is passed unvalidated only if its IP header really is incomplete", 20)
	r.Rule("C18.control", "AddBinding/AddBindingV6/RemoveBinding/SetMode reach their map update whenever the map is loaded, guarded by nothing but argument validation; a binding's validity flag is set together with its address and its mode comes from the manager's mode", 6)
	r.Rule("C18.model", "antispoof_ingress is analysed completely", 1)
	var tu *cfront.TU
	for _, t := range c.bpfUnits() {
		if t.Rel == "bpf/antispoof.c" {
			tu = t
		}
	}
	if tu == nil || tu.Funcs["antispoof_ingress"] == nil {
		r.Fatalf("anchor unresolved: bpf/antispoof.c antispoof_ingress")
		return
	}
	x := cexec.New(tu, cexec.Paths)
	for _, o := range c18Opaque {
		x.Opaque[o] = true
	}
	x.Run(tu.Funcs["antispoof_ingress"])
	r.Check("C18.model", "antispoof_ingress", "analysed completely", tu.Funcs["antispoof_ingress"].Pos(), len(x.Problems) == 0, strings.Join(x.Problems, "; "))
	r.Count("decision_paths", len(x.Returns))

	modes := []struct {
		v    int64
		name string
	}{{0, "disabled"}, {1, "strict"}, {2, "loose"}, {3, "log-only"}}
	type row struct {
		ok   bool
		why  string
		pos  string
		n    int
		cond string
	}
	rows := map[string]*row{}
	var order []string
	add := func(key string, ok bool, why string, p c18Path) {
		rw := rows[key]
		if rw == nil {
			rw = &row{ok: true, pos: p.ret.Node.Pos()}
			rows[key] = rw
			order = append(order, key)
		}
		rw.n++
		if !ok && rw.ok {
			rw.ok, rw.why, rw.pos = false, why, p.ret.Node.Pos()
			var as []string
			for _, a := range p.ret.St.Atoms {
				as = append(as, a.String())
			}
			rw.cond = strings.Join(as, " ∧ ")
		}
	}
	verdictName := func(v int64) string {
		switch v {
		case 0:
			return "forward"
		case 2:
			return "drop"
		}
		return fmt.Sprintf("verdict#%d", v)
	}
	for _, rt := range x.Returns {
		p := c18Classify(rt)
		if !p.verdictOK || (p.verdict != 0 && p.verdict != 2) {
			add("verdict is TC_ACT_OK or TC_ACT_SHOT", false, "undefined verdict "+rt.Val.String(), p)
			continue
		}
		fwd := p.verdict == 0
		if p.incomplete == "eth" {
			add("frame shorter than an Ethernet header is forwarded", fwd && p.lenProved, "a truncated frame is dropped or the length test does not imply truncation", p)
			continue
		}
		for _, pr := range []struct {
			code int64
			name string
		}{{0x0008, "ipv4"}, {0xDD86, "ipv6"}, {-1, "other"}} {
			if !p.protoCompatible(pr.code) {
				continue
			}
			p.proto = pr.name
			for _, m := range modes {
				if !p.compatible(m.v) {
					continue
				}
				base := fmt.Sprintf("mode=%s proto=%s", m.name, p.proto)
				if m.v == 0 {
					add(base+": forward", fwd, "disabled mode drops traffic", p)
					continue
				}
				if p.proto != "ipv4" && p.proto != "ipv6" {
					add(base+": forward", fwd, "non-IP traffic is dropped", p)
					continue
				}
				if m.v == 3 {
					add(base+": forward (log only)", fwd, "log-only mode drops the frame", p)
					continue
				}
				if p.incomplete != "" {
					// passed without validation: only legitimate when the header really is incomplete
					lim := map[string]int64{"ipv4": 33, "ipv6": 53}[p.proto]
					add(fmt.Sprintf("%s header incomplete: forwarded only if the frame really is too short for the %s header", base, p.proto), fwd && rt.St.ProvesLenAtMost(lim),
						fmt.Sprintf("the frame is forwarded unvalidated on a length test that frames with a complete %s header also satisfy: short but complete packets bypass source validation", p.proto), p)
					continue
				}
				switch m.v {
				case 3:
					add(base+": forward (log only)", fwd, "log-only mode drops the frame", p)
				case 1:
					feat := fmt.Sprintf("%s binding=%s valid=%s src==bound:%s", base, p.binding, p.valid, p.eq)
					bound := p.binding == "present" && p.valid == "yes"
					switch {
					case !bound:
						add(feat+" => drop", !fwd, "strict mode forwards a frame of a MAC that has no valid binding", p)
					case p.eq == "yes":
						add(feat+" => forward", fwd, "strict mode drops a frame whose source equals the bound address", p)
					case p.eq == "no":
						add(feat+" => drop", !fwd, "strict mode forwards a frame whose source differs from the bound address", p)
					default:
						add(feat+" => decided by the comparison", false, "the verdict is reached without (completely) comparing the source with the bound address", p)
					}
				case 2:
					if p.proto == "ipv6" {
						add(base+": decided by an allowed-range test", false, fmt.Sprintf("loose mode for IPv6 never consults an allowed range (binding=%s valid=%s => %s): there is no IPv6 range table", p.binding, p.valid, verdictName(p.verdict)), p)
						continue
					}
					feat := fmt.Sprintf("%s binding=%s valid=%s in-range:%s", base, p.binding, p.valid, p.inrange)
					switch p.inrange {
					case "yes":
						add(feat+" => forward", fwd, "loose mode drops a source inside an allowed range", p)
					case "no":
						add(feat+" => drop", !fwd, "loose mode forwards a source outside every allowed range", p)
					default:
						add(feat+" => decided by the range test", false, "loose mode reaches "+verdictName(p.verdict)+" without consulting the allowed ranges", p)
					}
				}
			}
		}
	}
	sort.Strings(order)
	for _, k := range order {
		rw := rows[k]
		why := rw.why
		if rw.cond != "" {
			why += " — path: " + rw.cond
		}
		r.Check("C18.table", "antispoof_ingress", k, rw.pos, rw.ok, why)
	}
	r.Count("decision_rows", len(order))
	c18Control(c)
	r.Note("Key derivation (MAC -> u64), layout of subscriber_binding/antispoof_config, the Mode*/ANTISPOOF_* constants and the byte order of ipv4_addr and the range key are decided by C06; LPM-trie semantics of the range lookup are the kernel's.")
}

// c18Control: the control-plane functions reach their map call under nothing but `map != nil` and argument validation.
func c18Control(c *Ctx) {
	r := c.R
	type spec struct {
		fn, mapField, method string
	}
	for _, sp := range []spec{
		{"AddBinding", "bindings", "Put"}, {"AddBindingV6", "bindings", "Put"}, {"RemoveBinding", "bindings", "Delete"}, {"SetMode", "config", "Put"},
	} {
		f := c.fn("pkg/antispoof", "Manager", sp.fn)
		if f == nil {
			continue
		}
		found := false
		for _, call := range flow.Calls(f) {
			if !flow.CalleeIs(call, "cilium/ebpf", "Map", sp.method) {
				continue
			}
			rv, ok := call.Common().Args[0].(*ssa.UnOp)
			if !ok || !strings.HasSuffix(flow.FieldOwner(rv.X), "Manager."+sp.mapField) {
				continue
			}
			found = true
			var extra []string
			for _, ft := range flow.FactsAt(call.Block()) {
				if isErrTest(ft) {
					continue // error handling of an earlier step
				}
				d := factText(ft)
				if strings.Contains(d, "Manager."+sp.mapField) || strings.Contains(d, "len(mac)") || strings.Contains(d, "len(") {
					continue
				}
				extra = append(extra, d)
			}
			r.Check("C18.control", load.ShortFunc(f), sp.method+" on "+sp.mapField+" guarded only by map!=nil / argument validation", c.P.Pos(call.Pos()), len(extra) == 0,
				"the kernel map is updated only when "+strings.Join(extra, " and ")+": a binding the control plane was told to change stays (or never appears) in the kernel")
		}
		r.Check("C18.control", load.ShortFunc(f), "updates the kernel map "+sp.mapField, c.P.Pos(f.Pos()), found, "no "+sp.method+" on m."+sp.mapField+" in this function")
		okS, badPos := successNeedsMapCall(c, f, sp.mapField, sp.method)
		r.Check("C18.control", load.ShortFunc(f), "every successful return has done "+sp.method+" on "+sp.mapField, badPos, okS,
			sp.fn+" can return nil without the "+sp.method+" although the map is loaded: the control plane believes the binding changed, the kernel still enforces the old state")
	}
	// AddBinding writes what it was given: the value it Puts is not pre-filled from the entry already in the map
	if f := c.fn("pkg/antispoof", "Manager", "AddBinding"); f != nil {
		var putVal ssa.Value
		for _, call := range flow.Calls(f) {
			if flow.CalleeIs(call, "cilium/ebpf", "Map", "Put") {
				if mi, ok := call.Common().Args[2].(*ssa.MakeInterface); ok {
					putVal = mi.X
				}
			}
		}
		prefilled := false
		for _, call := range flow.Calls(f) {
			if flow.CalleeIs(call, "cilium/ebpf", "Map", "Lookup") || flow.CalleeIs(call, "cilium/ebpf", "Map", "LookupAndDelete") {
				if mi, ok := call.Common().Args[2].(*ssa.MakeInterface); ok && putVal != nil && mi.X == putVal {
					prefilled = true
				}
			}
		}
		r.Check("C18.control", load.ShortFunc(f), "the binding written is built from the arguments, not from the previous entry", c.P.Pos(f.Pos()), putVal != nil && !prefilled,
			"AddBinding fills the value it writes from the entry already in the kernel map and only overwrites parts of it: a call that withdraws the IPv4 address (nil) leaves ipv4_valid=1 with the old address, so strict mode keeps forwarding frames from an address the control plane has taken away")
	}
	// validity flag stored with the address, mode from m.mode
	for _, sp := range []struct{ fn, addr, flag string }{{"AddBinding", "IPv4Addr", "IPv4Valid"}, {"AddBindingV6", "IPv6Addr", "IPv6Valid"}} {
		f := c.fn("pkg/antispoof", "Manager", sp.fn)
		if f == nil {
			continue
		}
		var flagStore, modeStore *ssa.Store
		var addrSite ssa.Instruction
		flow.Instrs(f, func(in ssa.Instruction) {
			if st, ok := in.(*ssa.Store); ok {
				fo := flow.FieldOwner(st.Addr)
				switch {
				case strings.HasSuffix(fo, "SubscriberBinding."+sp.flag):
					flagStore = st
				case strings.HasSuffix(fo, "SubscriberBinding.Mode"):
					modeStore = st
				case strings.HasSuffix(fo, "SubscriberBinding."+sp.addr):
					addrSite = st
				}
			}
			if call, ok := in.(*ssa.Call); ok {
				if b, ok := call.Call.Value.(*ssa.Builtin); ok && b.Name() == "copy" {
					addrSite = call
				}
			}
		})
		okFlag := flagStore != nil && addrSite != nil && flagStore.Block() == addrSite.Block()
		if okFlag {
			k, isC := flagStore.Val.(*ssa.Const)
			okFlag = isC && k.Int64() == 1
		}
		r.Check("C18.control", load.ShortFunc(f), sp.flag+"=1 stored together with "+sp.addr, c.P.Pos(f.Pos()), okFlag, "the validity flag the program tests is not set (to 1) on the path that stores the address")
		okMode := false
		if modeStore != nil {
			v := modeStore.Val
			for {
				if cv, ok := v.(*ssa.Convert); ok {
					v = cv.X
				} else if ct, ok := v.(*ssa.ChangeType); ok {
					v = ct.X
				} else {
					break
				}
			}
			if u, ok := v.(*ssa.UnOp); ok && strings.HasSuffix(flow.FieldOwner(u.X), "Manager.mode") {
				okMode = true
			}
		}
		r.Check("C18.control", load.ShortFunc(f), "binding mode is the manager's mode", c.P.Pos(f.Pos()), okMode, "the mode written into the binding is not m.mode")
	}
}

func factText(ft flow.Fact) string {
	pol := ""
	if !ft.Pol {
		pol = "!"
	}
	if n, _, ok := guardName(ft.Cond); ok {
		return pol + n
	}
	if b, ok := ft.Cond.(*ssa.BinOp); ok {
		if call, ok := b.X.(*ssa.Call); ok {
			if bi, ok := call.Call.Value.(*ssa.Builtin); ok && bi.Name() == "len" {
				return pol + "len(" + call.Call.Args[0].Name() + ")" + b.Op.String() + b.Y.String()
			}
		}
		return pol + "(" + b.X.Name() + " " + b.Op.String() + " " + b.Y.Name() + ")"
	}
	return pol + ft.Cond.String()
}

// c18OnlyOr: the byte differences are combined with | only (a sum can wrap to zero, an & can mask a difference).
func c18OnlyOr(expr string) bool {
	for _, op := range []string{" + ", " - ", " & ", " * ", " << ", " >> ", " % ", " / "} {
		if strings.Contains(expr, op) {
			return false
		}
	}
	return true
}
