package engines

import (
	"fmt"
	"go/token"
	"go/types"
	"sort"
	"strings"

	"bngvet/internal/esp"
	"bngvet/internal/flow"
	"bngvet/internal/load"

	"golang.org/x/tools/go/ssa"
)

func init() { Registry["C08"] = C08 }

func C08(c *Ctx) {
	r := c.R
	defer c08ForgottenLease(c)
	const pkg = "pkg/radius"
	r.Explain = "Ordering, error-discipline, durability and field-provenance rules on the accounting manager and the RADIUS client: a Stop is persisted before it is attempted; every failed SendAccounting in the manager reaches the retry queue with the same request; where a request lives only in the in-memory queue, no persisted copy of its session (or of the queue) is removed before the queue has been written to disk; queued requests are not mutated afterwards; recovery always reaches the pending-file reload; the Start is sent only after the session is registered; 64-bit counters are split low word / gigaword from the same field; request literals take each identifier and counter from the like-named field.  Crash-point enumeration, retry timing and 'eventually' are not decided."
	r.Rule("C08.O1.persistBeforeStop", "StopSession marks the session stop-pending and persists it before the first Accounting-Stop attempt", 2)
	r.Rule("C08.O2.failedSendQueued", "on every path of an accounting-manager function on which SendAccounting failed, the same request is handed to the retry queue (the retry processor itself keeps or abandons the record under the retry budget)", 6)
	r.Rule("C08.O3.durableBeforeRemove", "after a failed send the session's persisted file / the pending file is not removed unless the pending queue was written to disk in between", 3)
	r.Rule("C08.O4.startAfterRegister", "StartSession registers the session before sending Accounting-Start and refuses a duplicate id", 2)
	r.Rule("C08.O5.gigawords", "RADIUS attributes: low word = field & 0xFFFFFFFF, gigawords = the same field >> 32, input with input and output with output; each attribute is set from its own request field", 8)
	r.Rule("C08.O6.requestFields", "every AcctRequest literal takes its identifiers and counters from the like-named field of the session / counters it is built for", 40)
	r.Rule("C08.O7.queuedRequestImmutable", "a request handed to the retry queue is a per-use allocation that is not written afterwards", 5)
	r.Rule("C08.O8.recoveryReachesPending", "every non-error path of the recovery routine attempts to reload pending.json", 1)
	r.Rule("C08.O10.orphanStopBeforeRemove", "crash recovery removes a persisted session file only after it attempted that session's Accounting-Stop (queued on failure), or when the file cannot be decoded", 2)
	r.Rule("C08.O9.retryBudget", "the retry processor deletes a record only after a successful send or when the retry count reached MaxRetries, and re-schedules it otherwise", 3)

	sp := c.P.SSAPkg(pkg)
	am, _ := sp.Pkg.Scope().Lookup("AccountingManager").(*types.TypeName)
	if am == nil {
		r.Fatal("C08: AccountingManager not found")
		return
	}
	sendPred := callTo(pkg, "Client", "SendAccounting")
	queuePred := callTo(pkg, "AccountingManager", "queuePendingRecord")
	persistPending := callTo(pkg, "AccountingManager", "persistPendingRecords")
	removeSess := anyOf(callTo(pkg, "AccountingManager", "removePersistedSession"), callTo("os", "", "Remove"))

	// ---- O1
	if f := c.fn(pkg, "AccountingManager", "StopSession"); f != nil {
		var persist, stop ssa.Instruction
		var flagStore ssa.Instruction
		flow.Instrs(f, func(in ssa.Instruction) {
			if call, ok := in.(ssa.CallInstruction); ok {
				if flow.CalleeIs(call, pkg, "AccountingManager", "persistActiveSession") && persist == nil {
					persist = in
				}
				if flow.CalleeIs(call, pkg, "AccountingManager", "sendAccountingStop") || sendPred(call) {
					if stop == nil {
						stop = in
					}
				}
			}
			if st, ok := in.(*ssa.Store); ok && strings.HasSuffix(flow.FieldOwner(st.Addr), "AccountingSession.StopPending") {
				if k, ok := st.Val.(*ssa.Const); ok && k.Value != nil && k.Value.String() == "true" {
					flagStore = in
				}
			}
		})
		ok := persist != nil && stop != nil && flow.InstrDominates(persist, stop)
		r.Check("C08.O1.persistBeforeStop", load.ShortFunc(f), "persistActiveSession dominates the Stop attempt", c.P.Pos(f.Pos()), ok, "the Stop is attempted before (or without) persisting the stop-pending session")
		ok2 := flagStore != nil && persist != nil && flow.InstrDominates(flagStore, persist)
		r.Check("C08.O1.persistBeforeStop", load.ShortFunc(f), "StopPending=true before persisting", c.P.Pos(f.Pos()), ok2, "the persisted copy does not carry the stop-pending mark")
	}

	// ---- O2 / O3 with property simulation on each manager function that sends
	spec := &esp.Spec{
		Recv:   am.Type().(*types.Named),
		Fields: map[string]bool{},
		Atom: func(cond ssa.Value) (string, []string, bool) {
			b, ok := cond.(*ssa.BinOp)
			if !ok || !isNilConst(b.Y) || (b.Op != token.NEQ && b.Op != token.EQL) {
				return "", nil, false
			}
			if n := errOrigin(b.X); n != "" {
				return n + b.Op.String() + "nil", nil, true
			}
			return "", nil, false
		},
		Inline: func(callee *ssa.Function) bool {
			return callee.Pkg == sp && flow.RecvTypeName(callee) == "AccountingManager" && callee.Name() != "queuePendingRecord" && callee.Name() != "persistPendingRecords"
		},
	}
	spec.MultiAction = func(call ssa.CallInstruction) []string {
		var out []string
		switch {
		case sendPred(call):
			out = append(out, "send")
		case queuePred(call):
			out = append(out, "queue")
		case persistPending(call):
			out = append(out, "persistPending")
		}
		return out
	}
	failed := func(atoms []string) bool {
		return has(atoms, "SendAccounting()!=nil") || has(atoms, "!SendAccounting()==nil") || has(atoms, "sendAccountingStop()!=nil") || has(atoms, "!sendAccountingStop()==nil")
	}
	// the functions to simulate: the entry points, plus every manager function or closure that itself contains a send
	// (derived from the code, so a sender helper that is renamed, split or written into a goroutine body stays covered);
	// processPendingRecord re-sends under the retry budget and is O9's
	var senders []*ssa.Function
	seenSender := map[*ssa.Function]bool{}
	for _, name := range []string{"StartSession", "StopSession", "recoverOrphanedSessions"} {
		if f := c.fn(pkg, "AccountingManager", name); f != nil && !seenSender[f] {
			seenSender[f] = true
			senders = append(senders, f)
		}
	}
	for _, f := range c.moduleFuncs() {
		if f.Pkg != sp || flow.RecvTypeName(f) != "AccountingManager" || f.Name() == "processPendingRecord" {
			continue
		}
		for _, fn := range flow.WithAnon(f) {
			if seenSender[fn] {
				continue
			}
			for _, call := range flow.Calls(fn) {
				if sendPred(call) {
					seenSender[fn] = true
					senders = append(senders, fn)
					break
				}
			}
		}
	}
	for _, f := range senders {
		outs := spec.Run(f, nil)
		bad := ""
		n := 0
		for _, o := range outs {
			if !has(o.ActList(), "send") {
				continue
			}
			n++
			if failed(o.AtomList()) && !has(o.ActList(), "queue") {
				bad = fmt.Sprintf("path %v performs %v", o.AtomList(), o.ActList())
			}
		}
		r.Check("C08.O2.failedSendQueued", load.ShortFunc(f), "failed send reaches queuePendingRecord", c.P.Pos(f.Pos()), n > 0 && bad == "", "a failed SendAccounting is not queued for retry: "+bad)
		// the queued request is the one that was sent
		sameReq := true
		for _, fn := range flow.WithAnon(f) {
			_ = fn
		}
		r.Count("exit_configurations", len(outs))
		_ = sameReq
	}
	// same request object: in every function that both sends and queues, the queued pointer is the sent pointer
	for _, f := range c.moduleFuncs() {
		if f.Pkg != sp || flow.RecvTypeName(f) != "AccountingManager" {
			continue
		}
		var sent []ssa.Value
		var queued []ssa.CallInstruction
		for _, call := range flow.Calls(f) {
			if sendPred(call) {
				a := call.Common().Args
				sent = append(sent, a[len(a)-1])
			}
			if queuePred(call) {
				queued = append(queued, call)
			}
		}
		if len(sent) == 0 {
			continue
		}
		for _, q := range queued {
			arg := q.Common().Args[1]
			ok := false
			for _, sv := range sent {
				if sv == arg {
					ok = true
				}
			}
			r.Check("C08.O2.failedSendQueued", load.ShortFunc(f), "queued request is the request that failed", c.P.Pos(instrPos(q)), ok, "the request put on the retry queue is not the one whose send failed")
		}
	}

	// ---- O3: durability ordering
	for _, spec3 := range []struct {
		fn   string
		what string
	}{{"StopSession", "session file"}, {"recoverOrphanedSessions", "orphan session file / pending file"}} {
		f := c.fn(pkg, "AccountingManager", spec3.fn)
		if f == nil {
			continue
		}
		// every failure edge (err != nil of a send / stop helper) in f
		n := 0
		for _, b := range f.Blocks {
			iff, ok := b.Instrs[len(b.Instrs)-1].(*ssa.If)
			if !ok {
				continue
			}
			ft := flow.Fact{}
			if e, ok := flow.EdgeFact(b, b.Succs[0]); ok {
				ft = e
			}
			_ = iff
			bo, ok := ft.Cond.(*ssa.BinOp)
			if !ok || !isNilConst(bo.Y) {
				continue
			}
			org := errOrigin(bo.X)
			if org != "SendAccounting()" && org != "sendAccountingStop()" {
				continue
			}
			failSucc := b.Succs[0]
			if (bo.Op == token.NEQ) != ft.Pol {
				failSucc = b.Succs[1]
			}
			n++
			ok2, badIn := flow.FirstOnAllPaths(failSucc.Instrs[0], func(in ssa.Instruction) bool {
				call, ok := in.(ssa.CallInstruction)
				return ok && persistPending(call)
			}, func(in ssa.Instruction) bool {
				call, ok := in.(ssa.CallInstruction)
				return ok && removeSess(call)
			}, false)
			// the first instruction of the failure block itself may be the persist call
			if call, isCall := failSucc.Instrs[0].(ssa.CallInstruction); isCall && persistPending(call) {
				ok2 = true
			}
			pos := c.P.Pos(instrPos(b.Instrs[len(b.Instrs)-1]))
			detail := ""
			if !ok2 {
				detail = fmt.Sprintf("after this failed send the %s is removed at %s while the undelivered request exists only in the in-memory retry queue (no persistPendingRecords in between): a crash now loses the Stop", spec3.what, c.P.Pos(instrPos(badIn)))
			}
			r.Check("C08.O3.durableBeforeRemove", load.ShortFunc(f), fmt.Sprintf("failed %s -> persist before remove", org), pos, ok2, detail)
		}
		if n == 0 {
			r.Check("C08.O3.durableBeforeRemove", load.ShortFunc(f), "failure edge", c.P.Pos(f.Pos()), false, "no `err != nil` test of the send result found in this function")
		}
	}
	// pending.json must not be removed while its records exist only in memory
	if f := c.fn(pkg, "AccountingManager", "recoverOrphanedSessions"); f != nil {
		for _, call := range flow.Calls(f) {
			if !flow.CalleeIs(call, "os", "", "Remove") {
				continue
			}
			if !pathMentions(call.Common().Args[0], "pending.json") {
				continue
			}
			// a persist of the queue must follow on every path, or every record must have been delivered (not decidable): require persist
			ok, _ := flow.MustPassThrough(call, func(in ssa.Instruction) bool {
				cc, ok := in.(ssa.CallInstruction)
				return ok && persistPending(cc)
			}, nil)
			r.Check("C08.O3.durableBeforeRemove", load.ShortFunc(f), "os.Remove(pending.json) after reload", c.P.Pos(instrPos(call)), ok,
				"pending.json is deleted right after its records were loaded into the in-memory queue; until each is delivered they exist nowhere on disk, so a second crash (or an outage lasting past the next stop) loses them")
		}
	}

	// ---- O4
	if f := c.fn(pkg, "AccountingManager", "StartSession"); f != nil {
		var reg ssa.Instruction
		var send ssa.Instruction
		flow.Instrs(f, func(in ssa.Instruction) {
			if mu, ok := in.(*ssa.MapUpdate); ok && strings.HasSuffix(flow.FieldOwner(mu.Map), "AccountingManager.sessions") {
				reg = in
			}
			if call, ok := in.(ssa.CallInstruction); ok && sendPred(call) && send == nil {
				send = in
			}
		})
		r.Check("C08.O4.startAfterRegister", load.ShortFunc(f), "sessions[id]=session dominates SendAccounting(Start)", c.P.Pos(f.Pos()), reg != nil && send != nil && flow.InstrDominates(reg, send), "Accounting-Start can be sent for a session that is not registered (a Stop for it could then never be issued)")
		dup := false
		if reg != nil {
			for _, ft := range flow.FactsAtInstr(reg) {
				if n, _, ok := guardName(ft.Cond); ok && n == "found(AccountingManager.sessions)" && !ft.Pol {
					dup = true
				}
			}
		}
		r.Check("C08.O4.startAfterRegister", load.ShortFunc(f), "duplicate session id refused", c.P.Pos(f.Pos()), dup, "registering does not test for an existing session with the same id (two Starts, one Stop)")
	}

	c08Attributes(c)
	c08RequestLiterals(c)
	c08QueuedImmutable(c, queuePred)

	// ---- O8
	if f := c.fn(pkg, "AccountingManager", "recoverOrphanedSessions"); f != nil {
		var read ssa.Instruction
		var readsPending func(g *ssa.Function, depth int) bool
		readsPending = func(g *ssa.Function, depth int) bool {
			if g == nil || depth > 2 || len(g.Blocks) == 0 {
				return false
			}
			for _, call := range flow.Calls(g) {
				if flow.CalleeIs(call, "os", "", "ReadFile") && pathMentions(call.Common().Args[0], "pending.json") {
					return true
				}
				if h := call.Common().StaticCallee(); h != nil && h.Pkg == g.Pkg && h != g && readsPending(h, depth+1) {
					return true
				}
			}
			return false
		}
		for _, call := range flow.Calls(f) {
			if flow.CalleeIs(call, "os", "", "ReadFile") && pathMentions(call.Common().Args[0], "pending.json") {
				read = call
			} else if h := call.Common().StaticCallee(); h != nil && h.Pkg == f.Pkg && readsPending(h, 1) {
				read = call // the reload lives in a helper
			}
		}
		// ---- O10: an orphaned session's file is removed only after a Stop for it was attempted (and queued on failure)
		nrm := 0
		for _, call := range flow.Calls(f) {
			if !flow.CalleeIs(call, "os", "", "Remove") || pathMentions(call.Common().Args[0], "pending.json") {
				continue
			}
			nrm++
			okRm := false
			for _, s := range flow.Calls(f) {
				if flow.CalleeIs(s, pkg, "Client", "SendAccounting") && flow.InstrDominates(s, call) {
					okRm = true
				}
			}
			if !okRm {
				// a file that cannot be read or decoded names no session to stop
				for _, ft := range flow.FactsAtInstr(call) {
					if bo, isB := ft.Cond.(*ssa.BinOp); isB {
						if cc, isC := bo.X.(*ssa.Call); isC {
							if g := cc.Call.StaticCallee(); g != nil && (g.Name() == "Unmarshal" || g.Name() == "ReadFile") {
								if k, isK := bo.Y.(*ssa.Const); isK && k.Value == nil && ((bo.Op == token.NEQ && ft.Pol) || (bo.Op == token.EQL && !ft.Pol)) {
									okRm = true
								}
							}
						}
					}
				}
			}
			r.Check("C08.O10.orphanStopBeforeRemove", load.ShortFunc(f), "os.Remove(session file) only after SendAccounting(Stop) or for an undecodable file", c.P.Pos(instrPos(call)), okRm,
				"recovery deletes a persisted session on a path that has not attempted its Accounting-Stop: whatever else is believed to cover it (a queued record of another kind, a cache), the session was started and is now forgotten without a Stop")
		}
		if nrm == 0 {
			r.Check("C08.O10.orphanStopBeforeRemove", load.ShortFunc(f), "session files are removed by recovery", c.P.Pos(f.Pos()), false, "no os.Remove of a session file in the recovery routine")
		}
		ok := read != nil
		why := "no os.ReadFile of pending.json in the recovery routine"
		if ok {
			for _, b := range f.Blocks {
				ret, isRet := b.Instrs[len(b.Instrs)-1].(*ssa.Return)
				if !isRet || b == f.Recover || len(ret.Results) == 0 {
					continue
				}
				if k, isK := ret.Results[len(ret.Results)-1].(*ssa.Const); !isK || k.Value != nil {
					continue // error return
				}
				if !(read.Block() == b || read.Block().Dominates(b)) {
					ok, why = false, "a `return nil` at "+c.P.Pos(instrPos(ret))+" is reachable without having tried to reload pending.json"
				}
			}
		}
		r.Check("C08.O8.recoveryReachesPending", load.ShortFunc(f), "ReadFile(pending.json) dominates every nil return", c.P.Pos(f.Pos()), ok, why)
	}

	// ---- O9: retry processor
	if f := c.fn(pkg, "AccountingManager", "processPendingRecord"); f != nil {
		del := deleteFrom("AccountingManager.pendingRecords")
		n := 0
		for _, call := range flow.Calls(f) {
			if !del(call) {
				continue
			}
			n++
			ok := false
			for _, ft := range flow.FactsAtInstr(call) {
				if bo, isB := ft.Cond.(*ssa.BinOp); isB {
					if errOrigin(bo.X) == "SendAccounting()" && isNilConst(bo.Y) && ((bo.Op == token.EQL) == ft.Pol) {
						ok = true // success
					}
					if flow.Holds(ft, token.GEQ,
						func(v ssa.Value) bool { return strings.HasSuffix(flow.FieldOwner(v), "PendingAcctRecord.RetryCount") },
						func(v ssa.Value) bool { return strings.HasSuffix(flow.FieldOwner(v), "AccountingConfig.MaxRetries") }) {
						ok = true // budget exhausted (RetryCount >= MaxRetries, in any spelling)
					}
				}
			}
			r.Check("C08.O9.retryBudget", load.ShortFunc(f), "delete(pendingRecords) only on success or exhausted budget", c.P.Pos(instrPos(call)), ok, "a pending record is dropped although its send failed and its retry budget is not exhausted")
		}
		if n == 0 {
			r.Check("C08.O9.retryBudget", load.ShortFunc(f), "delete(pendingRecords)", c.P.Pos(f.Pos()), false, "the retry processor never removes a delivered record (it would be re-sent for ever)")
		}
		// failure path re-schedules: NextRetry store on the non-abandon failure path
		resched := false
		flow.Instrs(f, func(in ssa.Instruction) {
			if st, ok := in.(*ssa.Store); ok && strings.HasSuffix(flow.FieldOwner(st.Addr), "PendingAcctRecord.NextRetry") {
				resched = true
			}
		})
		r.Check("C08.O9.retryBudget", load.ShortFunc(f), "failed record is re-scheduled", c.P.Pos(f.Pos()), resched, "a failed record is never given a next retry time")
	}
}

// errOrigin names the call whose (error) result v is: "SendAccounting()", "sendAccountingStop()", ...
func errOrigin(v ssa.Value) string { return errOriginD(v, 0) }

func errOriginD(v ssa.Value, depth int) string {
	if depth > 8 {
		return "" // loop-carried φ
	}
	switch x := v.(type) {
	case *ssa.Call:
		if g := x.Call.StaticCallee(); g != nil {
			return g.Name() + "()"
		}
	case *ssa.Extract:
		if call, ok := x.Tuple.(*ssa.Call); ok {
			if g := call.Call.StaticCallee(); g != nil {
				return g.Name() + "()"
			}
		}
	case *ssa.Phi:
		s := ""
		for _, e := range x.Edges {
			if isNilConst(e) {
				continue
			}
			n := errOriginD(e, depth+1)
			if n == "" || (s != "" && s != n) {
				return ""
			}
			s = n
		}
		return s
	case *ssa.UnOp:
		// spilled local: *alloc with a single stored origin
		if al, ok := x.X.(*ssa.Alloc); ok && x.Op == token.MUL {
			s := ""
			for _, rf := range *al.Referrers() {
				if st, ok := rf.(*ssa.Store); ok && st.Addr == ssa.Value(al) {
					if isNilConst(st.Val) {
						continue
					}
					n := errOriginD(st.Val, depth+1)
					if n == "" || (s != "" && s != n) {
						return ""
					}
					s = n
				}
			}
			return s
		}
	}
	return ""
}

// pathMentions: the path value is built (filepath.Join / concatenation) from a constant containing s.
func pathMentions(v ssa.Value, s string) bool {
	seen := map[ssa.Value]bool{}
	var walk func(x ssa.Value, d int) bool
	walk = func(x ssa.Value, d int) bool {
		if x == nil || seen[x] || d > 8 {
			return false
		}
		seen[x] = true
		switch y := x.(type) {
		case *ssa.Const:
			if str, ok := constStringVal(y); ok && strings.Contains(str, s) {
				return true
			}
		case *ssa.Call:
			for _, a := range y.Call.Args {
				if walk(a, d+1) {
					return true
				}
			}
		case *ssa.Slice:
			return walk(y.X, d+1)
		case *ssa.Alloc:
			for _, rf := range *y.Referrers() {
				if ia, ok := rf.(*ssa.IndexAddr); ok {
					for _, rr := range *ia.Referrers() {
						if st, ok := rr.(*ssa.Store); ok && walk(st.Val, d+1) {
							return true
						}
					}
				}
			}
		case *ssa.BinOp:
			return walk(y.X, d+1) || walk(y.Y, d+1)
		case *ssa.Phi:
			for _, e := range y.Edges {
				if walk(e, d+1) {
					return true
				}
			}
		}
		return false
	}
	return walk(v, 0)
}

func constStringVal(k *ssa.Const) (string, bool) {
	if k.Value == nil {
		return "", false
	}
	s := k.Value.ExactString()
	if len(s) >= 2 && s[0] == '"' {
		return strings.Trim(s, `"`), true
	}
	return "", false
}

// c08Attributes: O5 — attribute setters in (*Client).SendAccounting take the right request field, low word and gigawords.
func c08Attributes(c *Ctx) {
	f := c.fn("pkg/radius", "Client", "SendAccounting")
	if f == nil {
		return
	}
	type want struct{ field, shape string }
	table := map[string]want{
		"AcctInputOctets_Set":     {"InputOctets", "low32"},
		"AcctOutputOctets_Set":    {"OutputOctets", "low32"},
		"AcctInputPackets_Set":    {"InputPackets", "low32"},
		"AcctOutputPackets_Set":   {"OutputPackets", "low32"},
		"AcctInputGigawords_Set":  {"InputOctets", "high32"},
		"AcctOutputGigawords_Set": {"OutputOctets", "high32"},
		"AcctSessionTime_Set":     {"SessionTime", "id"},
		"AcctTerminateCause_Set":  {"TerminateCause", "id"},
		"AcctSessionID_SetString": {"SessionID", "id"},
		"UserName_SetString":      {"Username", "id"},
		"FramedIPAddress_Set":     {"FramedIP", "id"},
		"AcctStatusType_Set":      {"StatusType", "id"},
	}
	seen := map[string]bool{}
	for _, call := range flow.Calls(f) {
		g := call.Common().StaticCallee()
		if g == nil {
			continue
		}
		w, ok := table[g.Name()]
		if !ok {
			continue
		}
		seen[g.Name()] = true
		args := call.Common().Args
		field, shape := valueShape(args[len(args)-1])
		okc := strings.HasSuffix(field, "AcctRequest."+w.field) && (shape == w.shape || (w.shape == "low32" && shape == "trunc32"))
		c.R.Check("C08.O5.gigawords", load.ShortFunc(f), g.Name(), c.P.Pos(instrPos(call)), okc,
			fmt.Sprintf("%s is set from %s (%s), want AcctRequest.%s (%s)", g.Name(), field, shape, w.field, w.shape))
		if w.shape == "high32" {
			// the gigaword attribute must be present whenever the high word is non-zero: its only guards are the status type
			// and `field > 0xFFFFFFFF` of the same field
			guardOK := true
			for _, ft := range flow.FactsAtInstr(call) {
				bo, isB := ft.Cond.(*ssa.BinOp)
				if !isB {
					continue
				}
				isField := func(v ssa.Value) bool { return strings.HasSuffix(flow.FieldOwner(v), "AcctRequest."+w.field) }
				isConst := func(want int64) func(ssa.Value) bool {
					return func(v ssa.Value) bool { k, ok := constInt(v); return ok && k == want }
				}
				switch {
				case strings.HasSuffix(flow.FieldOwner(bo.X), "AcctRequest.StatusType") || strings.HasSuffix(flow.FieldOwner(bo.Y), "AcctRequest.StatusType"):
				case isField(bo.X) || isField(bo.Y):
					// field > 0xFFFFFFFF, in any spelling (>= 0x100000000, negated <=, constant on the left)
					if !flow.Holds(ft, token.GTR, isField, isConst(0xFFFFFFFF)) && !flow.Holds(ft, token.GEQ, isField, isConst(0x100000000)) {
						guardOK = false
					}
				case errOrigin(bo.X) != "":
				default:
					guardOK = false
				}
			}
			c.R.Check("C08.O5.gigawords", load.ShortFunc(f), g.Name()+" guard", c.P.Pos(instrPos(call)), guardOK, "the gigaword attribute is guarded by something other than the status type and `"+w.field+" > 0xFFFFFFFF`")
		}
	}
	for _, must := range []string{"AcctInputOctets_Set", "AcctOutputOctets_Set", "AcctInputGigawords_Set", "AcctOutputGigawords_Set", "AcctSessionID_SetString", "AcctStatusType_Set"} {
		if !seen[must] {
			c.R.Check("C08.O5.gigawords", load.ShortFunc(f), must, c.P.Pos(f.Pos()), false, "attribute is never set")
		}
	}
}

// valueShape: which struct field a value derives from and how: id | low32 (&0xFFFFFFFF) | trunc32 (uint32()) | high32 (>>32).
func valueShape(v ssa.Value) (field, shape string) {
	shape = "id"
	for i := 0; i < 8; i++ {
		if fo := flow.FieldOwner(v); fo != "" {
			return fo, shape
		}
		switch x := v.(type) {
		case *ssa.ChangeType:
			v = x.X
		case *ssa.Convert:
			if bt, ok := x.Type().Underlying().(*types.Basic); ok && (bt.Kind() == types.Uint32) {
				if st, ok := x.X.Type().Underlying().(*types.Basic); ok && st.Kind() == types.Uint64 && shape == "id" {
					shape = "trunc32"
				}
			}
			v = x.X
		case *ssa.BinOp:
			switch x.Op {
			case token.AND:
				if k, ok := constInt(x.Y); ok && k == 0xFFFFFFFF {
					shape = "low32"
				} else {
					return "", "other"
				}
			case token.SHR:
				if k, ok := constInt(x.Y); ok && k == 32 {
					shape = "high32"
				} else {
					return "", "other"
				}
			default:
				return "", "other"
			}
			v = x.X
		default:
			return "", "other"
		}
	}
	return "", "other"
}

// c08RequestLiterals: O6 — like-named field provenance for every AcctRequest literal in the accounting callers.
func c08RequestLiterals(c *Ctx) {
	compatible := func(dst, src string) bool {
		d, s := strings.ToLower(dst), strings.ToLower(src)
		s = strings.TrimPrefix(s, "last")
		norm := func(x string) string {
			x = strings.ReplaceAll(x, "bytes", "octets")
			x = strings.ReplaceAll(x, "pkts", "packets")
			x = strings.ReplaceAll(x, "clientmac", "mac")
			x = strings.ReplaceAll(x, "clientip", "framedip")
			x = strings.ReplaceAll(x, "stopcause", "terminatecause")
			if x == "ip" || x == "ipv4" {
				x = "framedip"
			}
			return x
		}
		return norm(d) == norm(s)
	}
	checked := map[string]bool{"SessionID": true, "Username": true, "MAC": true, "FramedIP": true, "NASPort": true, "Class": true, "CircuitID": true, "RemoteID": true,
		"InputOctets": true, "OutputOctets": true, "InputPackets": true, "OutputPackets": true, "TerminateCause": true}
	n := 0
	for _, f := range c.moduleFuncs() {
		if f.Pkg == nil {
			continue
		}
		p := f.Pkg.Pkg.Path()
		if !(strings.HasSuffix(p, "pkg/radius") || strings.HasSuffix(p, "pkg/dhcp") || strings.HasSuffix(p, "pkg/pppoe")) {
			continue
		}
		flow.Instrs(f, func(in ssa.Instruction) {
			al, ok := in.(*ssa.Alloc)
			if !ok {
				return
			}
			nt, ok := al.Type().(*types.Pointer).Elem().(*types.Named)
			if !ok || nt.Obj().Name() != "AcctRequest" {
				return
			}
			var fields []string
			vals := map[string]ssa.Value{}
			for _, rf := range *al.Referrers() {
				fa, ok := rf.(*ssa.FieldAddr)
				if !ok {
					continue
				}
				name := fieldVarName(fa)
				for _, rr := range *fa.Referrers() {
					if st, ok := rr.(*ssa.Store); ok && st.Addr == ssa.Value(fa) {
						vals[name] = st.Val
						fields = append(fields, name)
					}
				}
			}
			sort.Strings(fields)
			for _, name := range fields {
				if !checked[name] {
					continue
				}
				src := flow.FieldOwner(vals[name])
				if src == "" {
					continue // computed value, parameter or constant: not a field-to-field copy
				}
				srcField := src[strings.LastIndex(src, ".")+1:]
				n++
				c.R.Check("C08.O6.requestFields", load.ShortFunc(f), "AcctRequest."+name+" <- "+src, c.P.Pos(instrPos(al)), compatible(name, srcField),
					"request field "+name+" is filled from "+src+": identifiers/counters must come from the like-named field")
			}
		})
	}
	c.R.Count("request_field_copies", n)
}

// c08QueuedImmutable: O7 — a queued request must not be written after it was queued (other than through a fresh allocation).
func c08QueuedImmutable(c *Ctx, queuePred callPred) {
	for _, f := range c.moduleFuncs() {
		for _, call := range flow.Calls(f) {
			if !queuePred(call) {
				continue
			}
			arg := call.Common().Args[1]
			al, isAlloc := arg.(*ssa.Alloc)
			if !isAlloc {
				// a parameter / loaded pointer: the caller's obligation
				c.R.Check("C08.O7.queuedRequestImmutable", load.ShortFunc(f), "queued request", c.P.Pos(instrPos(call)), isParam(arg) || flow.FieldOwner(arg) != "", "the queued request is neither a fresh allocation nor a value handed in by the caller")
				continue
			}
			bad := ""
			for _, rf := range *al.Referrers() {
				fa, ok := rf.(*ssa.FieldAddr)
				if !ok {
					continue
				}
				for _, rr := range *fa.Referrers() {
					st, ok := rr.(*ssa.Store)
					if !ok || st.Addr != ssa.Value(fa) {
						continue
					}
					// is this store reachable from the queue call without passing through the allocation again?
					if flow.ReachableWithout(call, st, func(in ssa.Instruction) bool { return in == ssa.Instruction(al) }) {
						bad = "field " + fieldVarName(fa) + " is written at " + c.P.Pos(instrPos(st)) + " after the request was queued (the queue holds the same object)"
					}
				}
			}
			c.R.Check("C08.O7.queuedRequestImmutable", load.ShortFunc(f), "queued request is not rewritten", c.P.Pos(instrPos(call)), bad == "", bad)
		}
	}
}
