package engines

import (
	"fmt"
	"go/types"
	"sort"
	"strings"

	"bngvet/internal/cexec"
	"bngvet/internal/cfront"
	"bngvet/internal/flow"
	"bngvet/internal/load"

	"golang.org/x/tools/go/ssa"
)

func init() { Registry["C03"] = c03 }

// what each reply field the fast path writes must be made of (leaf origins the stored value depends on).
// "const" = a constant; alternatives are separated by |.
var c03Reply = []struct{ field, want, what string }{
	{"dhcp_packet.op", "const:2", "BOOTREPLY"},
	{"dhcp_packet.yiaddr", "allocated_ip", "client address from the cached assignment"},
	{"dhcp_packet.siaddr", "server_ip|gateway", "server address from server_config (pool gateway as fallback)"},
	{"iphdr.saddr", "server_ip|gateway", "IP source = server address"},
	{"opt54", "server_ip|gateway", "server identifier"},
	{"opt51", "lease_time", "lease time of the pool"},
	{"opt58", "lease_time", "T1 from the pool's lease time"},
	{"opt59", "lease_time", "T2 from the pool's lease time"},
	{"opt1", "prefix_len", "subnet mask from the pool's prefix length"},
	{"opt3", "gateway", "router = pool gateway"},
	{"opt6", "dns_primary|dns_secondary", "DNS servers of the pool"},
}

// request fields the reply must keep.
var c03Keep = []string{"dhcp_packet.xid", "dhcp_packet.chaddr", "dhcp_packet.htype", "dhcp_packet.hlen", "dhcp_packet.flags", "dhcp_packet.giaddr", "dhcp_packet.ciaddr", "dhcp_packet.magic", "dhcp_packet.secs"}

func c03(c *Ctx) {
	r := c.R
	r.Explain = "Equivalence of the XDP fast path and the userspace server over all frames and cache states is not decided.  Decided structural clauses: XDP_PASS only with the frame unmodified; provenance (dependency sets from abstract interpretation of clang's AST) of every reply field the program writes, and the request fields it must keep; OFFER exactly for DISCOVER and ACK exactly for REQUEST over all feasible paths; replies only for ihl == 5; the checksum accumulator provably fits 16 bits before it is complemented (interval analysis); on the Go side each cache field is filled from the configuration field the slow path uses for the same option, all lease-ending paths reach the function that deletes the four kinds of cache entry, a renewing lease record keeps the circuit-id the cache entries were written under, and the expiry stamp is written in the clock domain the program reads."
	r.Rule("C03.passUntouched", "dhcp_fastpath_prog returns XDP_PASS only on paths that have not stored into the frame (the slow path receives the request byte-identical)", 8)
	r.Rule("C03.replyFields", "every reply field the fast path writes is made of the cache field the property names (yiaddr <- allocated_ip, server id <- server_config/pool gateway, mask <- prefix_len, router <- gateway, DNS <- dns_primary/secondary, lease/T1/T2 <- lease_time, op <- BOOTREPLY); transaction id, client hardware address, flags, giaddr are never written", 18)
	r.Rule("C03.msgType", "the reply's message type is OFFER exactly on paths where the request is DISCOVER and ACK exactly where it is REQUEST; no other request type is answered", 2)
	r.Rule("C03.headerShape", "a reply is transmitted only for requests whose IP header has no options (ihl == 5): the program computes total length and checksum for a 20-byte header", 1)
	r.Rule("C03.checksum", "the one's-complement accumulator is folded into 16 bits before it is complemented and truncated (interval analysis of the fold)", 1)
	r.Rule("C03.cacheSource", "the control plane fills each cache field from the same configuration field the slow path puts into the corresponding reply option", 8)
	r.Rule("C03.cacheKeys", "a lease record that replaces an existing one keeps the circuit-id under which cache entries were written (so that release/expiry can delete them): on every path through handleRequest, the new record's CircuitID is nil only if the old record's was", 1)
	r.Rule("C03.lifecycle", "release, decline and expiry all reach releaseLeaseResources, which deletes the MAC, VLAN, circuit-id hash and circuit-id key entries", 7)
	r.Rule("C03.clock", "the expiry stamp the control plane writes and the clock the program compares it with are in the same time domain", 1)
	r.Rule("C03.model", "dhcp_fastpath_prog is analysed completely", 2)

	var tu *cfront.TU
	for _, t := range c.bpfUnits() {
		if t.Rel == "bpf/dhcp_fastpath.c" {
			tu = t
		}
	}
	if tu == nil || tu.Funcs["dhcp_fastpath_prog"] == nil {
		r.Fatalf("anchor unresolved: bpf/dhcp_fastpath.c dhcp_fastpath_prog")
		return
	}
	fn := tu.Funcs["dhcp_fastpath_prog"]
	x := runMerge(tu, fn)
	r.Check("C03.model", fn.Name, "merge-mode run complete", fn.Pos(), len(x.Problems) == 0, strings.Join(x.Problems, "; "))
	var k keyed
	// pass untouched
	for _, rt := range x.Returns {
		if v, ok := rt.Val.IsConst(); ok && v == 2 {
			var ws []string
			for _, w := range rt.St.Writes {
				ws = append(ws, w.Pos())
			}
			sort.Strings(ws)
			r.Check("C03.passUntouched", fn.Name, k.name(fn.Name, "frame untouched at "+cfront.Render(rt.Node)+" ["+guardOf(rt.Node)+"]"), rt.Node.Pos(), len(ws) == 0,
				fmt.Sprintf("%d frame stores (first %v) precede this XDP_PASS: userspace gets a mangled request", len(ws), firstN(ws, 3)))
		}
	}
	// reply fields: collect, per target, the dependency set of everything stored there
	got := map[string]map[string]bool{}
	pos := map[string]string{}
	note := func(tgt string, ev cexec.Event) {
		d := got[tgt]
		if d == nil {
			d = map[string]bool{}
			got[tgt] = d
			pos[tgt] = ev.Node.Pos()
		}
		if cv, ok := ev.Val.IsConst(); ok {
			d[fmt.Sprintf("const:%d", cv)] = true
		}
		for dep := range deps(ev.Val.Org) {
			d[dep] = true
		}
	}
	// option area: code byte, length byte, value bytes
	phase, code, remaining := 0, int64(-1), int64(0)
	lastNode, lastTgt := "", ""
	for _, ev := range x.Events {
		if ev.Kind != "pktstore" {
			continue
		}
		if ev.Node.ID == lastNode {
			if lastTgt != "" {
				note(lastTgt, ev) // the same store reached with another value (several return values of an inlined helper)
			}
			continue
		}
		lastNode, lastTgt = ev.Node.ID, ""
		if !ev.Within("build_dhcp_options") {
			if ev.Name == "" {
				note(ev.Lbl, ev)
			}
			continue
		}
		cv, isC := ev.Val.IsConst()
		if phase == 2 && remaining < 0 && ev.Size == 1 {
			phase = 0 // a variable-length option ends where the next code byte is written
		}
		switch phase {
		case 0:
			code = -1
			if isC && ev.Size == 1 {
				code = cv
			}
			phase = 1
			if code == 255 {
				phase = 0
			}
		case 1:
			remaining = -1
			if isC {
				remaining = cv
			}
			phase = 2
		case 2:
			lastTgt = fmt.Sprintf("opt%d", code)
			note(lastTgt, ev)
			if remaining > 0 {
				remaining -= ev.Size
				if remaining <= 0 {
					phase = 0
				}
			}
		}
	}
	for _, e := range c03Reply {
		d := got[e.field]
		ok := d != nil
		if ok {
			alts := strings.Split(e.want, "|")
			hit := false
			for _, a := range alts {
				if d[a] {
					hit = true
				}
			}
			// nothing outside the allowed origins (constants excepted)
			for dep := range d {
				allowed := strings.HasPrefix(dep, "const:") && !strings.HasPrefix(e.want, "const:")
				for _, a := range alts {
					if dep == a {
						allowed = true
					}
				}
				if !allowed {
					hit = false
				}
			}
			ok = hit
		}
		r.Check("C03.replyFields", fn.Name, e.field+" <- "+e.want, pos[e.field], ok,
			fmt.Sprintf("%s: the fast path writes %s from %s (expected %s): the reply differs from what the userspace server sends from the same configuration", e.what, e.field, depList(got[e.field]), e.want))
	}
	for _, f := range c03Keep {
		_, written := got[f]
		r.Check("C03.replyFields", fn.Name, f+" is never written", pos[f], !written, "the reply must echo the request's "+f+"; the fast path overwrites it")
	}
	// ihl == 5 on TX
	for _, rt := range x.Returns {
		if v, ok := rt.Val.IsConst(); ok && v == 3 {
			pinned, seen := true, false
			for a, org := range x.SymOrg {
				if strings.HasPrefix(org, "pktbits:iphdr.ihl") {
					seen = true
					iv := rt.St.SymRange(a)
					if iv.Lo != 5 || iv.Hi != 5 {
						pinned = false
					}
				}
			}
			r.Check("C03.headerShape", fn.Name, "ihl == 5 established before XDP_TX", rt.Node.Pos(), seen && pinned,
				"the program locates UDP with ip->ihl*4 but computes tot_len and the header checksum for a 20-byte header and never tests ihl: a request carrying IP options is answered with a malformed frame (wrong total length, checksum over the wrong bytes)")
		}
	}
	// checksum fold
	nfold := 0
	for _, ev := range x.Events {
		if ev.Kind == "bitnot" && (ev.Func == "ip_checksum" || strings.Contains(ev.Func, "csum")) {
			nfold++
			r.Check("C03.checksum", ev.Func, "accumulator fits 16 bits before ~", ev.Node.Pos(), ev.Off >= 0 && ev.Size <= 0xffff,
				fmt.Sprintf("the value complemented and truncated to 16 bits ranges over [%d, %d]: a carry out of bit 15 is lost for some header contents, the IP checksum is wrong and the client drops the reply", ev.Off, ev.Size))
		}
	}
	if nfold == 0 {
		r.Check("C03.checksum", "ip_checksum", "a complement of the accumulator exists", "-", false, "no ~ found in the checksum helper")
	}
	px := c03MsgType(c, tu, fn)
	c03CompleteKey(c, tu, x)
	c03Go(c, px)
	r.Note("Not decided: byte-for-byte equivalence of the two implementations over all frames and cache states, option ordering for arbitrary request layouts, arithmetic of the checksum beyond the fold range, UDP checksum (zeroed), broadcast/unicast choice. Layout and byte order of the cache structs are C06's; packet bounds C07's; the acquire/release matrix of cache entries is also covered by C16.")
}

func c03MsgType(c *Ctx, tu *cfront.TU, fn *cfront.Node) *cexec.Exec {
	r := c.R
	x := cexec.New(tu, cexec.Paths)
	x.MaxSteps = 20000000
	for _, o := range []string{"extract_circuit_id_fixed", "is_zero_mac", "ip_checksum", "get_dhcp_msg_type", "copy_mac", "update_stat"} {
		x.Opaque[o] = true
	}
	x.Run(fn)
	var probs []string
	for _, p := range x.Problems {
		probs = append(probs, p)
	}
	r.Check("C03.model", fn.Name, "path-mode run complete", fn.Pos(), len(probs) == 0, strings.Join(probs, "; "))
	r.Count("fastpath_paths", len(x.Returns))
	okOffer, okAck, nTX := true, true, 0
	why := ""
	for _, rt := range x.Returns {
		if v, ok := rt.Val.IsConst(); !ok || v != 3 {
			continue
		}
		nTX++
		// request type on this path
		req := int64(-1)
		excluded := map[int64]bool{}
		for _, a := range rt.St.Atoms {
			if !strings.HasPrefix(a.L, "get_dhcp_msg_type()") || a.RC == nil {
				continue
			}
			eq := a.Holds
			if a.Op == "!=" {
				eq = !eq
			} else if a.Op != "==" {
				continue
			}
			if eq {
				req = *a.RC
			} else {
				excluded[*a.RC] = true
			}
		}
		// the message type written into option 53
		rep := int64(-1)
		prev := int64(-1)
		for _, ev := range rt.St.Trace {
			if ev.Kind != "pktstore" || ev.Size != 1 {
				continue
			}
			cv, isC := ev.Val.IsConst()
			if prev == 53 && isC && cv == 1 {
				prev = -53
				continue
			}
			if prev == -53 {
				if isC {
					rep = cv
				}
				prev = -1
				continue
			}
			if isC {
				prev = cv
			} else {
				prev = -1
			}
		}
		switch {
		case req == 1:
			if rep != 2 {
				okOffer, why = false, fmt.Sprintf("a DISCOVER is answered with message type %d at %s", rep, rt.Node.Pos())
			}
		case req == 3:
			if rep != 5 {
				okAck, why = false, fmt.Sprintf("a REQUEST is answered with message type %d at %s", rep, rt.Node.Pos())
			}
		default:
			okAck, why = false, fmt.Sprintf("a reply (type %d) is transmitted on a path that has not established the request type (excluded %v) at %s", rep, excluded, rt.Node.Pos())
		}
	}
	r.Check("C03.msgType", fn.Name, "DISCOVER -> OFFER", fn.Pos(), okOffer && nTX > 0, why)
	r.Check("C03.msgType", fn.Name, "REQUEST -> ACK, nothing else answered", fn.Pos(), okAck && nTX > 0, why)
	return x
}

// ---- Go side ----

func c03Go(c *Ctx, px *cexec.Exec) {
	r := c.R
	// cache field <- configuration field, and the slow path's option from the same field
	type src struct{ cache, field, opt string }
	table := []src{
		{"IPPool.Gateway", "Pool.Gateway", "OptRouter"},
		{"IPPool.DNSPrimary", "Pool.DNSServers", "OptDNS"},
		{"IPPool.DNSSecondary", "Pool.DNSServers", "OptDNS"},
		{"IPPool.LeaseTime", "Pool.LeaseTime", "OptIPAddressLeaseTime"},
		{"IPPool.PrefixLen", "Pool.Network|Pool.SubnetMask", "OptSubnetMask"},
		{"PoolAssignment.AllocatedIP", "Lease.IP", "WithYourIP"},
		{"ServerConfig.ServerIP", "Server.serverIP", "OptServerIdentifier"},
	}
	stores := map[string][]*ssa.Store{}
	optArgs := map[string][]ssa.CallInstruction{}
	var k keyed
	for _, f := range c.moduleFuncs() {
		if f.Pkg == nil || !(strings.HasSuffix(f.Pkg.Pkg.Path(), "pkg/dhcp") || strings.HasSuffix(f.Pkg.Pkg.Path(), "pkg/ebpf")) {
			continue
		}
		flow.Instrs(f, func(in ssa.Instruction) {
			if st, ok := in.(*ssa.Store); ok {
				if fo := flow.FieldOwner(st.Addr); fo != "" {
					stores[fo] = append(stores[fo], st)
				}
			}
			if call, ok := in.(ssa.CallInstruction); ok {
				if g := call.Common().StaticCallee(); g != nil && g.Pkg != nil && strings.HasSuffix(g.Pkg.Pkg.Path(), "dhcpv4") {
					optArgs[g.Name()] = append(optArgs[g.Name()], call)
				}
			}
		})
	}
	anyField := func(v ssa.Value, alts string) bool {
		for _, a := range strings.Split(alts, "|") {
			if dependsOnFieldIP(c, v, a, map[ssa.Value]bool{}, 0) {
				return true
			}
		}
		return false
	}
	for _, e := range table {
		n := 0
		for _, st := range stores[e.cache] {
			if isZeroConst(st.Val) {
				continue
			}
			n++
			fn := load.ShortFunc(st.Parent())
			r.Check("C03.cacheSource", fn, k.name(fn, e.cache+" <- "+e.field), c.P.Pos(st.Pos()), anyField(st.Val, e.field),
				"the value cached for the fast path is not derived from "+e.field+", the field the slow path answers from")
		}
		if n == 0 {
			r.Check("C03.cacheSource", "pkg/dhcp", e.cache+" is written", "-", false, "no store into "+e.cache+" found")
		}
		m := 0
		for _, call := range optArgs[e.opt] {
			args := call.Common().Args
			if len(args) == 0 {
				continue
			}
			m++
			fn := load.ShortFunc(call.Parent())
			want := e.field
			if e.opt == "WithYourIP" {
				want = "Lease.IP|RequestedIPAddress|Pool.Allocate|Allocate" // the address being leased: validated against the lease before (C02)
				continue
			}
			r.Check("C03.cacheSource", fn, k.name(fn, "slow path "+e.opt+" <- "+want), c.P.Pos(call.Pos()), anyField(args[0], want),
				"the slow path builds "+e.opt+" from something other than "+want+": fast and slow path can disagree")
		}
		_ = m
	}
	// lifecycle
	rel := c.fn("pkg/dhcp", "Server", "releaseLeaseResources")
	if rel != nil {
		for _, m := range []string{"RemoveSubscriber", "RemoveVLANSubscriber", "RemoveCircuitIDMapping", "RemoveCircuitIDSubscriber"} {
			found := false
			for _, call := range flow.Calls(rel) {
				if flow.CalleeIs(call, "pkg/ebpf", "Loader", m) {
					found = true
				}
			}
			r.Check("C03.lifecycle", load.ShortFunc(rel), "calls "+m, c.P.Pos(rel.Pos()), found, "a released lease keeps its "+m[6:]+" cache entry: the fast path goes on answering for it")
		}
		cg := c.P.CallGraph()
		for _, name := range []string{"handleRelease", "handleDecline", "cleanupExpiredLeases"} {
			f := c.fn("pkg/dhcp", "Server", name)
			if f == nil {
				continue
			}
			reach := flow.ReachableFuncs(cg, []*ssa.Function{f}, nil)
			r.Check("C03.lifecycle", load.ShortFunc(f), "reaches releaseLeaseResources", c.P.Pos(f.Pos()), reach[rel], "this lease-ending path never deletes the fast path cache entries")
		}
	}
	c03CacheKeys(c)
	c03Clock(c, px)
}

func isZeroConst(v ssa.Value) bool {
	k, ok := v.(*ssa.Const)
	return ok && (k.Value == nil || k.Value.String() == "0")
}

// dependsOnFieldIP: backward slice through operands, phis, calls (arguments) and, for parameters, the callers' arguments.
func dependsOnFieldIP(c *Ctx, v ssa.Value, suffix string, seen map[ssa.Value]bool, depth int) bool {
	if v == nil || seen[v] || depth > 6 {
		return false
	}
	seen[v] = true
	switch x := v.(type) {
	case *ssa.UnOp:
		for _, alt := range strings.Split(suffix, "|") {
			if fo := flow.FieldOwner(x.X); fo != "" && strings.HasSuffix(fo, alt) {
				return true
			}
		}
	case *ssa.Field:
		for _, alt := range strings.Split(suffix, "|") {
			if fo := flow.FieldOwner(x); fo != "" && strings.HasSuffix(fo, alt) {
				return true
			}
		}
	case *ssa.Call:
		name := ""
		if g := x.Call.StaticCallee(); g != nil {
			name = g.Name()
		} else if x.Call.IsInvoke() {
			name = x.Call.Method.Name()
		}
		for _, alt := range strings.Split(suffix, "|") {
			if name != "" && alt == name {
				return true
			}
		}
	case *ssa.Parameter:
		f := x.Parent()
		idx := -1
		for i, p := range f.Params {
			if p == x {
				idx = i
			}
		}
		if node := c.P.CallGraph().Nodes[f]; node != nil && idx >= 0 {
			for _, e := range node.In {
				if e.Site == nil || !load.InModule(e.Caller.Func) {
					continue
				}
				args := e.Site.Common().Args
				if idx < len(args) && dependsOnFieldIP(c, args[idx], suffix, seen, depth+1) {
					return true
				}
			}
		}
		return false
	case *ssa.Alloc:
		for _, ref := range *x.Referrers() {
			if st, ok := ref.(*ssa.Store); ok && st.Addr == x && dependsOnFieldIP(c, st.Val, suffix, seen, depth) {
				return true
			}
			// element / field cells of the allocation (variadic argument arrays, composite literals)
			if ia, ok := ref.(ssa.Value); ok {
				switch ref.(type) {
				case *ssa.IndexAddr, *ssa.FieldAddr:
					for _, r2 := range *ia.Referrers() {
						if st, ok := r2.(*ssa.Store); ok && st.Addr == ia && dependsOnFieldIP(c, st.Val, suffix, seen, depth) {
							return true
						}
					}
				}
			}
		}
	}
	if in, ok := v.(ssa.Instruction); ok {
		for _, op := range in.Operands(nil) {
			if *op != nil && dependsOnFieldIP(c, *op, suffix, seen, depth) {
				return true
			}
		}
	}
	return false
}

// c03CacheKeys: path-sensitive nil-ness of Lease.CircuitID in handleRequest (see rule text).
func c03CacheKeys(c *Ctx) { leaseHandleKept(c, "C03.cacheKeys") }

// leaseHandleKept: shared by C03 (cache entries) and C16 (secondary index): see the rule text at the call sites.
func leaseHandleKept(c *Ctx, rule string) {
	r := c.R
	f := c.fn("pkg/dhcp", "Server", "handleRequest")
	if f == nil {
		return
	}
	// the new record: the allocation whose CircuitID field is stored to and which is inserted into Server.leases
	var rec ssa.Value
	var insert *ssa.MapUpdate
	flow.Instrs(f, func(in ssa.Instruction) {
		if mu, ok := in.(*ssa.MapUpdate); ok && strings.HasSuffix(flow.FieldOwner(mu.Map), "Server.leases") {
			insert = mu
			rec = mu.Value
		}
	})
	if insert == nil {
		r.Check(rule, load.ShortFunc(f), "lease record replacement found", c.P.Pos(f.Pos()), false, "no insertion into Server.leases in handleRequest")
		return
	}
	isLeasePtr := func(v ssa.Value) bool {
		p, ok := v.Type().Underlying().(*types.Pointer)
		if !ok {
			return false
		}
		n, ok := p.Elem().(*types.Named)
		return ok && n.Obj().Name() == "Lease"
	}

	// the record variable may be spilled into a cell (captured by a closure): every load of that cell is the record
	canon := func(v ssa.Value) ssa.Value {
		if u, ok := v.(*ssa.UnOp); ok {
			if a, ok := u.X.(*ssa.Alloc); ok {
				return a
			}
		}
		return v
	}
	recC := canon(rec)
	var startInstr ssa.Instruction
	if a, ok := recC.(*ssa.Alloc); ok && a != rec {
		for _, ref := range *a.Referrers() {
			if st, ok := ref.(*ssa.Store); ok && st.Addr == a {
				if _, isNew := st.Val.(*ssa.Alloc); isNew {
					startInstr = st
				}
			}
		}
	} else if in, ok := rec.(ssa.Instruction); ok {
		startInstr = in
	}
	if startInstr == nil {
		r.Check(rule, load.ShortFunc(f), "creation of the new lease record found", c.P.Pos(insert.Pos()), false, "the record inserted into Server.leases is not created in handleRequest")
		return
	}
	isRec := func(v ssa.Value) bool {
		if canon(v) == recC {
			return true
		}
		if st, ok := startInstr.(*ssa.Store); ok && st.Val == v {
			return true
		}
		return false
	}
	isRecField := func(addr ssa.Value, field string) bool {
		fa, ok := addr.(*ssa.FieldAddr)
		return ok && isRec(fa.X) && strings.HasSuffix(flow.FieldOwner(fa), "Lease."+field)
	}
	// source key of a value whose nil-ness matters
	srcKey := func(v ssa.Value) string {
		if k, ok := v.(*ssa.Const); ok && k.Value == nil {
			return "nil"
		}
		if u, ok := v.(*ssa.UnOp); ok {
			if fa, ok := u.X.(*ssa.FieldAddr); ok {
				return canon(fa.X).Name() + "." + flow.FieldOwner(fa)
			}
		}
		return v.Name()
	}
	oldKey := ""
	// the old record's CircuitID: a load of Lease.CircuitID from a value that is not the new record
	flow.Instrs(f, func(in ssa.Instruction) {
		if u, ok := in.(*ssa.UnOp); ok {
			if fa, ok := u.X.(*ssa.FieldAddr); ok && !isRec(fa.X) && isLeasePtr(fa.X) && strings.HasSuffix(flow.FieldOwner(fa), "Lease.CircuitID") && u.Block() != nil {
				oldKey = srcKey(u)
			}
		}
	})
	if oldKey == "" {
		r.Check(rule, load.ShortFunc(f), "renewal consults the old record's CircuitID", c.P.Pos(f.Pos()), false,
			"handleRequest never reads the existing lease's CircuitID: a renewal without Option 82 forgets the circuit-id under which cache entries were written, and release can no longer delete them")
		return
	}
	type pstate struct {
		cell    string          // source key of the current content of rec.CircuitID
		isNil   map[string]bool // decided nil-ness of sources
		loaded  map[ssa.Value]string
		renewal bool // a field of another (the existing) lease record was accessed on this path
	}
	recAlloc := startInstr
	start := recAlloc.Block()
	bad := ""
	paths := 0
	var walk func(b *ssa.BasicBlock, from int, st pstate, visited map[*ssa.BasicBlock]int) bool
	walk = func(b *ssa.BasicBlock, from int, st pstate, visited map[*ssa.BasicBlock]int) bool {
		if visited[b] > 1 || paths > 20000 {
			return true
		}
		visited[b]++
		defer func() { visited[b]-- }()
		for _, in := range b.Instrs[from:] {
			switch x := in.(type) {
			case *ssa.FieldAddr:
				if !isRec(x.X) && isLeasePtr(x.X) {
					st.renewal = true
				}
			case *ssa.Store:
				if isRecField(x.Addr, "CircuitID") {
					st.cell = srcKey(x.Val)
				}
			case *ssa.UnOp:
				if isRecField(x.X, "CircuitID") {
					st.loaded[x] = st.cell
				} else if fa, ok := x.X.(*ssa.FieldAddr); ok && strings.HasSuffix(flow.FieldOwner(fa), "CircuitID") {
					st.loaded[x] = srcKey(x)
				}
			case *ssa.MapUpdate:
				if x == insert {
					paths++
					// requirement: cell may be nil only if old is nil
					cellNil, cellKnown := st.isNil[st.cell]
					if st.cell == "nil" {
						cellNil, cellKnown = true, true
					}
					oldNil, oldKnown := st.isNil[oldKey]
					cellMayBeNil := !cellKnown || cellNil
					oldMayBeNonNil := !oldKnown || !oldNil
					if st.cell == oldKey {
						cellMayBeNil = false // same value: nil only if old is nil
					}
					// the old record only exists on renewal paths: a path that never decided anything about it and
					// never copied from it is only a problem when the old record is known to exist; existence is
					// implied by having evaluated its CircuitID on this path
					if cellMayBeNil && oldMayBeNonNil && st.renewal {
						bad = c.P.Pos(insert.Pos())
						return false
					}
					return true
				}
			case *ssa.If:
				// nil-ness tests on tracked sources
				key, eqNilOnTrue, ok := nilTest(x.Cond, st.loaded)
				for i, s := range b.Succs {
					ns := pstate{cell: st.cell, isNil: map[string]bool{}, loaded: st.loaded, renewal: st.renewal}
					for k, v := range st.isNil {
						ns.isNil[k] = v
					}
					if ok {
						want := eqNilOnTrue == (i == 0)
						if cur, known := ns.isNil[key]; known && cur != want {
							continue // infeasible
						}
						if key == "nil" && !want {
							continue
						}
						ns.isNil[key] = want
					}
					if !walk(s, 0, ns, visited) {
						return false
					}
				}
				return true
			case *ssa.Return, *ssa.Panic:
				return true
			}
		}
		for _, s := range b.Succs {
			ns := pstate{cell: st.cell, isNil: st.isNil, loaded: st.loaded, renewal: st.renewal}
			if !walk(s, 0, ns, visited) {
				return false
			}
		}
		return true
	}
	idx := 0
	for i, in := range start.Instrs {
		if in == recAlloc {
			idx = i
		}
	}
	ok := walk(start, idx, pstate{cell: "nil", isNil: map[string]bool{}, loaded: map[ssa.Value]string{}}, map[*ssa.BasicBlock]int{})
	r.Count("cachekey_paths", paths)
	r.Check(rule, load.ShortFunc(f), "new record's CircuitID is nil only if the old record's was", bad, ok && paths > 0,
		"on some path the existing lease has a circuit-id but the record that replaces it has none: the circuit_id_map / circuit_id_subscribers entries written for it are never deleted at release or expiry, and the fast path keeps answering for that circuit-id")
}

// nilTest recognises v == nil, v != nil, len(v) == 0, len(v) > 0 over tracked loads.
func nilTest(cond ssa.Value, loaded map[ssa.Value]string) (key string, nilOnTrue bool, ok bool) {
	b, isB := cond.(*ssa.BinOp)
	if !isB {
		return "", false, false
	}
	x := b.X
	isLen := false
	if call, ok := x.(*ssa.Call); ok {
		if bi, ok := call.Call.Value.(*ssa.Builtin); ok && bi.Name() == "len" {
			x = call.Call.Args[0]
			isLen = true
		}
	}
	k, tracked := loaded[x]
	if !tracked {
		return "", false, false
	}
	kc, isC := b.Y.(*ssa.Const)
	if !isC {
		return "", false, false
	}
	if !isLen && kc.Value == nil {
		switch b.Op.String() {
		case "==":
			return k, true, true
		case "!=":
			return k, false, true
		}
	}
	if isLen && kc.Value != nil && kc.Value.String() == "0" {
		switch b.Op.String() {
		case "==":
			return k, true, true
		case ">", "!=":
			return k, false, true
		}
	}
	return "", false, false
}

// c03Clock: time domain of the expiry stamp.
func c03Clock(c *Ctx, x *cexec.Exec) {
	r := c.R
	// Go: stores into PoolAssignment.LeaseExpiry derive from (time.Time).Unix (wall clock, seconds since 1970)
	goDomain := map[string]bool{}
	var goPos string
	for _, f := range c.moduleFuncs() {
		flow.Instrs(f, func(in ssa.Instruction) {
			st, ok := in.(*ssa.Store)
			if !ok || !strings.HasSuffix(flow.FieldOwner(st.Addr), "PoolAssignment.LeaseExpiry") {
				return
			}
			goPos = c.P.Pos(st.Pos())
			switch {
			case dependsOnFieldIP(c, st.Val, "ClockGettime|KernelExpiry", map[ssa.Value]bool{}, 0):
				goDomain["seconds since boot (monotonic clock)"] = true
			case dependsOnFieldIP(c, st.Val, "Unix", map[ssa.Value]bool{}, 0):
				goDomain["unix-epoch seconds (time.Time.Unix)"] = true
			default:
				goDomain["unknown"] = true
			}
		})
	}
	// C: what lease_expiry is compared with
	cDomain := map[string]bool{}
	cPos := "-"
	for _, rt := range x.Returns {
		for _, a := range rt.St.Atoms {
			if strings.HasSuffix(a.R, "lease_expiry") || strings.HasSuffix(a.L, "lease_expiry") {
				other := a.L
				if strings.HasSuffix(a.L, "lease_expiry") {
					other = a.R
				}
				cPos = a.Node
				if deps(other)["ktime_ns"] {
					cDomain["seconds since boot (monotonic clock)"] = true
				} else {
					cDomain["unknown: "+other] = true
				}
			}
		}
	}
	same := false
	for d := range goDomain {
		if cDomain[d] {
			same = true
		}
	}
	r.Check("C03.clock", "dhcp_fastpath_prog", "lease_expiry is compared in the time domain it is written in", cPos, same,
		fmt.Sprintf("the control plane writes %s (%s) but the program compares the field with %s: boot-relative seconds never exceed an epoch timestamp, so the in-kernel expiry test is dead and an entry userspace fails to delete is answered from for ever", depList(goDomain), goPos, depList(cDomain)))
}

// c03CompleteKey (rule C03.completeKey): the fast path identifies a subscriber by circuit-id only when the whole
// identifier fits the fixed-size key; a longer identifier must not be looked up by its prefix.
// Decided on the merge-mode run: at every non-zero return of extract_circuit_id_fixed, every packet byte that the
// helper compares with the key size (the identifier's length) is bounded by the key size in the state at that return.
func c03CompleteKey(c *Ctx, tu *cfront.TU, x *cexec.Exec) {
	r := c.R
	r.Rule("C03.completeKey", "extract_circuit_id_fixed reports a circuit-id as found only where the identifier's length byte is known to be at most the key size: a longer identifier is never looked up by its 32-byte prefix (two subscribers sharing a prefix would be answered with each other's address)", 1)
	keyLen, err := tu.SizeOfStr("struct circuit_id_key")
	if err != nil {
		r.Fatalf("C03: %v", err)
		return
	}
	// length symbols: packet-loaded symbols compared with the key size inside the helper
	type symT = interface{}
	lens := map[string]cexec.Val{}
	for _, ev := range x.Events {
		if ev.Kind == "cmpk" && ev.Within("extract_circuit_id_fixed") && ev.Off == keyLen && strings.HasPrefix(ev.Val.Org, "pkt:") {
			lens[ev.Val.String()+fmt.Sprint(ev.Val.L)] = ev.Val
		}
	}
	n, bad := 0, 0
	where := "-"
	for _, ev := range x.Events {
		if ev.Kind != "fnreturn" || ev.Name != "extract_circuit_id_fixed" {
			continue
		}
		if v, isC := ev.Val.IsConst(); isC && v == 0 {
			continue
		}
		n++
		// the length symbol relevant for this return: the one refined in this state (its interval differs from a byte's full range)
		okRet := false
		for _, lv := range lens {
			a, _ := lv.SingleSym()
			iv := ev.St.SymRange(a)
			if iv.Hi <= keyLen && iv.Lo >= 1 {
				okRet = true
			}
		}
		if !okRet {
			bad++
			where = ev.Node.Pos()
		}
	}
	r.Count("circuit_id_success_returns", n)
	r.Check("C03.completeKey", "extract_circuit_id_fixed", "found only with length <= key size", where, n > 0 && bad == 0 && len(lens) > 0,
		fmt.Sprintf("%d of %d success returns are reached without the identifier's length byte being bounded by %d: the key then holds only a prefix of the identifier, and the entry of whichever subscriber with that prefix was acknowledged last answers for all of them", bad, n, keyLen))
}
