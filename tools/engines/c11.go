package engines

import (
	"fmt"
	"go/constant"
	"go/token"
	"go/types"
	"sort"
	"strings"

	"bngvet/internal/esp"
	"bngvet/internal/flow"
	"bngvet/internal/load"

	"golang.org/x/tools/go/ssa"
)

func init() { Registry["C11"] = C11 }

type fsmSpec struct {
	typ       string // LCPStateMachine
	stateType string // LCPState
	prefix    string // LCPState (constant name prefix)
}

var c11Machines = []fsmSpec{
	{"LCPStateMachine", "LCPState", "LCPState"},
	{"IPCPStateMachine", "IPCPState", "IPCPState"},
	{"IPV6CPStateMachine", "IPV6CPState", "IPV6CPState"},
}

// transition is one element of the extracted relation.
type transition struct {
	Event string
	Pre   string
	Post  string
	Atoms []string
	Acts  []string
}

func (t transition) String() string {
	return fmt.Sprintf("%s: %s -> %s  atoms=%v acts=%v", t.Event, t.Pre, t.Post, t.Atoms, t.Acts)
}

func has(list []string, x string) bool {
	for _, y := range list {
		if y == x {
			return true
		}
	}
	return false
}

func hasPrefix(list []string, p string) bool {
	for _, y := range list {
		if strings.HasPrefix(y, p) {
			return true
		}
	}
	return false
}

// enumConsts returns value->short name for the package-level constants of a named type.
func enumConsts(pkg *types.Package, typeName, prefix string) (map[string]string, []string) {
	byVal := map[string]string{}
	var names []string
	sc := pkg.Scope()
	for _, n := range sc.Names() {
		c, ok := sc.Lookup(n).(*types.Const)
		if !ok {
			continue
		}
		nt, ok := c.Type().(*types.Named)
		if !ok || nt.Obj().Name() != typeName {
			continue
		}
		short := strings.TrimPrefix(n, prefix)
		byVal[c.Val().ExactString()] = short
		names = append(names, short)
	}
	return byVal, names
}

// extractFSM computes the transition relation of one control-protocol automaton.
func extractFSM(c *Ctx, m fsmSpec, events []string) ([]transition, map[string]string) {
	const pkg = "pkg/pppoe"
	sp := c.P.SSAPkg(pkg)
	tn, _ := sp.Pkg.Scope().Lookup(m.typ).(*types.TypeName)
	if tn == nil {
		c.R.Fatalf("C11: type %s not found", m.typ)
		return nil, nil
	}
	named := tn.Type().(*types.Named)
	byVal, _ := enumConsts(sp.Pkg, m.stateType, m.prefix)
	if len(byVal) < 10 {
		c.R.Fatalf("C11: %s has %d state constants, expected the 10 RFC 1661 states", m.stateType, len(byVal))
	}
	codeNames, _ := enumConsts(sp.Pkg, "", "")
	_ = codeNames
	spec := &esp.Spec{
		Recv:   named,
		Fields: map[string]bool{"state": true},
		Atom: func(cond ssa.Value) (string, []string, bool) {
			b, ok := cond.(*ssa.BinOp)
			if !ok {
				return "", nil, false
			}
			fx, fy := flow.FieldOwner(b.X), flow.FieldOwner(b.Y)
			if strings.HasSuffix(fx, ".lastIdentifier") || strings.HasSuffix(fy, ".lastIdentifier") {
				if b.Op == token.NEQ {
					return "id!=.lastIdentifier", []string{"lastIdentifier"}, true
				}
				if b.Op == token.EQL { // the same test spelled the other way round: one atom, negated
					return "!id!=.lastIdentifier", []string{"lastIdentifier"}, true
				}
			}
			// err != nil where err comes from one of the package's Parse* decoders: a malformed packet is discarded
			if (b.Op == token.NEQ || b.Op == token.EQL) && isNilConst(b.Y) {
				if ex, ok := b.X.(*ssa.Extract); ok {
					if call, ok := ex.Tuple.(*ssa.Call); ok {
						if g := call.Call.StaticCallee(); g != nil && strings.HasPrefix(g.Name(), "Parse") {
							if b.Op == token.NEQ {
								return "malformed", nil, true
							}
							return "!malformed", nil, true
						}
					}
				}
			}
			if strings.HasSuffix(fx, ".restartCount") {
				if k, ok := b.Y.(*ssa.Const); ok && k.Value != nil && k.Value.Kind() == constant.Int {
					if kv, exact := constant.Int64Val(k.Value); exact {
						switch {
						case (b.Op == token.GTR && kv == 0) || (b.Op == token.GEQ && kv == 1):
							return ".restartCount>0", []string{"restartCount"}, true
						case (b.Op == token.LEQ && kv == 0) || (b.Op == token.LSS && kv == 1):
							return "!.restartCount>0", []string{"restartCount"}, true
						}
					}
					return fmt.Sprintf(".restartCount%s%s", b.Op, k.Value.ExactString()), []string{"restartCount"}, true
				}
			}
			return "", nil, false
		},
		Inline: func(callee *ssa.Function) bool {
			return flow.RecvTypeName(callee) == m.typ && callee.Pkg == sp
		},
	}
	// the restart-counter helpers are one-line stores: the store itself is the action, so that the helpers may be written
	// out at their call sites (or introduced where the store was open-coded) without changing the relation
	spec.InstrAction = func(in ssa.Instruction) []string {
		st, ok := in.(*ssa.Store)
		if !ok || !strings.HasSuffix(flow.FieldOwner(st.Addr), m.typ+".restartCount") {
			return nil
		}
		if strings.Contains(flow.FieldOwner(st.Val), "Config.Max") {
			return []string{"call:initializeRestartCount"}
		}
		if k, isK := constInt(st.Val); isK && k == 0 {
			return []string{"call:zeroRestartCount"}
		}
		return nil
	}
	spec.Action = func(call ssa.CallInstruction, resolve func(ssa.Value) string) string {
		com := call.Common()
		if callee := com.StaticCallee(); callee != nil {
			if flow.RecvTypeName(callee) == m.typ && callee.Pkg == sp {
				switch n := callee.Name(); n {
				case "sendConfigureRequest", "sendTerminateRequest", "sendTerminateAck", "initializeRestartCount", "zeroRestartCount", "sendCodeReject", "startTimer", "stopTimer":
					return "call:" + n
				}
				if strings.HasPrefix(callee.Name(), "receive") && call.Parent().Name() == "ReceivePacket" {
					return "handler:" + callee.Name()
				}
			}
			return ""
		}
		// dynamic call of the sendPacket callback: describe the packet
		if strings.HasSuffix(fieldOrigin(com.Value), ".sendPacket") && len(com.Args) == 2 {
			code, id := "?", "?"
			if ser, ok := com.Args[1].(*ssa.Call); ok && len(ser.Call.Args) > 0 {
				if al, ok := ser.Call.Args[0].(*ssa.Alloc); ok {
					for _, r := range *al.Referrers() {
						fa, ok := r.(*ssa.FieldAddr)
						if !ok {
							continue
						}
						fname := fieldVarName(fa)
						for _, rr := range *fa.Referrers() {
							st, ok := rr.(*ssa.Store)
							if !ok || st.Addr != ssa.Value(fa) {
								continue
							}
							switch fname {
							case "Code":
								code = resolve(st.Val)
							case "Identifier":
								switch fo := flow.FieldOwner(st.Val); {
								case strings.HasSuffix(fo, "LCPPacket.Identifier"):
									id = "request"
								case strings.HasSuffix(fo, ".identifier"):
									id = "own"
								default:
									if _, isP := st.Val.(*ssa.Parameter); isP {
										id = "param"
									} else if helperReturnsOwnID(st.Val) {
										id = "own" // identifier handed out by a helper that reads/advances the automaton's own counter
									} else {
										id = "other"
									}
								}
							}
						}
					}
				}
			}
			return "send:code=" + code + ",id=" + id
		}
		return ""
	}
	var rel []transition
	var states []string
	for v := range byVal {
		states = append(states, v)
	}
	sort.Strings(states)
	for _, ev := range events {
		f := c.P.SSAFunc(pkg, m.typ, ev)
		if f == nil {
			c.R.Fatalf("C11: %s.%s not found", m.typ, ev)
			continue
		}
		c.R.Count("functions_analysed", 1)
		for _, sv := range states {
			outs := spec.Run(f, map[string]string{"state": sv})
			for _, o := range outs {
				post := o.Fields["state"]
				pn, ok := byVal[post]
				if !ok {
					pn = "?" + post
				}
				event := ev
				var acts []string
				for _, a := range o.ActList() {
					if strings.HasPrefix(a, "handler:") {
						event = strings.TrimPrefix(a, "handler:")
						continue
					}
					acts = append(acts, a)
				}
				if ev == "ReceivePacket" && event == ev {
					event = "ReceivePacket:nohandler"
				}
				rel = append(rel, transition{Event: event, Pre: byVal[sv], Post: pn, Atoms: o.AtomList(), Acts: acts})
			}
		}
	}
	c.R.Count("esp_steps", spec.Steps)
	return rel, byVal
}

func isNilConst(v ssa.Value) bool {
	c, ok := v.(*ssa.Const)
	return ok && c.Value == nil
}

func fieldVarName(fa *ssa.FieldAddr) string {
	t := fa.X.Type()
	if p, ok := t.Underlying().(*types.Pointer); ok {
		t = p.Elem()
	}
	if s, ok := t.Underlying().(*types.Struct); ok {
		return s.Field(fa.Field).Name()
	}
	return ""
}

// entry points of the automaton; ReceivePacket is analysed whole so that code placed before the per-code handlers
// (prologues hoisted out of them) is part of every packet event; its results are split per handler invoked.
var c11Entries = []string{"Up", "Down", "Open", "Close", "timeout", "ReceivePacket"}

var c11Events = []string{"Up", "Down", "Open", "Close", "timeout", "receiveConfigureRequest", "receiveConfigureAck", "receiveConfigureNak",
	"receiveConfigureReject", "receiveTerminateRequest", "receiveTerminateAck"}

func C11(c *Ctx) {
	r := c.R
	defer c11ParserConsumesAll(c)
	defer c11MatchIdOwner(c)
	r.Explain = "The transition relation of the LCP, IPCP and IPv6CP automata is extracted from /repo's source by a finite-domain disjunctive dataflow analysis (configurations = automaton state × guard atoms (identifier match, restart counter) × actions performed, same-receiver calls summarised) for every (event handler, pre-state) pair, and checked against the safety invariants C11 states: who may enter/leave Opened, freshness of both acknowledgements, stale identifiers ignored, reply identifiers/codes, restart-counter discipline; plus option-list provenance in processConfigureOptions and the ReceivePacket dispatch table.  Complete over the extracted relation; timer/packet races and option byte contents are not decided."
	r.Rule("C11.I0.dispatch", "ReceivePacket dispatches each LCP code to its handler (Configure-Request/Ack/Nak/Reject, Terminate-Request/Ack)", 18)
	r.Rule("C11.I1.enterOpened", "Opened is entered only by RCR+ in Ack-Rcvd (a Configure-Ack echoing the request was sent) or RCA with matching identifier in Ack-Sent", 6)
	r.Rule("C11.I2.leaveOpened", "Down, Close, Configure-Request, matching Ack/Nak/Reject, Terminate-Request and Terminate-Ack leave Opened", 27)
	r.Rule("C11.I3.staleId", "Ack/Nak/Reject with a stale identifier change no state and perform no action", 90)
	r.Rule("C11.I4.replyId", "every reply (Configure-Ack/Nak/Reject, Terminate-Ack, Echo-Reply) echoes the request's identifier; requests use the automaton's own identifier", 60)
	r.Rule("C11.I5.optionLists", "the Ack list repeats received options unchanged, Reject repeats the offending received option, and the reply code selects the matching list", 20)
	r.Rule("C11.I6.restart", "every Configure/Terminate-Request transmission decrements the restart counter; a timeout with the counter exhausted sends nothing, ends in a non-retransmitting state and never re-arms the counter", 30)
	r.Rule("C11.InvA.peerAckFresh", "a transition that (re)sends a Configure-Request does not end in Ack-Rcvd or Opened (the peer has not acknowledged the most recent request)", 60)
	r.Rule("C11.InvB.ownAckFresh", "a Configure-Request answered with Nak/Reject does not end in Ack-Sent or Opened; Ack-Sent is entered only after sending a Configure-Ack", 60)
	r.Rule("C11.InvC.enterAckRcvd", "Ack-Rcvd is entered only by a matching Configure-Ack in Req-Sent", 3)
	r.Rule("C11.I7.siblings", "LCP, IPCP and IPv6CP agree on the transition relation of their common events", 300)
	r.Rule("C11.I8.ipcpAddress", "IPCP puts an IP-Address option on the Ack list only when the requested address equals the address assigned to the session", 1)

	rels := map[string][]transition{}
	for _, m := range c11Machines {
		rel, _ := extractFSM(c, m, c11Entries)
		rels[m.typ] = rel
		r.Count("transitions_extracted", len(rel))
		for i, t := range rel {
			if i%9 == 0 && len(c.R.ListLen("transition_samples")) < 60 {
				c.R.List("transition_samples", m.typ+" "+t.String())
			}
		}
		c11CheckRelation(c, m, rel)
		c11Dispatch(c, m)
		c11Options(c, m)
		c11RestartDiscipline(c, m)
	}
	c11Siblings(c, rels)
}

func fsmPos(c *Ctx, m fsmSpec, ev string) string {
	ev = strings.Split(ev, ":")[0]
	if f := c.P.SSAFunc("pkg/pppoe", m.typ, ev); f != nil {
		return c.P.Pos(f.Pos())
	}
	return "-"
}

const idMismatch = "id!=.lastIdentifier"

func c11CheckRelation(c *Ctx, m fsmSpec, rel []transition) {
	r := c.R
	fn := func(ev string) string { return "pppoe.(*" + m.typ + ")." + ev }
	sendCodes := func(t transition) (acks, naks bool) {
		for _, a := range t.Acts {
			if strings.HasPrefix(a, "send:code=2,") {
				acks = true
			}
			if strings.HasPrefix(a, "send:code=3,") || strings.HasPrefix(a, "send:code=4,") {
				naks = true
			}
		}
		return
	}
	for _, t := range rel {
		key := fmt.Sprintf("%s->%s%v", t.Pre, t.Post, t.Atoms)
		pos := fsmPos(c, m, t.Event)
		acks, naks := sendCodes(t)
		mism := has(t.Atoms, idMismatch)
		match := has(t.Atoms, "!"+idMismatch)
		malformed := has(t.Atoms, "malformed") // the packet's options did not parse: it is discarded, not an event of the automaton
		if malformed {
			r.Check("C11.I3.staleId", fn(t.Event), key+"(malformed)", pos, t.Pre == t.Post && !hasPrefix(t.Acts, "send:") && !hasPrefix(t.Acts, "call:send"), "a malformed packet changes state or triggers a transmission: "+t.String())
			continue
		}
		if t.Event == "ReceivePacket:nohandler" {
			// undecodable packet, Discard-Request, or an unknown code (answered with Code-Reject by LCP): never a state change
			r.Check("C11.I3.staleId", fn("ReceivePacket"), key+"(no handler)", pos, t.Pre == t.Post, "a packet that reaches no handler changes the state: "+t.String())
			continue
		}
		// I1
		if t.Post == "Opened" && t.Pre != "Opened" {
			ok := (t.Event == "receiveConfigureRequest" && t.Pre == "AckRcvd" && acks && !naks) ||
				(t.Event == "receiveConfigureAck" && t.Pre == "AckSent" && match)
			r.Check("C11.I1.enterOpened", fn(t.Event), key, pos, ok, "Opened entered by "+t.String())
		}
		if strings.HasPrefix(t.Post, "?") {
			r.Check("C11.I1.enterOpened", fn(t.Event), key, pos, false, "post-state is not a constant of the state type: "+t.String())
		}
		// I2
		if t.Pre == "Opened" {
			must := false
			switch t.Event {
			case "Down", "Close", "receiveConfigureRequest", "receiveTerminateRequest", "receiveTerminateAck":
				must = true
			case "receiveConfigureAck", "receiveConfigureNak", "receiveConfigureReject":
				must = !mism
			}
			if must {
				r.Check("C11.I2.leaveOpened", fn(t.Event), key, pos, t.Post != "Opened", "stays Opened: "+t.String())
			}
		}
		// I3
		switch t.Event {
		case "receiveConfigureAck", "receiveConfigureNak", "receiveConfigureReject":
			if mism {
				r.Check("C11.I3.staleId", fn(t.Event), key, pos, t.Pre == t.Post && len(t.Acts) == 0, "a packet with a stale identifier has an effect: "+t.String())
			} else if !match {
				r.Check("C11.I3.staleId", fn(t.Event), key, pos, false, "handler path does not test the identifier against the last request: "+t.String())
			} else {
				r.Check("C11.I3.staleId", fn(t.Event), key+"(match)", pos, true, "")
			}
		}
		// I4
		for _, a := range t.Acts {
			if !strings.HasPrefix(a, "send:") {
				continue
			}
			code := strings.TrimPrefix(strings.Split(a, ",")[0], "send:code=")
			id := strings.TrimPrefix(strings.Split(a, ",")[1], "id=")
			ok := true
			switch code {
			case "2", "3", "4", "10":
				ok = id == "request"
			case "6":
				ok = id == "request" || id == "param" // sendTerminateAck(identifier): argument checked at its call sites below
			case "1", "5", "7", "8", "9":
				ok = id == "own"
			default:
				ok = false
			}
			r.Check("C11.I4.replyId", fn(t.Event), t.Pre+":"+a, pos, ok, "packet "+a+" sent with the wrong identifier source in "+t.String())
		}
		// Inv-A
		if has(t.Acts, "call:sendConfigureRequest") {
			r.Check("C11.InvA.peerAckFresh", fn(t.Event), key, pos, t.Post != "AckRcvd" && t.Post != "Opened",
				"a new Configure-Request (new identifier) is sent but the automaton stays in a state that asserts the peer acknowledged our most recent request: "+t.String())
		}
		// Inv-B
		if t.Event == "receiveConfigureRequest" {
			if naks {
				r.Check("C11.InvB.ownAckFresh", fn(t.Event), key+"nak", pos, t.Post != "AckSent" && t.Post != "Opened", "peer's request was Nak'd/Rejected yet the state asserts we acknowledged it: "+t.String())
			}
			if t.Post == "AckSent" || t.Post == "Opened" {
				r.Check("C11.InvB.ownAckFresh", fn(t.Event), key+"ack", pos, acks && !naks, "state asserts our acknowledgement without a Configure-Ack having been sent: "+t.String())
			}
		} else if t.Post == "AckSent" && t.Pre != "AckSent" {
			r.Check("C11.InvB.ownAckFresh", fn(t.Event), key, pos, false, "Ack-Sent entered by an event other than a Configure-Request: "+t.String())
		}
		// Inv-C
		if t.Post == "AckRcvd" && t.Pre != "AckRcvd" {
			r.Check("C11.InvC.enterAckRcvd", fn(t.Event), key, pos, t.Event == "receiveConfigureAck" && t.Pre == "ReqSent" && match, "Ack-Rcvd entered by "+t.String())
		}
		// I6 (relation part)
		if t.Event == "timeout" {
			sends := hasPrefix(t.Acts, "send:")
			if has(t.Atoms, "!.restartCount>0") {
				stopped := t.Post == "Closed" || t.Post == "Stopped" || (t.Post == t.Pre && !isSendingState(t.Pre))
				r.Check("C11.I6.restart", fn(t.Event), key, pos, !sends && stopped, "timeout with the restart counter exhausted still transmits or stays in a retransmitting state: "+t.String())
			} else if sends && !has(t.Atoms, ".restartCount>0") {
				r.Check("C11.I6.restart", fn(t.Event), key, pos, false, "timeout retransmits without testing the restart counter: "+t.String())
			} else {
				r.Check("C11.I6.restart", fn(t.Event), key, pos, true, "")
			}
			r.Check("C11.I6.restart", fn(t.Event), key+":no-rearm", pos, !has(t.Acts, "call:initializeRestartCount"), "timeout re-initialises the restart counter: "+t.String())
		}
	}
}

func isSendingState(s string) bool {
	switch s {
	case "Closing", "Stopping", "ReqSent", "AckRcvd", "AckSent":
		return true
	}
	return false
}

// c11Dispatch: ReceivePacket's calls of the handlers are dominated by pkt.Code == <the handler's code>.
func c11Dispatch(c *Ctx, m fsmSpec) {
	f := c.fn("pkg/pppoe", m.typ, "ReceivePacket")
	if f == nil {
		return
	}
	want := map[string]string{"1": "receiveConfigureRequest", "2": "receiveConfigureAck", "3": "receiveConfigureNak", "4": "receiveConfigureReject", "5": "receiveTerminateRequest", "6": "receiveTerminateAck"}
	if m.typ == "LCPStateMachine" {
		want["7"], want["8"], want["9"], want["10"] = "receiveCodeReject", "receiveProtocolReject", "receiveEchoRequest", "receiveEchoReply"
	}
	found := map[string]bool{}
	for _, call := range flow.Calls(f) {
		g := call.Common().StaticCallee()
		if g == nil || flow.RecvTypeName(g) != m.typ || !strings.HasPrefix(g.Name(), "receive") {
			continue
		}
		code := ""
		for _, ft := range flow.FactsAtInstr(call) {
			b, ok := ft.Cond.(*ssa.BinOp)
			if !ok || b.Op != token.EQL || !ft.Pol {
				continue
			}
			if strings.HasSuffix(flow.FieldOwner(b.X), "LCPPacket.Code") {
				if k, ok := constInt(b.Y); ok {
					code = fmt.Sprint(k)
				}
			}
		}
		ok := code != "" && want[code] == g.Name()
		found[g.Name()] = true
		c.R.Check("C11.I0.dispatch", load.ShortFunc(f), "code "+code+" -> "+g.Name(), c.P.Pos(instrPos(call)), ok, fmt.Sprintf("handler %s is invoked for code %q, expected for code with handler %s", g.Name(), code, want[code]))
	}
	for code, h := range want {
		if !found[h] {
			c.R.Check("C11.I0.dispatch", load.ShortFunc(f), "code "+code+" -> "+h, c.P.Pos(f.Pos()), false, "no dispatch to "+h)
		}
	}
	// sendTerminateAck(identifier) is always handed the request's identifier
	for _, g := range c.moduleFuncs() {
		if flow.RecvTypeName(g) != m.typ {
			continue
		}
		for _, call := range flow.Calls(g) {
			callee := call.Common().StaticCallee()
			if callee == nil || callee.Name() != "sendTerminateAck" || flow.RecvTypeName(callee) != m.typ {
				continue
			}
			arg := call.Common().Args[1]
			ok := strings.HasSuffix(flow.FieldOwner(arg), "LCPPacket.Identifier")
			c.R.Check("C11.I4.replyId", load.ShortFunc(g), "sendTerminateAck(request id)", c.P.Pos(instrPos(call)), ok, "Terminate-Ack is not sent with the identifier of the packet being answered")
		}
	}
}

// c11RestartDiscipline: restartCount-- on every path of the request senders; initializeRestartCount loads a config maximum.
func c11RestartDiscipline(c *Ctx, m fsmSpec) {
	for _, name := range []string{"sendConfigureRequest", "sendTerminateRequest"} {
		f := c.fn("pkg/pppoe", m.typ, name)
		if f == nil {
			continue
		}
		// a store restartCount := restartCount - 1 whose block dominates every return
		ok := false
		flow.Instrs(f, func(in ssa.Instruction) {
			st, isSt := in.(*ssa.Store)
			if !isSt || !strings.HasSuffix(flow.FieldOwner(st.Addr), ".restartCount") {
				return
			}
			b, isB := st.Val.(*ssa.BinOp)
			if !isB || b.Op != token.SUB || !strings.HasSuffix(flow.FieldOwner(b.X), ".restartCount") {
				return
			}
			if k, isK := constInt(b.Y); !isK || k != 1 {
				return
			}
			all := true
			for _, blk := range f.Blocks {
				if _, isRet := blk.Instrs[len(blk.Instrs)-1].(*ssa.Return); isRet && blk != f.Recover {
					if !(st.Block() == blk || st.Block().Dominates(blk)) {
						all = false
					}
				}
			}
			if all {
				ok = true
			}
		})
		c.R.Check("C11.I6.restart", load.ShortFunc(f), "restartCount-- on every path", c.P.Pos(f.Pos()), ok, "a (re)transmission does not decrement the restart counter on every path")
	}
	// the counter is (re)initialised from the configured maximum: in the helper when there is one, else wherever the
	// machine stores a non-constant, non-decrement value into it
	if f := c.P.SSAFunc("pkg/pppoe", m.typ, "initializeRestartCount"); f != nil && len(f.Blocks) > 0 {
		ok := false
		flow.Instrs(f, func(in ssa.Instruction) {
			if st, isSt := in.(*ssa.Store); isSt && strings.HasSuffix(flow.FieldOwner(st.Addr), ".restartCount") {
				src := flow.FieldOwner(st.Val)
				if strings.Contains(src, "Config.Max") {
					ok = true
				}
			}
		})
		c.R.Check("C11.I6.restart", load.ShortFunc(f), "restartCount := configured maximum", c.P.Pos(f.Pos()), ok, "the restart counter is not initialised from the configured Max-Configure/Max-Terminate")
	} else {
		n, bad := 0, ""
		for _, g := range c.moduleFuncs() {
			if flow.RecvTypeName(g) != m.typ {
				continue
			}
			flow.Instrs(g, func(in ssa.Instruction) {
				st, isSt := in.(*ssa.Store)
				if !isSt || !strings.HasSuffix(flow.FieldOwner(st.Addr), m.typ+".restartCount") {
					return
				}
				if _, isK := st.Val.(*ssa.Const); isK {
					return
				}
				if bo, isB := st.Val.(*ssa.BinOp); isB && bo.Op == token.SUB {
					return
				}
				if strings.Contains(flow.FieldOwner(st.Val), "Config.Max") {
					n++
					return
				}
				bad = c.P.Pos(instrPos(st))
			})
		}
		c.R.Check("C11.I6.restart", "pppoe.(*"+m.typ+")", "restartCount := configured maximum", "-", n > 0 && bad == "", "the restart counter is not (only) initialised from the configured Max-Configure/Max-Terminate "+bad)
	}
}

// c11Options: provenance of the ack / nak / reject lists.
func c11Options(c *Ctx, m fsmSpec) {
	f := c.fn("pkg/pppoe", m.typ, "processConfigureOptions")
	h := c.fn("pkg/pppoe", m.typ, "receiveConfigureRequest")
	if f == nil || h == nil {
		return
	}
	// result index -> values flowing into it
	var ret *ssa.Return
	for _, b := range f.Blocks {
		if rt, ok := b.Instrs[len(b.Instrs)-1].(*ssa.Return); ok && b != f.Recover {
			ret = rt
		}
	}
	if ret == nil || len(ret.Results) != 3 {
		c.R.Fatalf("C11.I5: %s does not return (ack, nak, reject)", load.ShortFunc(f))
		return
	}
	opts := f.Params[1]
	for idx, list := range []string{"ack", "nak", "reject"} {
		seen := map[ssa.Value]bool{}
		var appends []*ssa.Call
		var walk func(v ssa.Value)
		walk = func(v ssa.Value) {
			if seen[v] {
				return
			}
			seen[v] = true
			switch x := v.(type) {
			case *ssa.Phi:
				for _, e := range x.Edges {
					walk(e)
				}
			case *ssa.Call:
				if b, ok := x.Call.Value.(*ssa.Builtin); ok && b.Name() == "append" {
					appends = append(appends, x)
					walk(x.Call.Args[0])
				}
			}
		}
		walk(ret.Results[idx])
		sort.Slice(appends, func(i, j int) bool { return appends[i].Pos() < appends[j].Pos() })
		for _, ap := range appends {
			elem := appendedElem(ap)
			received := isReceivedOption(elem, opts)
			caseType := optionCase(ap)
			switch list {
			case "ack", "reject":
				c.R.Check("C11.I5.optionLists", load.ShortFunc(f), list+" append (option type "+caseType+")", c.P.Pos(instrPos(ap)), received,
					"the "+list+" list receives something other than the received option unchanged")
			case "nak":
				// a Nak carries a constructed option of the same type as the offending one
				okType := false
				if al := allocOf(elem); al != nil {
					for _, rf := range *al.Referrers() {
						fa, ok := rf.(*ssa.FieldAddr)
						if !ok || fieldVarName(fa) != "Type" {
							continue
						}
						for _, rr := range *fa.Referrers() {
							if st, ok := rr.(*ssa.Store); ok {
								if k, ok := constInt(st.Val); ok && fmt.Sprint(k) == caseType {
									okType = true
								}
							}
						}
					}
				}
				c.R.Check("C11.I5.optionLists", load.ShortFunc(f), "nak append (option type "+caseType+")", c.P.Pos(instrPos(ap)), okType,
					"a Nak option is not of the type of the option being refused")
				if m.typ == "IPCPStateMachine" && caseType == "3" {
					// a Nak for the IP address must suggest the assigned address
				}
			}
			// I8
			if m.typ == "IPCPStateMachine" && list == "ack" && caseType == "3" {
				okEq := false
				for _, ft := range flow.FactsAtInstr(ap) {
					call, ok := ft.Cond.(*ssa.Call)
					if !ok || !ft.Pol {
						continue
					}
					if g := call.Call.StaticCallee(); g != nil && g.Name() == "Equal" && flow.RecvTypeName(g) == "IP" {
						for _, a := range call.Call.Args {
							if strings.HasSuffix(flow.FieldOwner(a), "IPCPConfig.PeerIP") {
								okEq = true
							}
						}
					}
				}
				c.R.Check("C11.I8.ipcpAddress", load.ShortFunc(f), "ack of IP-Address", c.P.Pos(instrPos(ap)), okEq,
					"the IP-Address option is acknowledged on a path where requestedIP.Equal(config.PeerIP) has not been established (e.g. config.PeerIP == nil acknowledges any address)")
			}
		}
	}
	// reply code selects the matching list: the φ pair (respCode, respOpts) in receiveConfigureRequest
	var call *ssa.Call
	for _, ci := range flow.Calls(h) {
		if ci.Common().StaticCallee() == f {
			call, _ = ci.(*ssa.Call)
		}
	}
	if call == nil {
		c.R.Fatalf("C11.I5: %s does not call processConfigureOptions", load.ShortFunc(h))
		return
	}
	want := map[int64]int{2: 0, 3: 1, 4: 2} // Ack↔ack, Nak↔nak, Reject↔reject
	checked := 0
	flow.Instrs(h, func(in ssa.Instruction) {
		codePhi, ok := in.(*ssa.Phi)
		if !ok || len(codePhi.Edges) != 3 {
			return
		}
		var listPhi *ssa.Phi
		for _, in2 := range codePhi.Block().Instrs {
			if p2, ok := in2.(*ssa.Phi); ok && p2 != codePhi && len(p2.Edges) == 3 {
				if _, isSl := p2.Type().Underlying().(*types.Slice); isSl {
					listPhi = p2
				}
			}
		}
		if listPhi == nil {
			return
		}
		for i, e := range codePhi.Edges {
			k, isK := constInt(e)
			if !isK {
				return
			}
			ex, isEx := listPhi.Edges[i].(*ssa.Extract)
			ok := isEx && ex.Tuple == ssa.Value(call) && want[k] == ex.Index
			if _, known := want[k]; !known {
				ok = false
			}
			checked++
			c.R.Check("C11.I5.optionLists", load.ShortFunc(h), fmt.Sprintf("code %d carries its own list", k), c.P.Pos(h.Pos()), ok, "the reply code is paired with the wrong option list")
		}
	})
	if checked == 0 {
		c.R.Check("C11.I5.optionLists", load.ShortFunc(h), "reply code/list pairing", c.P.Pos(h.Pos()), false, "could not find the (code, option list) selection")
	}
}

// isReceivedOption: v is an element of the received option slice, or a load of a local copy of one that is never modified.
func isReceivedOption(v ssa.Value, opts ssa.Value) bool {
	ld, ok := v.(*ssa.UnOp)
	if !ok || ld.Op != token.MUL {
		return false
	}
	if ia, ok := ld.X.(*ssa.IndexAddr); ok {
		return ia.X == opts
	}
	al, ok := ld.X.(*ssa.Alloc)
	if !ok {
		return false
	}
	stores := 0
	fromOpts := false
	for _, r := range *al.Referrers() {
		switch x := r.(type) {
		case *ssa.Store:
			if x.Addr != ssa.Value(al) {
				return false // the local's address is stored somewhere
			}
			stores++
			fromOpts = isReceivedOption(x.Val, opts)
		case *ssa.UnOp, *ssa.DebugRef:
		case *ssa.FieldAddr:
			for _, rr := range *x.Referrers() {
				switch y := rr.(type) {
				case *ssa.UnOp, *ssa.DebugRef:
				case *ssa.Store:
					if y.Addr == ssa.Value(x) {
						return false // a field of the copy is overwritten
					}
				default:
					return false
				}
			}
		default:
			return false
		}
	}
	return stores == 1 && fromOpts
}

// appendedElem: for append(list, x) lowered to a one-element array slice, return the value stored into element 0.
func appendedElem(ap *ssa.Call) ssa.Value {
	if len(ap.Call.Args) < 2 {
		return nil
	}
	sl, ok := ap.Call.Args[1].(*ssa.Slice)
	if !ok {
		return nil
	}
	al, ok := sl.X.(*ssa.Alloc)
	if !ok {
		return nil
	}
	for _, r := range *al.Referrers() {
		ia, ok := r.(*ssa.IndexAddr)
		if !ok {
			continue
		}
		for _, rr := range *ia.Referrers() {
			if st, ok := rr.(*ssa.Store); ok && st.Addr == ssa.Value(ia) {
				return st.Val
			}
		}
	}
	return nil
}

func allocOf(v ssa.Value) *ssa.Alloc {
	if ld, ok := v.(*ssa.UnOp); ok && ld.Op == token.MUL {
		if al, ok := ld.X.(*ssa.Alloc); ok {
			return al
		}
	}
	return nil
}

// optionCase: the constant the option's Type field is known to equal at the instruction ("" if none).
func optionCase(in ssa.Instruction) string {
	for _, ft := range flow.FactsAtInstr(in) {
		b, ok := ft.Cond.(*ssa.BinOp)
		if !ok || b.Op != token.EQL || !ft.Pol {
			continue
		}
		if strings.HasSuffix(flow.FieldOwner(b.X), "LCPOption.Type") {
			if k, ok := constInt(b.Y); ok {
				return fmt.Sprint(k)
			}
		}
	}
	return "other"
}

// c11Siblings: the three automata agree on common events.
func c11Siblings(c *Ctx, rels map[string][]transition) {
	norm := func(rel []transition) map[string]string {
		tmp := map[string]map[string]bool{}
		for _, t := range rel {
			if has(t.Atoms, "malformed") {
				continue // discarded packets: not every sibling parses options in every handler
			}
			var atoms []string
			for _, a := range t.Atoms {
				if a == "!malformed" {
					continue
				}
				// the restart-counter tests inside initializeRestartCount (IPCP/IPv6CP default a zero maximum) are not part of the automaton
				if strings.Contains(a, ".restartCount") && t.Event != "timeout" {
					continue
				}
				atoms = append(atoms, a)
			}
			var acts []string
			for _, a := range t.Acts {
				if strings.HasPrefix(a, "send:") || strings.HasPrefix(a, "call:send") || a == "call:initializeRestartCount" || a == "call:zeroRestartCount" {
					acts = append(acts, a)
				}
			}
			k := fmt.Sprintf("%s|%s|%v", t.Event, t.Pre, atoms)
			if tmp[k] == nil {
				tmp[k] = map[string]bool{}
			}
			tmp[k][fmt.Sprintf("->%s%v", t.Post, acts)] = true
		}
		out := map[string]string{}
		for k, set := range tmp {
			var l []string
			for v := range set {
				l = append(l, v)
			}
			sort.Strings(l)
			out[k] = strings.Join(l, ";")
		}
		return out
	}
	base := norm(rels["LCPStateMachine"])
	common := map[string]bool{}
	for _, e := range c11Events {
		common[e] = true
	}
	for _, other := range []string{"IPCPStateMachine", "IPV6CPStateMachine"} {
		o := norm(rels[other])
		keys := map[string]bool{}
		for k := range base {
			keys[k] = true
		}
		for k := range o {
			keys[k] = true
		}
		var ks []string
		for k := range keys {
			if common[strings.Split(k, "|")[0]] {
				ks = append(ks, k)
			}
		}
		sort.Strings(ks)
		for _, k := range ks {
			c.R.Check("C11.I7.siblings", "pppoe.(*"+other+")", k, "-", base[k] == o[k], fmt.Sprintf("LCP: %s   %s: %s", base[k], other, o[k]))
		}
	}
}

// helperReturnsOwnID: v is a call of a module function each of whose results derives from the automaton's own
// identifier counter (field ".identifier") and from nothing of a received packet.
func helperReturnsOwnID(v ssa.Value) bool {
	call, ok := v.(*ssa.Call)
	if !ok {
		return false
	}
	g := call.Call.StaticCallee()
	if g == nil || !load.InModule(g) || len(g.Blocks) == 0 {
		return false
	}
	found := false
	for _, b := range g.Blocks {
		ret, ok := b.Instrs[len(b.Instrs)-1].(*ssa.Return)
		if !ok || b == g.Recover {
			continue
		}
		for _, rv := range flow.ReturnValues(ret) {
			if !dependsOnField(rv, ".identifier", map[ssa.Value]bool{}) || dependsOnField(rv, "LCPPacket.Identifier", map[ssa.Value]bool{}) {
				return false
			}
			found = true
		}
	}
	return found
}
