package engines

import (
	"fmt"
	"go/token"
	"go/types"
	"sort"
	"strings"

	"bngvet/internal/esp"
	"bngvet/internal/flow"
	"bngvet/internal/load"

	"golang.org/x/tools/go/ssa"
)

func init() { Registry["C04"] = C04 }

func C04(c *Ctx) {
	r := c.R
	defer c04Detached(c)
	const pkg = "pkg/pppoe"
	r.Explain = "The PPPoE server's per-session handlers are analysed by finite-domain disjunctive dataflow over (session state, authenticated flag) for every pre-configuration: a session is reported established, is assigned a client address, or has an IPCP reply sent only in configurations where its authenticated flag is true; the flag itself is set from the RADIUS verdict of this session's own PAP exchange (value-provenance of the store); session and PADT frames are handed to any per-session code only under an equality test between the frame's source MAC and the session's client MAC.  CHAP arithmetic and timing are not decided."
	r.Rule("C04.G1.establishedAuth", "no handler leaves a session in the established state with the authenticated flag false", 20)
	r.Rule("C04.G2.addressAuth", "a client address is assigned only in configurations where the session is authenticated", 4)
	r.Rule("C04.G3.ipcpAuth", "an IPCP Configure-Ack/Nak is sent only in configurations where the session is authenticated", 4)
	r.Rule("C04.G4.verdictProvenance", "the authenticated flag is stored from the RADIUS verdict of this exchange (Accepted under err==nil and a non-nil response); a constant true only when no RADIUS client is configured", 1)
	r.Rule("C04.G5.ownerMAC", "in the session-frame and PADT handlers every use of the looked-up session is dominated by bytes.Equal(source MAC, session.ClientMAC)", 6)

	sp := c.P.SSAPkg(pkg)
	tn, _ := sp.Pkg.Scope().Lookup("Session").(*types.TypeName)
	if tn == nil {
		r.Fatal("C04: pppoe.Session not found")
		return
	}
	states, _ := enumConsts(sp.Pkg, "SessionState", "State")
	if len(states) < 5 {
		r.Fatalf("C04: expected the session state constants, found %d", len(states))
		return
	}
	established := ""
	for v, n := range states {
		if n == "Established" {
			established = v
		}
	}
	spec := &esp.Spec{
		Recv:   tn.Type().(*types.Named),
		Fields: map[string]bool{"State": true, "Authenticated": true},
		Atom:   guardName,
		Inline: func(callee *ssa.Function) bool {
			if callee.Pkg != sp || len(callee.Blocks) == 0 {
				return false
			}
			rt := flow.RecvTypeName(callee)
			return rt == "Server" || rt == "Session"
		},
	}
	spec.MultiAction = func(call ssa.CallInstruction) []string {
		var out []string
		if flow.CalleeIs(call, pkg, "IPPool", "Allocate") {
			out = append(out, "assign-address")
		}
		if flow.CalleeIs(call, pkg, "Server", "sendPPPPacket") {
			if k, ok := constInt(call.Common().Args[2]); ok {
				out = append(out, fmt.Sprintf("send:proto=0x%04X", k))
			}
		}
		return out
	}
	entries := []string{"handleLCP", "handlePAP", "handleIPCP", "handleIPPacket", "startIPCPNegotiation", "handleIPCPConfigRequest", "handleIPCPConfigAck", "handleLCPTermRequest"}
	var sv []string
	for v := range states {
		sv = append(sv, v)
	}
	sort.Strings(sv)
	for _, en := range entries {
		// the dispatchers are mandatory anchors; the inner handlers are analysed when they exist as functions of their own
		// (inlined into a dispatcher, by hand or by the pre-pass, they are covered by the dispatcher's rows)
		var f *ssa.Function
		if en == "handleLCP" || en == "handlePAP" || en == "handleIPCP" || en == "handleIPPacket" {
			f = c.fn(pkg, "Server", en)
		} else {
			f = c.P.SSAFunc(pkg, "Server", en)
		}
		if f == nil || len(f.Blocks) == 0 {
			continue
		}
		// only the dispatchers reachable from handleSession are entry points of the frame alphabet; the inner handlers
		// are analysed too so that a gate placed in a dispatcher is not the only line of defence that is visible
		top := en == "handleLCP" || en == "handlePAP" || en == "handleIPCP" || en == "handleIPPacket"
		for _, s0 := range sv {
			for _, a0 := range []string{"true", "false"} {
				if !top && a0 == "false" {
					continue // inner handlers are only reached through a dispatcher; their unauthenticated behaviour is the dispatcher's row
				}
				if s0 == established && a0 == "false" {
					continue // excluded by the invariant itself (G1 is inductive: no handler produces this configuration)
				}
				for _, o := range spec.Run(f, map[string]string{"State": s0, "Authenticated": a0}) {
					st, au := o.Fields["State"], o.Fields["Authenticated"]
					key := fmt.Sprintf("(%s,auth=%s)->(%s,auth=%s)%v", states[s0], a0, stateName(states, st), au, o.AtomList())
					if st == established {
						r.Check("C04.G1.establishedAuth", load.ShortFunc(f), key, c.P.Pos(f.Pos()), au == "true" && (s0 == established || a0 == "true" || has(o.ActList(), "set:Authenticated")),
							"session ends in Established with authenticated="+au+": "+key+" acts="+fmt.Sprint(o.ActList()))
					}
					if has(o.ActList(), "assign-address") {
						r.Check("C04.G2.addressAuth", load.ShortFunc(f), key, c.P.Pos(f.Pos()), au == "true", "a client address is taken from the pool for a session whose authenticated flag is "+au+": "+key)
					}
					if has(o.ActList(), "send:proto=0x8021") {
						r.Check("C04.G3.ipcpAuth", load.ShortFunc(f), key, c.P.Pos(f.Pos()), au == "true", "an IPCP packet is sent for a session whose authenticated flag is "+au+": "+key)
					}
				}
			}
		}
	}
	r.Count("esp_steps", spec.Steps)

	// ---- G4: provenance of the Authenticated store
	n := 0
	for _, f := range c.moduleFuncs() {
		if f.Pkg != sp {
			continue
		}
		flow.Instrs(f, func(in ssa.Instruction) {
			st, ok := in.(*ssa.Store)
			if !ok || !strings.HasSuffix(flow.FieldOwner(st.Addr), "Session.Authenticated") {
				return
			}
			n++
			ok2, why := verdictValue(st.Val, st.Block(), 0)
			r.Check("C04.G4.verdictProvenance", load.ShortFunc(f), "session.Authenticated = <verdict>", c.P.Pos(instrPos(st)), ok2, why)
		})
	}
	if n == 0 {
		r.Check("C04.G4.verdictProvenance", "pppoe", "stores", "-", false, "no store to Session.Authenticated found")
	}

	// ---- G5: owner MAC
	for _, name := range []string{"handleSession", "handlePADT"} {
		f := c.fn(pkg, "Server", name)
		if f == nil {
			continue
		}
		// the looked-up session value
		var sess ssa.Value
		for _, call := range flow.Calls(f) {
			if flow.CalleeIs(call, pkg, "SessionManager", "GetSession") {
				sess = call.(ssa.Value)
			}
		}
		if sess == nil {
			r.Check("C04.G5.ownerMAC", load.ShortFunc(f), "session lookup", c.P.Pos(f.Pos()), false, "no session lookup found")
			continue
		}
		uses := 0
		for _, call := range flow.Calls(f) {
			usesSess := false
			for _, a := range call.Common().Args {
				if a == sess {
					usesSess = true
				}
				if fo := flow.FieldOwner(a); strings.HasPrefix(fo, "Session.") && !strings.HasSuffix(fo, "Session.ClientMAC") {
					usesSess = true
				}
			}
			if g := call.Common().StaticCallee(); g != nil && g.Name() == "Equal" {
				continue
			}
			if !usesSess {
				continue
			}
			uses++
			gated := false
			for _, ft := range flow.FactsAtInstr(call) {
				if cc, ok := ft.Cond.(*ssa.Call); ok && ft.Pol {
					if g := cc.Call.StaticCallee(); g != nil && g.Name() == "Equal" && g.Pkg != nil && g.Pkg.Pkg.Path() == "bytes" {
						hasParam, hasOwner := false, false
						for _, a := range cc.Call.Args {
							for {
								if ct, ok := a.(*ssa.ChangeType); ok {
									a = ct.X
									continue
								}
								break
							}
							if isParam(a) {
								hasParam = true
							}
							if strings.HasSuffix(flow.FieldOwner(a), "Session.ClientMAC") {
								hasOwner = true
							}
						}
						if hasParam && hasOwner {
							gated = true
						}
					}
				}
			}
			desc := "call"
			if g := call.Common().StaticCallee(); g != nil {
				desc = g.Name()
			}
			r.Check("C04.G5.ownerMAC", load.ShortFunc(f), "use of session in "+desc, c.P.Pos(instrPos(call)), gated, "the session found by id is used without having compared the frame's source MAC with the session's client MAC: a foreign host can drive or terminate this session")
		}
		if uses == 0 {
			r.Check("C04.G5.ownerMAC", load.ShortFunc(f), "uses", c.P.Pos(f.Pos()), false, "the handler never uses the session it looks up — anchors moved?")
		}
	}
}

func stateName(states map[string]string, v string) string {
	if n, ok := states[v]; ok {
		return n
	}
	return "?" + v
}

// verdictValue: v is false, or AuthResponse.Accepted (RADIUS verdict), or true only where no RADIUS client is configured;
// φ-nodes are followed edge by edge.
func verdictValue(v ssa.Value, at *ssa.BasicBlock, depth int) (bool, string) {
	return verdictValueVia(v, at, nil, depth)
}

// via: the block the value flows into next (a φ's block), so that the fact of the edge at→via counts as well
func verdictValueVia(v ssa.Value, at, via *ssa.BasicBlock, depth int) (bool, string) {
	if depth > 6 {
		return false, "verdict expression too deep"
	}
	switch x := v.(type) {
	case *ssa.Const:
		if isConstBool(x, false) {
			return true, ""
		}
		if isConstBool(x, true) {
			// only when radiusClient == nil
			facts := flow.FactsAt(at)
			if via != nil {
				if ef, ok := flow.EdgeFact(at, via); ok {
					facts = append(facts, ef)
				}
			}
			for _, ft := range facts {
				if name, _, ok := guardName(ft.Cond); ok {
					if (name == "Server.radiusClient!=nil" && !ft.Pol) || (name == "Server.radiusClient==nil" && ft.Pol) ||
						(name == "Authenticator.radiusClient!=nil" && !ft.Pol) || (name == "Authenticator.radiusClient==nil" && ft.Pol) {
						return true, ""
					}
				}
			}
			return false, "the flag is set to a constant true on a path where a RADIUS client may be configured (the verdict is not RADIUS's)"
		}
	case *ssa.Phi:
		for i, e := range x.Edges {
			if ok, why := verdictValueVia(e, x.Block().Preds[i], x.Block(), depth+1); !ok {
				return false, why
			}
		}
		return true, ""
	case *ssa.UnOp:
		if x.Op == token.MUL && strings.HasSuffix(flow.FieldOwner(x), "AuthResponse.Accepted") {
			return true, ""
		}
		if x.Op == token.MUL {
			if al, ok := x.X.(*ssa.Alloc); ok {
				for _, rf := range *al.Referrers() {
					if st, ok := rf.(*ssa.Store); ok && st.Addr == ssa.Value(al) {
						if ok2, why := verdictValue(st.Val, st.Block(), depth+1); !ok2 {
							return false, why
						}
					}
				}
				return true, ""
			}
		}
	case *ssa.Parameter:
		return true, "" // helper taking the verdict: its callers are checked where they store
	}
	return false, "the authenticated flag is stored from a value that is neither false, the RADIUS response's Accepted field, nor true-without-RADIUS (" + v.String() + ")"
}
