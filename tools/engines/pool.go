package engines

import (
	"fmt"
	"go/token"
	"go/types"
	"sort"
	"strings"

	"bngvet/internal/esp"
	"bngvet/internal/flow"
	"bngvet/internal/load"
	"bngvet/internal/locks"

	"golang.org/x/tools/go/ssa"
)

// guardSpec: a struct type whose listed fields are protected by one of its mutex fields.
type guardSpec struct {
	rel, typ string
	mutex    string
	fields   []string
	exempt   map[string]string // function name -> reason it may touch the state without the lock
}

type fieldAccess struct {
	in    ssa.Instruction // the instruction that performs the access (Store, load, MapUpdate, Lookup, delete, range, ...)
	base  ssa.Value       // the *T value whose field is accessed
	field string
	write bool
}

// accessesOf lists the accesses to the named fields of struct type typ in f.
func accessesOf(f *ssa.Function, typ *types.Named, fields map[string]bool) []fieldAccess {
	var out []fieldAccess
	flow.Instrs(f, func(in ssa.Instruction) {
		fa, ok := in.(*ssa.FieldAddr)
		if !ok {
			return
		}
		pt, ok := fa.X.Type().Underlying().(*types.Pointer)
		if !ok {
			return
		}
		nt, ok := pt.Elem().(*types.Named)
		if !ok || nt.Obj() != typ.Obj() {
			return
		}
		name := nt.Underlying().(*types.Struct).Field(fa.Field).Name()
		if !fields[name] {
			return
		}
		for _, rf := range *fa.Referrers() {
			switch x := rf.(type) {
			case *ssa.Store:
				if x.Addr == ssa.Value(fa) {
					out = append(out, fieldAccess{x, fa.X, name, true})
				}
			case *ssa.UnOp:
				// loaded map/slice/pointer/scalar: classify by what is done with the loaded value
				wrote := false
				for _, use := range *x.Referrers() {
					switch u := use.(type) {
					case *ssa.MapUpdate:
						if u.Map == ssa.Value(x) {
							out = append(out, fieldAccess{u, fa.X, name, true})
							wrote = true
						}
					case *ssa.Call:
						if b, ok := u.Call.Value.(*ssa.Builtin); ok && b.Name() == "delete" && u.Call.Args[0] == ssa.Value(x) {
							out = append(out, fieldAccess{u, fa.X, name, true})
							wrote = true
						} else if !ok {
							// method call on the loaded pointer (big.Int mutators etc.) — treated as a read of the field
							out = append(out, fieldAccess{u, fa.X, name, false})
							wrote = true
						}
					case *ssa.Lookup:
						out = append(out, fieldAccess{use, fa.X, name, false})
						wrote = true
						// nested map: m.f[k1][k2] = v / delete(m.f[k1], k2) write the structure the field owns
						inner := []ssa.Value{u}
						if u.CommaOk {
							inner = nil
							for _, r2 := range *u.Referrers() {
								if ex, ok := r2.(*ssa.Extract); ok && ex.Index == 0 {
									inner = append(inner, ex)
								}
							}
						}
						for _, iv := range inner {
							for _, r2 := range *iv.Referrers() {
								switch w := r2.(type) {
								case *ssa.MapUpdate:
									if w.Map == iv {
										out = append(out, fieldAccess{w, fa.X, name, true})
									}
								case *ssa.Call:
									if b, ok := w.Call.Value.(*ssa.Builtin); ok && b.Name() == "delete" && w.Call.Args[0] == iv {
										out = append(out, fieldAccess{w, fa.X, name, true})
									}
								}
							}
						}
					case *ssa.Range, *ssa.IndexAddr, *ssa.Slice:
						out = append(out, fieldAccess{use, fa.X, name, false})
						wrote = true
					}
				}
				if !wrote {
					out = append(out, fieldAccess{x, fa.X, name, false})
				}
			}
		}
	})
	return out
}

// locksetRule: every access to a guarded field happens with the struct's mutex held (write mode for writes), in the
// function itself or — for helpers — at every call site of the helper.
func locksetRule(c *Ctx, rule string, specs []guardSpec) {
	cg := c.P.CallGraph()
	held := map[*ssa.Function]*locks.Held{}
	heldOf := func(f *ssa.Function) *locks.Held {
		if h, ok := held[f]; ok {
			return h
		}
		h := locks.Analyze(f)
		held[f] = h
		return h
	}
	// callersHold: every module call site of f holds path `mutex` on the argument bound to f's parameter idx
	var callersHold func(f *ssa.Function, idx int, mutex string, write bool, depth int, seen map[*ssa.Function]bool) (bool, string)
	callersHold = func(f *ssa.Function, idx int, mutex string, write bool, depth int, seen map[*ssa.Function]bool) (bool, string) {
		if seen[f] {
			return true, ""
		}
		seen[f] = true
		if depth > 5 {
			return false, "call chain too deep"
		}
		if f.Parent() != nil {
			// closure: its free variable root is the enclosing function's business — treat the enclosing function as the caller
			return false, "accessed from a closure without the lock"
		}
		node := cg.Nodes[f]
		n := 0
		if node != nil {
			for _, e := range node.In {
				if e.Site == nil || !load.InModule(e.Caller.Func) {
					continue
				}
				n++
				caller := e.Caller.Func
				args := e.Site.Common().Args
				if e.Site.Common().IsInvoke() {
					args = append([]ssa.Value{e.Site.Common().Value}, args...)
				}
				if idx >= len(args) {
					return false, "cannot map receiver at call site in " + load.ShortFunc(caller)
				}
				arg := args[idx]
				mode := locks.Mode(0)
				if write {
					mode = locks.Write
				}
				if heldOf(caller).Holds(e.Site, arg, mutex, mode) {
					continue
				}
				if _, fresh := arg.(*ssa.Alloc); fresh {
					continue // object under construction
				}
				if p, ok := arg.(*ssa.Parameter); ok {
					if ok2, why := callersHold(caller, paramIndex(caller, p), mutex, write, depth+1, seen); ok2 {
						continue
					} else {
						return false, why
					}
				}
				return false, "called from " + load.ShortFunc(caller) + " without the lock"
			}
		}
		if n == 0 {
			if f.Object() != nil && f.Object().Exported() {
				return false, "exported function, no caller holds the lock"
			}
			return true, "" // unexported and never called: dead code
		}
		return true, ""
	}
	for _, sp := range specs {
		pk := c.P.SSAPkg(sp.rel)
		if pk == nil {
			c.R.Fatalf("%s: package %s not loaded", rule, sp.rel)
			continue
		}
		tn, _ := pk.Pkg.Scope().Lookup(sp.typ).(*types.TypeName)
		if tn == nil {
			c.R.Fatalf("%s: type %s.%s not found", rule, sp.rel, sp.typ)
			continue
		}
		named := tn.Type().(*types.Named)
		st := named.Underlying().(*types.Struct)
		fields := map[string]bool{}
		haveMutex := false
		for i := 0; i < st.NumFields(); i++ {
			if st.Field(i).Name() == sp.mutex {
				haveMutex = true
			}
		}
		for _, f := range sp.fields {
			fields[f] = true
		}
		if !haveMutex {
			c.R.Check(rule, sp.typ, "mutex field "+sp.mutex, "-", false, "type "+sp.typ+" has no mutex field "+sp.mutex+" guarding "+strings.Join(sp.fields, ","))
			continue
		}
		type key struct {
			f     *ssa.Function
			field string
		}
		bad := map[key]string{}
		seenFn := map[key]bool{}
		for _, f := range c.moduleFuncs() {
			accs := accessesOf(f, named, fields)
			if len(accs) == 0 {
				continue
			}
			if why, ok := sp.exempt[f.Name()]; ok && flow.RecvTypeName(f) == sp.typ {
				c.R.Note(fmt.Sprintf("%s: %s exempt (%s)", rule, load.ShortFunc(f), why))
				continue
			}
			h := heldOf(f)
			for _, a := range accs {
				k := key{f, a.field}
				seenFn[k] = true
				if _, fresh := a.base.(*ssa.Alloc); fresh {
					continue // the object is being constructed here
				}
				mode := locks.Mode(0)
				if a.write {
					mode = locks.Write
				}
				if h.Holds(a.in, a.base, sp.mutex, mode) {
					continue
				}
				// value receivers / copies: a load of the whole struct is not tracked
				p, isParam := a.base.(*ssa.Parameter)
				if !isParam {
					if fv, isFV := a.base.(*ssa.FreeVar); isFV {
						_ = fv
						bad[k] = "accessed in a closure without holding " + sp.mutex + " at " + c.P.Pos(instrPos(a.in))
						continue
					}
					if freshFromCtor(a.base) {
						continue
					}
					bad[k] = fmt.Sprintf("%s of %s.%s at %s without holding %s", rw(a.write), sp.typ, a.field, c.P.Pos(instrPos(a.in)), sp.mutex)
					continue
				}
				ok, why := callersHold(f, paramIndex(f, p), sp.mutex, a.write, 0, map[*ssa.Function]bool{})
				if !ok {
					bad[k] = fmt.Sprintf("%s of %s.%s at %s without holding %s (%s)", rw(a.write), sp.typ, a.field, c.P.Pos(instrPos(a.in)), sp.mutex, why)
				}
			}
		}
		var keys []key
		for k := range seenFn {
			keys = append(keys, k)
		}
		sort.Slice(keys, func(i, j int) bool {
			if keys[i].f.String() != keys[j].f.String() {
				return keys[i].f.String() < keys[j].f.String()
			}
			return keys[i].field < keys[j].field
		})
		for _, k := range keys {
			c.R.Check(rule, load.ShortFunc(k.f), sp.typ+"."+k.field+" under "+sp.mutex, c.P.Pos(k.f.Pos()), bad[k] == "", bad[k])
		}
	}
}

func rw(w bool) string {
	if w {
		return "write"
	}
	return "read"
}

// freshFromCtor: the base pointer is the result of a call in this function that returns a freshly built object
// (New*/new*), i.e. not yet shared.
func freshFromCtor(v ssa.Value) bool {
	switch x := v.(type) {
	case *ssa.Call:
		if g := x.Call.StaticCallee(); g != nil {
			n := g.Name()
			return strings.HasPrefix(n, "New") || strings.HasPrefix(n, "new")
		}
	case *ssa.Extract:
		if call, ok := x.Tuple.(*ssa.Call); ok {
			return freshFromCtor(call)
		}
	case *ssa.UnOp:
		if x.Op == token.MUL {
			if al, ok := x.X.(*ssa.Alloc); ok {
				// local variable holding the pointer: all stores into it are fresh objects
				for _, rf := range *al.Referrers() {
					if st, ok := rf.(*ssa.Store); ok && st.Addr == ssa.Value(al) {
						if _, isAlloc := st.Val.(*ssa.Alloc); !isAlloc && !freshFromCtor(st.Val) {
							return false
						}
					}
				}
				return true
			}
		}
	}
	return false
}

// pairSpec: forward and reverse map of one struct that must be updated together.
type pairSpec struct {
	rel, typ string
	fwd, rev string
	// setters: functions that deliberately overwrite (reload / replay); listed with a reason
	exempt map[string]string
}

// mapOps lists map inserts and deletes on struct field `field` of type typ in f.
func mapOps(f *ssa.Function, typ *types.Named, field string) (ins, del []ssa.Instruction) {
	for _, a := range accessesOf(f, typ, map[string]bool{field: true}) {
		switch x := a.in.(type) {
		case *ssa.MapUpdate:
			ins = append(ins, x)
		case *ssa.Call:
			if b, ok := x.Call.Value.(*ssa.Builtin); ok && b.Name() == "delete" {
				del = append(del, x)
			}
		}
	}
	return
}

// pairRule: in every function, an insert into one map of the pair is followed on every path to the function's exit
// (or preceded, within the same block region) by an insert into the other; same for deletes.
func pairRule(c *Ctx, rule string, specs []pairSpec) {
	for _, sp := range specs {
		pk := c.P.SSAPkg(sp.rel)
		if pk == nil {
			c.R.Fatalf("%s: package %s not loaded", rule, sp.rel)
			continue
		}
		tn, _ := pk.Pkg.Scope().Lookup(sp.typ).(*types.TypeName)
		if tn == nil {
			c.R.Fatalf("%s: type %s.%s not found", rule, sp.rel, sp.typ)
			continue
		}
		named := tn.Type().(*types.Named)
		n := 0
		for _, f := range c.moduleFuncs() {
			fi, fd := mapOps(f, named, sp.fwd)
			ri, rd := mapOps(f, named, sp.rev)
			if len(fi)+len(fd)+len(ri)+len(rd) == 0 {
				continue
			}
			n++
			check := func(kind string, as, bs []ssa.Instruction, aName, bName string) {
				for _, a := range as {
					ok := false
					isB := func(in ssa.Instruction) bool {
						for _, b := range bs {
							if b == in {
								return true
							}
						}
						return false
					}
					// b dominates a within the same straight-line region, or every path from a reaches a b
					for _, b := range bs {
						if flow.InstrDominates(b, a) {
							if through, _ := flow.MustPassThrough(b, func(in ssa.Instruction) bool { return in == a }, nil); through {
								ok = true
							}
						}
					}
					if !ok {
						ok, _ = flow.MustPassThrough(a, isB, nil)
					}
					c.R.Check(rule, load.ShortFunc(f), fmt.Sprintf("%s %s.%s paired with %s", kind, sp.typ, aName, bName), c.P.Pos(instrPos(a)), ok,
						fmt.Sprintf("%s on %s.%s is not matched on every path by the same operation on %s.%s: the two directions of the mapping diverge", kind, sp.typ, aName, sp.typ, bName))
				}
			}
			if why, ok := sp.exempt[f.Name()]; ok && flow.RecvTypeName(f) == sp.typ {
				c.R.Note(fmt.Sprintf("%s: %s exempt (%s)", rule, load.ShortFunc(f), why))
				continue
			}
			check("insert", fi, ri, sp.fwd, sp.rev)
			check("insert", ri, fi, sp.rev, sp.fwd)
			// an insert into the forward map that may overwrite an existing entry must evict the reverse entry of the old value
			for _, in := range fi {
				mu := in.(*ssa.MapUpdate)
				missDominates := false
				for _, ft := range flow.FactsAtInstr(in) {
					if name, _, ok := guardName(ft.Cond); ok && name == "found("+sp.typ+"."+sp.fwd+")" && !ft.Pol {
						missDominates = true
					}
				}
				if missDominates {
					continue
				}
				evicts := false
				for _, d := range rd {
					key := d.(*ssa.Call).Call.Args[1]
					ex, ok := key.(*ssa.Extract)
					if !ok || ex.Index != 0 {
						continue
					}
					lk, ok := ex.Tuple.(*ssa.Lookup)
					if !ok || !strings.HasSuffix(flow.FieldOwner(lk.X), sp.typ+"."+sp.fwd) || lk.Index != mu.Key {
						continue
					}
					for _, ft := range flow.FactsAtInstr(d) {
						if name, _, ok := guardName(ft.Cond); ok && name == "found("+sp.typ+"."+sp.fwd+")" && ft.Pol {
							evicts = true
						}
					}
				}
				c.R.Check(rule, load.ShortFunc(f), fmt.Sprintf("overwrite of %s.%s evicts %s[old]", sp.typ, sp.fwd, sp.rev), c.P.Pos(instrPos(in)), evicts,
					fmt.Sprintf("%s.%s[key] may be overwritten (the insert is not dominated by a lookup miss) but no path deletes %s[old value]: the reverse index keeps claiming the old value for this key", sp.typ, sp.fwd, sp.rev))
			}
			// a delete of one direction is matched by a delete of the other, or by the other entry being overwritten
			check("delete", fd, append(append([]ssa.Instruction{}, rd...), ri...), sp.fwd, sp.rev)
			check("delete", rd, append(append([]ssa.Instruction{}, fd...), fi...), sp.rev, sp.fwd)
		}
		if n == 0 {
			c.R.Check(rule, sp.typ, "pair "+sp.fwd+"/"+sp.rev, "-", false, "no function updates this pair of maps — anchors moved?")
		}
	}
}

// insertSpec: owner map whose inserts must be dominated by a lookup miss under one lock hold.
type insertSpec struct {
	rel, typ, field, mutex string
	setters                map[string]string // function name -> reason it may overwrite
}

// atomicInsertRule: each insert into the owner map is dominated by a miss of a lookup on the same map, and no
// unlock of the struct's mutex lies between that lookup and the insert (check-then-act in one critical section).
func atomicInsertRule(c *Ctx, rule string, specs []insertSpec) {
	for _, sp := range specs {
		pk := c.P.SSAPkg(sp.rel)
		if pk == nil {
			c.R.Fatalf("%s: package %s not loaded", rule, sp.rel)
			continue
		}
		tn, _ := pk.Pkg.Scope().Lookup(sp.typ).(*types.TypeName)
		if tn == nil {
			c.R.Fatalf("%s: type %s.%s not found", rule, sp.rel, sp.typ)
			continue
		}
		named := tn.Type().(*types.Named)
		owner := sp.typ + "." + sp.field
		n := 0
		for _, f := range c.moduleFuncs() {
			ins, _ := mapOps(f, named, sp.field)
			if len(ins) == 0 {
				continue
			}
			if why, ok := sp.setters[f.Name()]; ok {
				c.R.Note(fmt.Sprintf("%s: %s overwrites %s by contract (%s)", rule, load.ShortFunc(f), owner, why))
				continue
			}
			if _, fresh := ins[0].(*ssa.MapUpdate).Map.(*ssa.UnOp).X.(*ssa.FieldAddr).X.(*ssa.Alloc); fresh {
				continue
			}
			for _, in := range ins {
				n++
				mu := in.(*ssa.MapUpdate)
				var lookup ssa.Instruction
				miss := false
				for _, ft := range flow.FactsAtInstr(in) {
					if name, _, ok := guardName(ft.Cond); ok && name == "found("+owner+")" && !ft.Pol {
						miss = true
						if ex, ok := ft.Cond.(*ssa.Extract); ok {
							lookup = ex.Tuple.(*ssa.Lookup)
						}
					}
				}
				ok, why := miss, "insert into "+owner+" is not dominated by a lookup miss on that map (a subscriber asking again would be bound a second value)"
				if miss && lookup != nil && sp.mutex != "" {
					for _, call := range flow.Calls(f) {
						if op, isOp := locks.ClassifyCall(call); isOp && !op.Acquire && op.Lock.Path == sp.mutex {
							if _, isDefer := call.(*ssa.Defer); isDefer {
								continue
							}
							if flow.InstrDominates(lookup, call) && flow.InstrDominates(call, in) {
								ok, why = false, "the mutex is released between the existence check on "+owner+" and the insert: two concurrent callers for one key both miss and each bind a different value"
							}
						}
					}
				}
				_ = mu
				c.R.Check(rule, load.ShortFunc(f), "insert into "+owner, c.P.Pos(instrPos(in)), ok, why)
			}
		}
		if n == 0 {
			c.R.Check(rule, sp.typ, "inserts into "+owner, "-", false, "no insert into the owner map found — anchors moved?")
		}
	}
}

// pairRuleESP is the path-sensitive form of the pairing rule for mappings whose reverse side is nested or whose
// deletes are guarded by the presence of the reverse entry: for every method of the type, in every exit configuration
//
//	insert(fwd) ⇔ insert(rev);  delete(fwd) ⇒ delete(rev) or the path shows the reverse entry absent;
//	delete(rev) ⇒ delete(fwd) or insert(fwd) (overwritten);  insert(fwd) over an existing entry ⇒ delete(rev) (eviction).
func pairRuleESP(c *Ctx, rule string, specs []pairSpec) {
	for _, sp := range specs {
		pk := c.P.SSAPkg(sp.rel)
		tn, _ := pk.Pkg.Scope().Lookup(sp.typ).(*types.TypeName)
		if tn == nil {
			c.R.Fatalf("%s: type %s.%s not found", rule, sp.rel, sp.typ)
			continue
		}
		named := tn.Type().(*types.Named)
		fwdF, revF := sp.typ+"."+sp.fwd, sp.typ+"."+sp.rev
		opLabel := func(in ssa.Instruction) []string {
			var out []string
			for _, fld := range []string{sp.fwd, sp.rev} {
				for _, a := range accessesOf(in.Parent(), named, map[string]bool{fld: true}) {
					if a.in != in || !a.write {
						continue
					}
					switch x := in.(type) {
					case *ssa.MapUpdate:
						if _, isMake := x.Value.(*ssa.MakeMap); isMake {
							continue // creating an inner map is not a logical insert
						}
						out = append(out, "ins:"+fld)
					case *ssa.Call:
						out = append(out, "del:"+fld)
					}
				}
			}
			return out
		}
		spec := &esp.Spec{Recv: named, Fields: map[string]bool{}, Atom: guardName,
			Inline: func(callee *ssa.Function) bool { return flow.RecvTypeName(callee) == sp.typ && callee.Pkg == pk }}
		spec.InstrAction = opLabel
		spec.MultiAction = func(call ssa.CallInstruction) []string { return opLabel(call) }
		n := 0
		for _, f := range c.moduleFuncs() {
			if flow.RecvTypeName(f) != sp.typ || f.Pkg != pk {
				continue
			}
			if _, ex := sp.exempt[f.Name()]; ex {
				continue
			}
			touches := len(accessesOf(f, named, map[string]bool{sp.fwd: true, sp.rev: true})) > 0
			if !touches {
				continue
			}
			outs := spec.Run(f, nil)
			var bad []string
			wrote := false
			for _, o := range outs {
				acts, atoms := o.ActList(), o.AtomList()
				iF, iR, dF, dR := has(acts, "ins:"+sp.fwd), has(acts, "ins:"+sp.rev), has(acts, "del:"+sp.fwd), has(acts, "del:"+sp.rev)
				if iF || iR || dF || dR {
					wrote = true
				}
				revAbsent := atomHolds(atoms, "found("+revF+")", "", "") || has(atoms, "!found("+revF+")") || atomHolds(atoms, "elem("+revF+")", "!=", "·") || atomHolds(atoms, "elem("+revF+")", "==", "nil")
				switch {
				case iF != iR:
					bad = append(bad, fmt.Sprintf("insert into only one direction on path %v (%v)", atoms, acts))
				case dF && !dR && !revAbsent:
					bad = append(bad, fmt.Sprintf("%s entry deleted but %s entry kept on path %v", sp.fwd, sp.rev, atoms))
				case dR && !dF && !iF:
					bad = append(bad, fmt.Sprintf("%s entry deleted but %s entry kept on path %v", sp.rev, sp.fwd, atoms))
				case iF && has(atoms, "found("+fwdF+")") && !dR && !revAbsent:
					bad = append(bad, fmt.Sprintf("%s[key] overwritten without evicting the old %s entry on path %v", sp.fwd, sp.rev, atoms))
				}
			}
			if !wrote {
				continue
			}
			n++
			d := ""
			if len(bad) > 0 {
				sort.Strings(bad)
				d = bad[0]
			}
			c.R.Check(rule, load.ShortFunc(f), "mapping "+sp.fwd+" <-> "+sp.rev+" stays a bijection", c.P.Pos(f.Pos()), len(bad) == 0, d)
		}
		if n == 0 {
			c.R.Check(rule, sp.typ, "pair "+sp.fwd+"/"+sp.rev, "-", false, "no method writes this pair of maps — anchors moved?")
		}
	}
}
