package engines

import (
	"sort"
	"strings"

	"bngvet/internal/flow"
	"bngvet/internal/load"

	"golang.org/x/tools/go/ssa"
)

// c13Snapshot (rule C13.S6): the snapshot a store hands to a full synchronisation is read from the primary
// table at request time: the result of GetAllSessions depends on no receiver field other than the map that
// PutSession writes (a cached or derived view can go stale between a change and the next full sync).
func c13Snapshot(c *Ctx) {
	r := c.R
	r.Rule("C13.S6.snapshotFromPrimary", "every session store's GetAllSessions builds its result from the map PutSession writes and from no other field of the store (no cached/derived view that a writer may fail to refresh)", 1)
	n := 0
	for _, f := range c.moduleFuncs() {
		if f.Name() != "GetAllSessions" || f.Signature.Recv() == nil || f.Pkg == nil || !strings.HasSuffix(f.Pkg.Pkg.Path(), "pkg/ha") {
			continue
		}
		recv := flow.RecvTypeName(f)
		put := c.P.SSAFunc("pkg/ha", recv, "PutSession")
		if put == nil {
			continue
		}
		primary := ""
		flow.Instrs(put, func(in ssa.Instruction) {
			if mu, ok := in.(*ssa.MapUpdate); ok {
				if fo := flow.FieldOwner(mu.Map); fo != "" {
					primary = fo
				}
			}
		})
		if primary == "" {
			continue // not a map-backed store (wrappers delegate)
		}
		n++
		used := map[string]bool{}
		for _, b := range f.Blocks {
			for _, in := range b.Instrs {
				ret, ok := in.(*ssa.Return)
				if !ok {
					continue
				}
				for _, rv := range flow.ReturnValues(ret) {
					collectFieldDeps(rv, recv, used, map[ssa.Value]bool{})
				}
			}
		}
		var extra []string
		for fo := range used {
			if fo != primary {
				extra = append(extra, fo)
			}
		}
		sort.Strings(extra)
		r.Check("C13.S6.snapshotFromPrimary", load.ShortFunc(f), "result depends only on "+primary, c.P.Pos(f.Pos()), used[primary] && len(extra) == 0,
			"the snapshot served for a full synchronisation is built from "+strings.Join(extra, ", ")+" rather than (only) from "+primary+": an update that does not refresh that view is missing from the next full sync, and a standby that had already applied it is rolled back")
	}
	if n == 0 {
		r.Check("C13.S6.snapshotFromPrimary", "pkg/ha", "a map-backed session store exists", "-", false, "no GetAllSessions of a map-backed store found")
	}
}

// collectFieldDeps: receiver fields (Type.field) whose loads the value depends on through operands, phis,
// element stores of locally allocated arrays and append.
func collectFieldDeps(v ssa.Value, recv string, out map[string]bool, seen map[ssa.Value]bool) {
	if v == nil || seen[v] {
		return
	}
	seen[v] = true
	switch x := v.(type) {
	case *ssa.UnOp:
		if fo := flow.FieldOwner(x.X); fo != "" && strings.HasPrefix(fo, recv+".") && !strings.HasSuffix(fo, ".mu") {
			out[fo] = true
		}
	case *ssa.Alloc:
		for _, ref := range *x.Referrers() {
			if st, ok := ref.(*ssa.Store); ok && st.Addr == x {
				collectFieldDeps(st.Val, recv, out, seen)
			}
			if ia, ok := ref.(ssa.Value); ok {
				switch ref.(type) {
				case *ssa.IndexAddr, *ssa.FieldAddr:
					for _, r2 := range *ia.Referrers() {
						if st, ok := r2.(*ssa.Store); ok && st.Addr == ia {
							collectFieldDeps(st.Val, recv, out, seen)
						}
					}
				}
			}
		}
	}
	if in, ok := v.(ssa.Instruction); ok {
		for _, op := range in.Operands(nil) {
			if *op != nil {
				collectFieldDeps(*op, recv, out, seen)
			}
		}
	}
}
