package engines

import (
	"fmt"
	"go/token"
	"go/types"
	"strings"

	"bngvet/internal/esp"
	"bngvet/internal/flow"
	"bngvet/internal/load"
	"bngvet/internal/locks"

	"golang.org/x/tools/go/ssa"
)

func init() { Registry["C10"] = C10 }

func C10(c *Ctx) {
	r := c.R
	defer c10StablePoolIndex(c)
	const pkg = "pkg/nat"
	r.Explain = "Structural clauses of 'CGNAT port blocks never overlap and are always attributable': the block index comes from a free-slot table (tested free, marked on success, cleared on release) and never from a counter that a release decrements; block end = start + size - 1 and the per-address capacity is the floor of range/size; the existence check and the insert of an allocation form one critical section; every allocate / release path that changes the table reaches the logger (when one is set) with that allocation's own fields; log buffers handed to the writer are detached from the live buffer.  Overlap over histories beyond these structural causes and log completeness semantics are not decided."
	r.Rule("C10.N1.slotSource", "the block index multiplied by the block size is an index of the free-slot table found free, marked used on success and cleared by the release path; it is not a field that a release path decrements", 4)
	r.Rule("C10.N2.blockShape", "PortEnd = PortStart + portsPerSubscriber - 1; MaxSubscribers = (range end - range start + 1) / portsPerSubscriber (floor); the slot table has MaxSubscribers entries", 3)
	r.Rule("C10.N3.checkThenAct", "the existence check and the insert into the allocation table happen under one continuous hold of a manager mutex", 1)
	r.Rule("C10.N4.logged", "every path that inserts / removes an allocation reaches LogAllocation / LogDeallocation when a logger is set, with that allocation's own fields", 4)
	r.Rule("C10.N5.logEntryFields", "log entries take subscriber, private/public address and ports from the like-named fields of the allocation", 6)
	r.Rule("C10.N6.detachedBuffer", "a log buffer handed to the writer after the buffer lock is dropped is replaced by a fresh slice, never re-sliced from itself", 2)

	alloc := c.fn(pkg, "Manager", "AllocateNAT")
	dealloc := c.fn(pkg, "Manager", "DeallocateNAT")
	addIP := c.fn(pkg, "Manager", "AddPublicIP")
	if alloc == nil || dealloc == nil || addIP == nil {
		return
	}
	fname := load.ShortFunc(alloc)

	// ---- N1: find PortStart computation: Convert(portRangeStart + idx*portsPerSubscriber)
	var idx ssa.Value
	var mulPos ssa.Instruction
	flow.Instrs(alloc, func(in ssa.Instruction) {
		b, ok := in.(*ssa.BinOp)
		if !ok || b.Op != token.MUL {
			return
		}
		if strings.HasSuffix(flow.FieldOwner(b.Y), "Manager.portsPerSubscriber") {
			idx, mulPos = b.X, in
		} else if strings.HasSuffix(flow.FieldOwner(b.X), "Manager.portsPerSubscriber") {
			idx, mulPos = b.Y, in
		}
	})
	if idx == nil {
		r.Check("C10.N1.slotSource", fname, "block index", c.P.Pos(alloc.Pos()), false, "no `index * portsPerSubscriber` computation found in AllocateNAT — anchors moved?")
	} else {
		// not a decremented counter
		if fo := flow.FieldOwner(idx); fo != "" {
			dec := ""
			for _, f := range c.moduleFuncs() {
				flow.Instrs(f, func(in ssa.Instruction) {
					st, ok := in.(*ssa.Store)
					if !ok || flow.FieldOwner(st.Addr) != fo {
						return
					}
					if b, ok := st.Val.(*ssa.BinOp); ok && b.Op == token.SUB && flow.FieldOwner(b.X) == fo {
						dec = load.ShortFunc(f)
					}
				})
			}
			r.Check("C10.N1.slotSource", fname, "block index is not a live counter", c.P.Pos(instrPos(mulPos)), dec == "",
				fmt.Sprintf("the block index is %s, which %s decrements: allocate A,B,C; release A; allocate D => D is given index 2, the block C still holds", fo, dec))
		} else {
			r.Check("C10.N1.slotSource", fname, "block index is not a live counter", c.P.Pos(instrPos(mulPos)), true, "")
		}
		// it is an index of the slot table tested free
		free, table := slotWitness(idx)
		r.Check("C10.N1.slotSource", fname, "block index found free in the slot table", c.P.Pos(instrPos(mulPos)), free,
			"the block index does not come from a scan of a free-slot table under a `not used` test")
		// marked used on success (a store true into table[idx] that the allocations insert passes through)
		marked := false
		cleared := false
		if table != "" {
			flow.Instrs(alloc, func(in ssa.Instruction) {
				if st, ok := in.(*ssa.Store); ok && isConstBool(st.Val, true) {
					if ia, ok := st.Addr.(*ssa.IndexAddr); ok && strings.HasSuffix(flow.FieldOwner(ia.X), table) && sameIndex(ia.Index, idx) {
						marked = true
					}
				}
			})
			flow.Instrs(dealloc, func(in ssa.Instruction) {
				if st, ok := in.(*ssa.Store); ok && isConstBool(st.Val, false) {
					if ia, ok := st.Addr.(*ssa.IndexAddr); ok && strings.HasSuffix(flow.FieldOwner(ia.X), table) {
						cleared = true
					}
				}
			})
		}
		r.Check("C10.N1.slotSource", fname, "slot marked used on success", c.P.Pos(alloc.Pos()), marked, "the chosen slot is never marked used: the next allocation takes the same block")
		r.Check("C10.N1.slotSource", load.ShortFunc(dealloc), "slot cleared on release", c.P.Pos(dealloc.Pos()), cleared, "a released block's slot is never cleared: the block is lost until restart")
	}

	// ---- N2
	okEnd := false
	flow.Instrs(alloc, func(in ssa.Instruction) {
		// PortEnd = PortStart + uint16(pps) - 1
		b, ok := in.(*ssa.BinOp)
		if !ok || b.Op != token.SUB {
			return
		}
		if k, ok := constInt(b.Y); !ok || k != 1 {
			return
		}
		add, ok := b.X.(*ssa.BinOp)
		if !ok || add.Op != token.ADD {
			return
		}
		var other ssa.Value = add.Y
		for {
			if cv, ok := other.(*ssa.Convert); ok {
				other = cv.X
				continue
			}
			break
		}
		if strings.HasSuffix(flow.FieldOwner(other), "Manager.portsPerSubscriber") {
			okEnd = true
		}
	})
	r.Check("C10.N2.blockShape", fname, "PortEnd = PortStart + portsPerSubscriber - 1", c.P.Pos(alloc.Pos()), okEnd, "the block's end port is not start + configured size - 1")
	okMax, whyMax := false, "MaxSubscribers is not computed as (portRangeEnd - portRangeStart + 1) / portsPerSubscriber"
	var maxVal ssa.Value
	flow.Instrs(addIP, func(in ssa.Instruction) {
		st, ok := in.(*ssa.Store)
		if !ok {
			return
		}
		if fa, ok := st.Addr.(*ssa.FieldAddr); ok && fieldVarName(fa) == "MaxSubscribers" {
			maxVal = st.Val
		}
	})
	if q, ok := maxVal.(*ssa.BinOp); ok && q.Op == token.QUO && strings.HasSuffix(flow.FieldOwner(q.Y), "Manager.portsPerSubscriber") {
		// numerator: end - start + 1 (no rounding term)
		if plus, ok := q.X.(*ssa.BinOp); ok && plus.Op == token.ADD {
			if k, ok := constInt(plus.Y); ok && k == 1 {
				if sub, ok := plus.X.(*ssa.BinOp); ok && sub.Op == token.SUB && strings.HasSuffix(flow.FieldOwner(sub.X), "Manager.portRangeEnd") && strings.HasSuffix(flow.FieldOwner(sub.Y), "Manager.portRangeStart") {
					okMax = true
				}
			}
		}
		if !okMax {
			whyMax = "the capacity numerator is not exactly (portRangeEnd - portRangeStart + 1): rounding up admits one subscriber whose block runs past the end of the port range (or wraps in uint16)"
		}
	}
	r.Check("C10.N2.blockShape", load.ShortFunc(addIP), "MaxSubscribers = floor(range / block size)", c.P.Pos(addIP.Pos()), okMax, whyMax)
	// slots sized by MaxSubscribers
	okLen := false
	flow.Instrs(addIP, func(in ssa.Instruction) {
		if ms, ok := in.(*ssa.MakeSlice); ok && maxVal != nil && ms.Len == maxVal {
			okLen = true
		}
	})
	r.Check("C10.N2.blockShape", load.ShortFunc(addIP), "slot table has MaxSubscribers entries", c.P.Pos(addIP.Pos()), okLen, "the free-slot table is not sized by the same capacity value")

	// ---- N3
	tn := c.P.SSAPkg(pkg).Pkg.Scope().Lookup("Manager").(*types.TypeName)
	named := tn.Type().(*types.Named)
	ins, _ := mapOps(alloc, named, "allocations")
	h := locks.Analyze(alloc)
	for _, in := range ins {
		var lookup ssa.Instruction
		for _, ft := range flow.FactsAtInstr(in) {
			if name, _, ok := guardName(ft.Cond); ok && name == "found(Manager.allocations)" && !ft.Pol {
				if ex, ok := ft.Cond.(*ssa.Extract); ok {
					// the innermost (closest) dominating miss
					if lookup == nil || flow.InstrDominates(lookup, ex.Tuple.(*ssa.Lookup)) {
						lookup = ex.Tuple.(*ssa.Lookup)
					}
				}
			}
		}
		ok, why := lookup != nil, "the insert into the allocation table is not dominated by a lookup miss"
		if ok {
			ok, why = false, "no manager mutex is held continuously from the existence check to the insert: two concurrent AllocateNAT calls for one subscriber both miss and each take a block"
			for _, hl := range h.HeldAt(lookup) {
				held := true
				for _, call := range flow.Calls(alloc) {
					if op, isOp := locks.ClassifyCall(call); isOp && !op.Acquire && op.Lock.Path == hl.Lock.Path {
						if _, isDefer := call.(*ssa.Defer); isDefer {
							continue
						}
						if flow.InstrDominates(lookup, call) && flow.InstrDominates(call, in) {
							held = false
						}
					}
				}
				if held && h.Holds(in, hl.Lock.Root, hl.Lock.Path, 0) {
					ok, why = true, ""
				}
			}
		}
		r.Check("C10.N3.checkThenAct", fname, "existence check and insert in one critical section", c.P.Pos(instrPos(in)), ok, why)
	}
	if len(ins) == 0 {
		r.Check("C10.N3.checkThenAct", fname, "insert", c.P.Pos(alloc.Pos()), false, "no insert into Manager.allocations found")
	}

	// ---- N4 (path-sensitive)
	for _, sp := range []struct {
		f         *ssa.Function
		change    string
		log       callPred
		logName   string
		changeAct func(in ssa.Instruction) bool
	}{
		{alloc, "insert", callTo(pkg, "Logger", "LogAllocation"), "LogAllocation", func(in ssa.Instruction) bool {
			mu, ok := in.(*ssa.MapUpdate)
			return ok && strings.HasSuffix(flow.FieldOwner(mu.Map), "Manager.allocations")
		}},
		{dealloc, "delete", callTo(pkg, "Logger", "LogDeallocation"), "LogDeallocation", func(in ssa.Instruction) bool {
			call, ok := in.(ssa.CallInstruction)
			return ok && deleteFrom("Manager.allocations")(call)
		}},
	} {
		es := &esp.Spec{Recv: named, Fields: map[string]bool{}, Atom: guardName}
		es.InstrAction = func(in ssa.Instruction) []string {
			if sp.changeAct(in) {
				return []string{"change"}
			}
			return nil
		}
		es.MultiAction = func(call ssa.CallInstruction) []string {
			var out []string
			if sp.changeAct(call) {
				out = append(out, "change")
			}
			if sp.log(call) {
				out = append(out, "log")
			}
			return out
		}
		bad := ""
		n := 0
		for _, o := range es.Run(sp.f, nil) {
			acts, atoms := o.ActList(), o.AtomList()
			if !has(acts, "change") {
				continue
			}
			n++
			if !has(acts, "log") && !atomHolds(atoms, "Manager.natLogger", "==", "nil") {
				bad = fmt.Sprintf("path %v changes the table without logging", atoms)
			}
		}
		r.Check("C10.N4.logged", load.ShortFunc(sp.f), sp.change+" is logged by "+sp.logName, c.P.Pos(sp.f.Pos()), n > 0 && bad == "", "an allocation table "+sp.change+" is not attributable from the log: "+bad)
	}
	// the logged allocation is the one stored / removed
	for _, call := range flow.Calls(alloc) {
		if !flow.CalleeIs(call, pkg, "Logger", "LogAllocation") {
			continue
		}
		same := false
		for _, in := range ins {
			if in.(*ssa.MapUpdate).Value == call.Common().Args[1] {
				same = true
			}
		}
		r.Check("C10.N4.logged", fname, "LogAllocation receives the stored allocation", c.P.Pos(instrPos(call)), same, "the allocation that is logged is not the one recorded in the table")
	}
	for _, call := range flow.Calls(dealloc) {
		if !flow.CalleeIs(call, pkg, "Logger", "LogDeallocation") {
			continue
		}
		a := call.Common().Args
		ok := isParam(a[1]) && strings.HasSuffix(flow.FieldOwner(a[2]), "Allocation.PublicIP") && strings.HasSuffix(flow.FieldOwner(a[3]), "Allocation.PortStart")
		r.Check("C10.N4.logged", load.ShortFunc(dealloc), "LogDeallocation receives the removed allocation's address and port", c.P.Pos(instrPos(call)), ok, "the release record does not carry the released allocation's own public address / port start")
	}

	// ---- N5: entry literals in logging.go
	for _, name := range []string{"LogAllocation"} {
		f := c.fn(pkg, "Logger", name)
		if f == nil {
			continue
		}
		want := map[string][]string{"SubscriberID": {"SubscriberID"}, "PrivateIP": {"PrivateIP"}, "PublicIP": {"PublicIP"}, "PortStart": {"PortStart"}, "PortEnd": {"PortEnd"}, "PublicPort": {"PortStart"}}
		flow.Instrs(f, func(in ssa.Instruction) {
			st, ok := in.(*ssa.Store)
			if !ok {
				return
			}
			fa, ok := st.Addr.(*ssa.FieldAddr)
			if !ok {
				return
			}
			dst := fieldVarName(fa)
			ws, checked := want[dst]
			if !checked {
				return
			}
			src := fieldThroughCalls(st.Val)
			if src == "" {
				return
			}
			okf := false
			for _, w := range ws {
				if strings.HasSuffix(src, "Allocation."+w) {
					okf = true
				}
			}
			r.Check("C10.N5.logEntryFields", load.ShortFunc(f), "entry."+dst+" <- "+src, c.P.Pos(instrPos(st)), okf, "log entry field "+dst+" is filled from "+src)
		})
	}

	// ---- N6
	for _, name := range []string{"Flush", "FlushPortBlocks"} {
		f := c.fn(pkg, "Logger", name)
		if f == nil {
			continue
		}
		ok, why := false, "the flush routine does not replace the buffer"
		flow.Instrs(f, func(in ssa.Instruction) {
			st, isSt := in.(*ssa.Store)
			if !isSt {
				return
			}
			fo := flow.FieldOwner(st.Addr)
			if !strings.HasSuffix(fo, "uffer") || !strings.HasPrefix(fo, "Logger.") {
				return
			}
			switch v := st.Val.(type) {
			case *ssa.MakeSlice:
				ok = true
			case *ssa.Const:
				ok = v.Value == nil
			case *ssa.Slice:
				if flow.FieldOwner(v.X) == fo {
					ok, why = false, "the live buffer is re-sliced from itself ("+fo+" = "+fo+"[:0]) while the entries taken from it are still being written outside the buffer lock: events logged during a flush overwrite records that have not been written yet"
				}
			default:
				// new [N]T + slice lowering of make with constant size
				if sl, isSl := st.Val.(*ssa.Slice); isSl {
					if _, isAl := sl.X.(*ssa.Alloc); isAl {
						ok = true
					}
				}
			}
		})
		r.Check("C10.N6.detachedBuffer", load.ShortFunc(f), "buffer replaced by a fresh slice", c.P.Pos(f.Pos()), ok, why)
	}
}

func isConstBool(v ssa.Value, want bool) bool {
	k, ok := v.(*ssa.Const)
	if !ok || k.Value == nil {
		return false
	}
	return k.Value.String() == fmt.Sprint(want)
}

// slotWitness: idx is (a φ of) the index of a range loop over a []bool field, assigned under a `!used` test.
func slotWitness(idx ssa.Value) (bool, string) {
	seen := map[ssa.Value]bool{}
	var table string
	var walk func(v ssa.Value) bool
	walk = func(v ssa.Value) bool {
		if seen[v] {
			return false
		}
		seen[v] = true
		switch x := v.(type) {
		case *ssa.Phi:
			found := false
			for i, e := range x.Edges {
				if k, ok := e.(*ssa.Const); ok && k.Value != nil {
					continue // initial -1 / 0
				}
				// the edge is taken under a `!used` fact where used = table[e]
				pred := x.Block().Preds[i]
				facts := flow.FactsAt(pred)
				if ef, ok := flow.EdgeFact(pred, x.Block()); ok {
					facts = append(facts, ef)
				}
				for _, ft := range facts {
					if a, i2 := elemOf(ft.Cond); a != nil && !ft.Pol && sameIndex(i2, e) {
						if fo := flow.FieldOwner(a); fo != "" {
							table = fo
							found = true
						}
					}
				}
				if !found && walk(e) {
					found = true
				}
			}
			return found
		case *ssa.BinOp:
			return false
		}
		return false
	}
	ok := walk(idx)
	if i := strings.Index(table, "."); i >= 0 {
		table = table[i+1:] // field name suffix, e.g. slots
	}
	return ok, table
}

// fieldThroughCalls: the struct field a value derives from, looking through String()/conversion calls.
func fieldThroughCalls(v ssa.Value) string {
	for i := 0; i < 4; i++ {
		if fo := flow.FieldOwner(v); fo != "" {
			return fo
		}
		switch x := v.(type) {
		case *ssa.Call:
			if len(x.Call.Args) == 0 {
				return ""
			}
			v = x.Call.Args[0]
		case *ssa.Convert:
			v = x.X
		case *ssa.ChangeType:
			v = x.X
		default:
			return ""
		}
	}
	return ""
}
