package main

import (
	"fmt"
	"os"
	"sort"
	"strings"

	"bngvet/internal/cexec"
	"bngvet/internal/cfront"
)

func runProg(tu *cfront.TU, name string, paths bool) {
	fn := tu.Funcs[name]
	mode := cexec.Merge
	if paths {
		mode = cexec.Paths
	}
	x := cexec.New(tu, mode)
	if paths {
		for _, o := range []string{"update_stats", "update_stat", "log_violation", "log_nat_event", "update_qos_stats"} {
			x.Opaque[o] = true
		}
		for _, o := range strings.Fields(os.Getenv("OPAQUE")) {
			x.Opaque[o] = true
		}
	}
	x.Run(fn)
	fmt.Printf("== %s: %d accesses, %d problems, %d returns, %d events\n", name, len(x.Access), len(x.Problems), len(x.Returns), len(x.Events))
	for _, p := range x.Problems {
		fmt.Println("  PROBLEM", p)
	}
	bad := 0
	for _, a := range x.SortedAccess() {
		if !a.OK {
			bad++
			fmt.Printf("  BAD %s %s store=%v in %s: %s\n", a.Node.Pos(), a.Region, a.Store, a.Func, a.Why)
		}
	}
	fmt.Printf("  bad accesses: %d\n", bad)
	for _, l := range x.Loops {
		fmt.Printf("  loop %s in %s trips=%d const=%v\n", l.Node.Pos(), l.Func, l.Trips, l.Const)
	}
	for _, r := range x.Returns {
		var ws []string
		for _, w := range r.St.Writes {
			ws = append(ws, w.Pos())
		}
		sort.Strings(ws)
		fmt.Printf("  return %s = %s writes=%d %v\n", r.Node.Pos(), r.Val.String(), len(ws), first(ws, 3))
		if paths {
			fmt.Printf("      cond: %v\n", r.St.PathCond)
		}
	}
	if !paths {
		for _, ev := range x.Events {
			if ev.Kind == "pktstore" {
				fmt.Printf("  pktstore %s %s+%d size=%d <- %s comp=%v\n", ev.Node.Pos(), ev.Lbl, ev.Off, ev.Size, ev.Val.String(), ev.Val.Comp)
			}
			if ev.Kind == "lookup" {
				fmt.Printf("  lookup %s map=%s key=%s\n", ev.Node.Pos(), ev.Map, ev.Ptr.String())
				for i := 0; i+1 < len(ev.Args); i += 2 {
					fmt.Printf("       key@%s = %s comp=%v\n", ev.Args[i].String(), ev.Args[i+1].String(), ev.Args[i+1].Comp)
				}
			}
		}
	}
}

func first(s []string, n int) []string {
	if len(s) > n {
		return s[:n]
	}
	return s
}
