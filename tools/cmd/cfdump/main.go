// cfdump prints what the C front end sees (debug aid).
package main

import (
	"fmt"
	"os"
	"sort"

	"bngvet/internal/cfront"
)

func main() {
	if len(os.Args) > 2 && os.Args[1] == "-funcs" {
		listFuncs(os.Args[2])
		return
	}
	if len(os.Args) > 2 && os.Args[1] == "-cfuncs" {
		ents, _ := os.ReadDir(os.Args[2] + "/bpf")
		for _, e := range ents {
			if len(e.Name()) > 2 && e.Name()[len(e.Name())-2:] == ".c" {
				tu, err := cfront.Parse(os.Args[2], "bpf/"+e.Name())
				if err != nil {
					fmt.Fprintln(os.Stderr, err)
					os.Exit(2)
				}
				for _, l := range tu.FuncLines() {
					fmt.Println(l)
				}
			}
		}
		return
	}
	tu, err := cfront.Parse(os.Args[1], os.Args[2])
	if err != nil {
		fmt.Println(err)
		os.Exit(2)
	}
	if len(os.Args) > 3 {
		runProg(tu, os.Args[3], len(os.Args) > 4)
		return
	}
	var ks []string
	for k := range tu.Layout.Recs {
		ks = append(ks, k)
	}
	sort.Strings(ks)
	for _, k := range ks {
		r := tu.Layout.Recs[k]
		fmt.Printf("%s size=%d packed=%v\n", k, r.Size, r.Packed)
		for _, f := range r.Fields {
			fmt.Printf("   %-24s off=%-4d size=%-4d %s bf=%v\n", f.Path, f.Off, f.Size, f.Type, f.Bitfield)
		}
	}
	for k, m := range tu.Layout.Maps {
		fmt.Printf("map %s type=%s key=%q(%d) value=%q(%d)\n", k, m.Type, m.KeyType, m.KeySize, m.ValueType, m.ValueSize)
	}
	for k, f := range tu.Funcs {
		if tu.InRepo(f) {
			fmt.Printf("func %s at %s sec=%v\n", k, f.Pos(), f.HasAttr("SectionAttr"))
		}
	}
}
