package main

import (
	"fmt"
	"os"

	"bngvet/internal/load"

	"golang.org/x/tools/go/packages"
)

// listFuncs prints the function keys of the module (used to (re)generate /verif/baseline_funcs.txt).
func listFuncs(dir string) {
	env := append(os.Environ(), "GOWORK=off")
	cfg := &packages.Config{Mode: packages.NeedName | packages.NeedFiles | packages.NeedCompiledGoFiles | packages.NeedSyntax | packages.NeedTypes | packages.NeedImports, Dir: dir, Env: env}
	pkgs, err := packages.Load(cfg, "./...")
	if err != nil {
		fmt.Fprintln(os.Stderr, err)
		os.Exit(2)
	}
	for _, k := range load.SymbolLines(pkgs) {
		fmt.Println(k)
	}
}
