// bngvet: static checkers for the bng properties C01..C20.  Usage: bngvet -prop C15 [-tier quick|thorough] [-repo /repo] [-verif /verif]
package main

import (
	"flag"
	"fmt"
	"os"
	"runtime/debug"

	"bngvet/engines"
	"bngvet/internal/cfront"
	"bngvet/internal/load"
	"bngvet/internal/report"
)

func main() {
	prop := flag.String("prop", "", "property id (C01..C20)")
	tier := flag.String("tier", "quick", "quick|thorough")
	repo := flag.String("repo", "/repo", "repository to analyse")
	verif := flag.String("verif", "/verif", "verif dir (known findings, evidence)")
	flag.Parse()
	if t := os.Getenv("VERIF_TIER"); t != "" && *tier == "" {
		*tier = t
	}
	eng, ok := engines.Registry[*prop]
	if !ok {
		fmt.Fprintf(os.Stderr, "unknown property %q\n", *prop)
		os.Exit(2)
	}
	r := report.New(*prop, *tier, *verif)
	code := func() (code int) {
		defer func() {
			if e := recover(); e != nil {
				r.Fatalf("analyser panic: %v\n%s", e, debug.Stack())
				code = r.Finish()
			}
		}()
		ctx := &engines.Ctx{R: r, Tier: *tier, Repo: *repo, Verif: *verif}
		load.BaselineFuncs = *verif + "/baseline_funcs.txt"
		cfront.BaselineCFuncs = *verif + "/baseline_cfuncs.txt"
		if os.Getenv("BNGVET_NO_INLINE") != "" {
			load.BaselineFuncs = ""
			cfront.BaselineCFuncs = ""
		}
		if !engines.NoGo[*prop] {
			p, err := load.Load(*repo, true)
			if err != nil {
				r.Fatal("load: " + err.Error())
				return r.Finish()
			}
			r.Count("packages_loaded", len(p.Pkgs))
			for _, l := range p.InlineLog {
				r.List("new_helpers_inlined", l)
			}
			ctx.P = p
		}
		eng(ctx)
		return r.Finish()
	}()
	os.Exit(code)
}
