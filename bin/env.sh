# sourced by bin/check: offline Go toolchain for /repo (go 1.25) and the checker module
export PATH=/root/go/pkg/mod/golang.org/toolchain@v0.0.1-go1.25.0.linux-amd64/bin:$PATH
export GOTOOLCHAIN=local GOFLAGS=-mod=mod GOPROXY=off GOSUMDB=off
unset GOWORK
