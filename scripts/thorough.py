#!/usr/bin/env python3
"""thorough.py <verif> <repo> <bngvet> <Cxx>
Checker self-validation for the thorough tier: every archived seeded change of the property
(/verif/seeded/Cxx-*/patch.diff) is applied to a throw-away copy of /repo's CURRENT working tree and the static
check is run on that copy; a seed recorded as detected must be reported again.  Results are added to the evidence
file of the thorough run (coverage.seed_replays).  This validates the checker, not the property: it never changes
the exit status of the check (a seed that no longer applies to a changed tree is recorded as skipped)."""
import sys,os,json,glob,subprocess,tempfile,shutil,time
verif,repo,binp,prop=sys.argv[1:5]
seeds=sorted(glob.glob(f"{verif}/seeded/{prop}-*"))
out=[]
for sd in seeds:
    meta=json.load(open(sd+"/meta.json"))
    cv=meta.get("check_verdict","")
    want=("detected" in cv) and not cv.startswith("neutralised") and not cv.startswith("not detected") and ("not by "+prop) not in cv
    tmp=tempfile.mkdtemp(prefix="bngvet-thorough-")
    t0=time.time()
    try:
        rc=subprocess.run(["rsync","-a","--exclude",".git",repo.rstrip("/")+"/",tmp+"/repo/"]).returncode
        if rc!=0:
            out.append({"seed":meta["seed_id"],"result":"skipped: copy failed"}); continue
        ap=subprocess.run(["git","apply","--whitespace=nowarn",sd+"/patch.diff"],cwd=tmp+"/repo",capture_output=True,text=True)
        if ap.returncode!=0:
            out.append({"seed":meta["seed_id"],"result":"skipped: patch does not apply to the current tree","expected_detected":want}); continue
        tv=tmp+"/verif"; os.makedirs(tv+"/evidence")
        for n in ("triage","known_findings.txt","seeded","baseline_funcs.txt","baseline_cfuncs.txt"):
            if os.path.exists(f"{verif}/{n}"): os.symlink(f"{verif}/{n}",f"{tv}/{n}")
        r=subprocess.run([binp,"-prop",prop,"-tier","quick","-repo",tmp+"/repo","-verif",tv],capture_output=True,text=True)
        keys=[l.strip()[4:].strip() for l in r.stdout.splitlines() if l.startswith("  key ")]
        detected=("VIOLATION property="+prop) in r.stdout
        res="re-detected" if detected else "NOT detected"
        if not want: res+=" (seed recorded as "+meta.get("check_verdict","?")[:40]+")"
        out.append({"seed":meta["seed_id"],"result":res,"expected_detected":want,"violated_keys":keys[:6],"wall_s":round(time.time()-t0,1)})
    finally:
        shutil.rmtree(tmp,ignore_errors=True)
ev=f"{verif}/evidence/{prop}.json"
try:
    d=json.load(open(ev))
    d.setdefault("coverage",{})["seed_replays"]=out
    d["coverage"]["seed_replays_summary"]="%d archived seeded changes replayed on a copy of the working tree, %d re-detected, %d skipped, %d not detected"%(
        len(out),sum(1 for o in out if o["result"].startswith("re-detected")),sum(1 for o in out if o["result"].startswith("skipped")),sum(1 for o in out if o["result"].startswith("NOT")))
    json.dump(d,open(ev,"w"),indent=1)
except Exception as e:
    print("thorough: could not extend evidence:",e)
for o in out:
    flag="" if (not o.get("expected_detected")) or o["result"].startswith(("re-detected","skipped")) else "   <-- CHECKER REGRESSION (reported, does not change the verdict on /repo)"
    print("SEED-REPLAY %s: %s%s"%(o["seed"],o["result"],flag))
