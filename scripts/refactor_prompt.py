#!/usr/bin/env python3
"""usage: refactor_prompt.py Cxx tag -> creates worktree /tmp/seedwork/<Cxx><tag> and prints a prompt asking for BEHAVIOUR-PRESERVING refactorings"""
import json,sys,subprocess,os
pid,tag=sys.argv[1],sys.argv[2]
wt=f"/tmp/seedwork/{pid}{tag}"
if not os.path.exists(wt):
    subprocess.check_call(["git","-C","/repo","worktree","add","-q","--detach",wt,"HEAD"])
p=[json.loads(l) for l in open('/verif/properties.jsonl') if json.loads(l)['id']==pid][0]
anch=p['anchors']
print(f"""You are helping evaluate a verification effort for the Go project codelaboratoryltd/bng (a broadband network gateway: PPPoE/LCP/IPCP state machines, DHCPv4/v6 servers, RADIUS accounting, IP/NAT allocators, HA sync, eBPF/XDP fast path). This time your job is the OPPOSITE of bug seeding: produce realistic, BEHAVIOUR-PRESERVING refactorings of the code a property is anchored in, so that we can check that the verification tooling does not raise false alarms on harmless maintenance edits.

You have your own scratch git worktree of the repository at {wt} (detached HEAD). Work ONLY there. Never touch /repo or /verif and do not read anything under /verif. NEVER use `git stash` (the stash is shared between worktrees); use `git diff > file` and `git checkout -- .` instead.

## The property (id {pid}): {p['title']}
{p['statement']}

Code the property is anchored in: {', '.join(anch['files'])}
Mechanisms meant to make it hold: {'; '.join(m.get('name','')+' @ '+m.get('where','') for m in anch['mechanism'])}

## What to produce
Produce FOUR independent refactorings (r1..r4), each a realistic maintenance edit to the anchored non-test source files (Go under pkg/ or cmd/, or C under bpf/) that changes the SHAPE of the code but NOT its behaviour, for every input, interleaving and history. The property above must hold exactly as before. Aim each one at the code that implements the mechanisms listed above (that is where a checker would look), and make them different in kind, e.g.:
 - extract a helper function (or method) from a handler and call it; or inline a small helper into its callers;
 - rename locals/parameters/unexported fields or functions; reorder independent statements or struct fields that are not part of any wire/map layout;
 - rewrite control flow into an equivalent form: early return vs nested if, switch vs if-chain, negated condition with swapped branches, loop form (index loop vs range) where provably equivalent, merging/splitting conditions without changing evaluation order of side effects;
 - introduce a local variable for a repeated expression, or replace one by the expression; replace a constant expression by a named constant of the same value;
 - move a block of code into another file of the same package; split a long function into two sequential halves;
 - for C: the same kinds (helper extraction with __always_inline, macro <-> inline function, reordering of independent checks that does not weaken any of them, pointer variable renames), keeping every bounds check at least as strong and placed before every access it protects.
Do NOT change: locking discipline, which checks exist and what they compare, the order of externally visible effects (sends, map/store writes, log-independent state changes), error handling outcomes, wire/map layouts, constants' values.
Each refactoring must: (1) build (`go test -count=1 -run '^$' ./...` compiles everything, excluding your SEED_OUT dir); (2) keep every currently passing test passing (run the tests of each touched package and its importers; a few tests in pkg/routing, pkg/ha and pkg/dns fail on the unchanged tree already — ignore those); (3) be something a reviewer would accept as a pure cleanup.

## Environment (offline sandbox — nothing can be downloaded)
Before any go command run:  export PATH=/root/go/pkg/mod/golang.org/toolchain@v0.0.1-go1.25.0.linux-amd64/bin:$PATH GOTOOLCHAIN=local GOFLAGS=-mod=mod GOPROXY=off GOSUMDB=off
(env does not persist between shell calls). clang 14 is installed for syntax-checking C: `clang -target bpf -fsyntax-only` will complain about missing <bpf/bpf_helpers.h> (libbpf is not installed) — write a tiny stub header dir of your own if you want to syntax-check C edits.

## Deliverables — write them under {wt}/SEED_OUT/ (create it; also create an empty-module marker `SEED_OUT/go.mod` containing `module seedout` so that `go test ./...` ignores the directory):
 - r1.patch .. r4.patch: `git diff` of each refactoring against the clean HEAD (independent of each other; each must apply cleanly with `git apply` to a clean checkout).
 - NOTES.md: for each: what was changed, why it cannot change behaviour, and the commands you ran with their outcome.
Leave the worktree's tracked files CLEAN at the end (git checkout -- .), keeping only SEED_OUT/.
Verify everything you claim by actually running it. Report back a short summary.""")
