#!/bin/bash
# run every claimed check's quick command; non-zero if any alarms
cd /verif; rc=0
for p in $(python3 -c "import json;print(' '.join(c['property_id'] for c in json.load(open('MANIFEST.json'))['checks']))"); do
  out=$(./bin/check $p ${1:-quick} 2>&1); r=$?; echo "$out" | tail -1; [ $r -ne 0 ] && { rc=1; echo "  ^^ exit $r"; }
done
exit $rc
