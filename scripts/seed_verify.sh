#!/bin/bash
# usage: seed_verify.sh <SEED_OUT dir> <vN> <pkgs-to-test...>
# Confirms a seeded change in the scratch worktree /tmp/scratch: applies cleanly, compiles, baseline tests of the
# given packages still pass, demo FAILS with the change and PASSES without it.
set -u
SD="$1"; V="$2"; shift 2
W=${W:-/tmp/scratch}
. /verif/bin/env.sh
cd $W && git checkout -q -- . && git clean -fdq
git apply --check "$SD/$V.patch" || { echo "SEED: patch does not apply"; exit 2; }
RUN=$(cat "$SD/${V}_demo/RUN.txt" | head -1)
RUN=${RUN//SEED_OUT/$SD}
echo "== demo WITHOUT change: $RUN"
( cd $W && timeout 300 bash -c "$RUN" >$W.seed_demo_without.txt 2>&1 ); r0=$?
grep -qE '^(--- FAIL|FAIL|panic:)' $W.seed_demo_without.txt && r0=1
echo "   exit $r0"
git checkout -q -- . ; git clean -fdq
git apply "$SD/$V.patch"
echo "== build with change"; go build ./... && go test -count=1 -run '^$' ./... >/dev/null 2>$W.seed_build.txt || { echo "SEED: build fails"; tail -5 $W.seed_build.txt; }
echo "== baseline tests with change: $*"
/verif/scripts/baseline_check.sh $W "$@"; rb=$?
echo "== demo WITH change"
( cd $W && timeout 300 bash -c "$RUN" >$W.seed_demo_with.txt 2>&1 ); r1=$?
grep -qE '^(--- FAIL|FAIL|panic:)' $W.seed_demo_with.txt && r1=1
echo "   exit $r1"; tail -5 $W.seed_demo_with.txt | cut -c1-200
git clean -fdq   # remove demo files, keep the change applied for the checker run
echo "RESULT without=$r0 (want 0) with=$r1 (want !=0) baseline_rc=$rb (want 0)"
