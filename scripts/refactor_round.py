#!/usr/bin/env python3
"""refactor_round.py <Cxx>r : apply each behaviour-preserving refactoring r1..r4 of /tmp/seedwork/<Cxx>r/SEED_OUT to the
scratch worktree, make sure it builds, and run every check whose property is anchored in a touched file (plus Cxx).
Any VIOLATION is a false alarm of the checker (or a refactoring that is not behaviour-preserving - judge by reading)."""
import sys,os,json,subprocess,re,glob
tag=sys.argv[1]; pid=tag[:3]
SCR=os.environ.get("SCRATCH","/tmp/scratch")
VT=os.environ.get("VTEST","/tmp/vtest")
sd=f"/tmp/seedwork/{tag}/SEED_OUT"
props=[json.loads(l) for l in open('/verif/properties.jsonl')]
env=dict(os.environ)
def sh(cmd,cwd=None):
    return subprocess.run(cmd,shell=True,cwd=cwd,capture_output=True,text=True,env=env)
sh("git checkout -q -- . && git clean -fdq && git checkout -q --detach $(git -C /repo rev-parse HEAD)",SCR)
for pf in sorted(glob.glob(sd+"/r*.patch")):
    name=os.path.basename(pf)
    files=re.findall(r'^\+\+\+ b/(\S+)',open(pf).read(),re.M)
    ap=sh(f"git apply {pf}",SCR)
    if ap.returncode!=0:
        print(f"{tag} {name}: does not apply ({ap.stderr.strip()[:100]})"); continue
    b=sh(". /verif/bin/env.sh && go build ./... 2>&1 | tail -3",SCR)
    if b.stdout.strip():
        print(f"{tag} {name}: BUILD FAILS {b.stdout.strip()[:200]}"); sh("git checkout -q -- . && git clean -fdq",SCR); continue
    todo={pid}
    for p in props:
        if any(f in p['anchors']['files'] for f in files): todo.add(p['id'])
    # packages touched: also properties anchored in the same directory
    dirs={os.path.dirname(f) for f in files}
    for p in props:
        if any(os.path.dirname(a) in dirs for a in p['anchors']['files']): todo.add(p['id'])
    res=[]
    for q in sorted(todo):
        r=sh(f"{os.environ.get('BIN','/verif/.build/bngvet')} -prop {q} -repo {SCR} -verif {VT}")
        last=[l for l in r.stdout.splitlines() if ' quick: ' in l]
        keys=[l.strip()[4:].strip()[:150] for l in r.stdout.splitlines() if l.startswith("  key ")]
        fail=[l for l in r.stdout.splitlines() if l.startswith("ANALYSIS-FAILURE")]
        if "VIOLATION property=" in r.stdout:
            res.append((q,keys[:4],fail[:2]))
    print(f"{tag} {name}: files={','.join(files)} checks={','.join(sorted(todo))} -> "+("all silent" if not res else "ALARMS"))
    for q,keys,fail in res:
        for k in keys: print(f"      {q}: {k}")
        for f in fail: print(f"      {q}: {f[:200]}")
    sh("git checkout -q -- . && git clean -fdq",SCR)
