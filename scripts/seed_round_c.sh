#!/bin/bash
# usage: seed_round_c.sh <tag> <vN> <props...> : for seeds whose demo is a native C harness / needs SEED_OUT copied into the tree
T=$1; V=$2; shift 2
SD=/tmp/seedwork/$T/SEED_OUT
. /verif/bin/env.sh
W=${W:-/tmp/scratch}; VT=${VT:-/tmp/vtest}; BIN=${BIN:-/verif/.build/bngvet}
cd $W && git checkout -q -- . && git clean -fdq && git checkout -q --detach $(git -C /repo rev-parse HEAD)
rm -rf SEED_OUT; cp -r $SD SEED_OUT; rm -f SEED_OUT/go.mod
RUN=$(head -1 SEED_OUT/${V}_demo/RUN.txt)
echo "=== $T $V: $(grep -h '^+++ b/' $SD/$V.patch | sed 's|+++ b/||' | tr '\n' ' ')"
timeout 600 bash -c "$RUN" > /tmp/sr_without.txt 2>&1; r0=$?; grep -qE '^(--- FAIL|FAIL|panic:)' /tmp/sr_without.txt && r0=1
git checkout -q -- . ; git clean -fdq -e SEED_OUT
git apply $SD/$V.patch
timeout 600 bash -c "$RUN" > /tmp/sr_with.txt 2>&1; r1=$?; grep -qE '^(--- FAIL|FAIL|panic:)' /tmp/sr_with.txt && r1=1
echo "RESULT without=$r0 (want 0) with=$r1 (want !=0)   [$(tail -1 /tmp/sr_with.txt | cut -c1-120)]"
git clean -fdq; rm -rf SEED_OUT
for p in "$@"; do $BIN -prop $p -repo $W -verif $VT 2>&1 | grep -E "^  key|quick:" | cut -c1-230 | (head -4; tail -1); done
git checkout -q -- . ; git clean -fdq
