#!/bin/bash
# usage: baseline_check.sh <repo-dir> [pkg-pattern...]
# Runs the repository's test suite (go test -json) in <repo-dir> and reports which of the
# BASELINE.json stable_pass tests no longer pass.  Exit 0 iff none regressed.
# With package patterns, only those packages are run and only their baseline tests compared.
set -u
DIR="${1:?repo dir}"; shift
. /verif/bin/env.sh
PK=("$@"); [ ${#PK[@]} -eq 0 ] && PK=(./...)
OUT=$(mktemp /tmp/basecheck.XXXXXX.json)
(cd "$DIR" && go test -json -vet=off -count=1 -timeout 25m "${PK[@]}" > "$OUT" 2>/dev/null)
python3 - "$OUT" "${PK[@]}" <<'PY'
import json,sys
out=sys.argv[1]; pats=sys.argv[2:]
base=json.load(open('/root/.vp/BASELINE.json'))['stable_pass']
passed=set(); failed=set(); pkgs=set()
for line in open(out,errors='replace'):
    line=line.strip()
    if not line.startswith('{'): continue
    try: ev=json.loads(line)
    except Exception: continue
    a=ev.get('Action'); p=ev.get('Package',''); t=ev.get('Test')
    pkgs.add(p)
    if t is None or a not in('pass','fail'): continue
    (passed if a=='pass' else failed).add(p+'::'+t)
passed-=failed
want=[b for b in base if b.split('::')[0] in pkgs] if pats!=['./...'] else base
missing=[b for b in want if b not in passed]
print(f"baseline tests considered: {len(want)}  passing: {len(want)-len(missing)}  regressed: {len(missing)}")
for m in missing[:40]: print("  REGRESSED", m)
sys.exit(1 if missing else 0)
PY
rc=$?; rm -f "$OUT"; exit $rc
