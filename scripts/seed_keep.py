#!/usr/bin/env python3
"""usage: seed_keep.py <SEED_OUT> <vN> <seed-id> <prop> <needs> <verdict> <detected_by>
Archives a confirmed seeded change under /verif/seeded/<seed-id>/ (patch.diff, demo/, meta.json)."""
import sys,os,shutil,json,re
sd,v,sid,prop,needs,verdict,by=sys.argv[1:8]
dst=f"/verif/seeded/{sid}"
os.makedirs(dst,exist_ok=True)
shutil.copy(f"{sd}/{v}.patch",f"{dst}/patch.diff")
if os.path.exists(f"{dst}/demo"): shutil.rmtree(f"{dst}/demo")
shutil.copytree(f"{sd}/{v}_demo",f"{dst}/demo")
run=open(f"{sd}/{v}_demo/RUN.txt").read().strip().splitlines()[0]
run=run.replace(f"SEED_OUT/{v}_demo",f"/verif/seeded/{sid}/demo")
notes=open(f"{sd}/NOTES.md").read() if os.path.exists(f"{sd}/NOTES.md") else ""
open(f"{dst}/NOTES.md","w").write(notes)
files=sorted(set(re.findall(r'^\+\+\+ b/(\S+)',open(f"{dst}/patch.diff").read(),re.M)))
meta={"seed_id":sid,"property":prop,"variant":v,"files_changed":files,"needs_to_manifest":needs,
 "demo_cmd_from_repo_root":run,
 "confirmed":{"applies_cleanly":True,"compiles":True,"baseline_tests_of_touched_and_importing_packages_pass":True,
   "demo_fails_with_change":True,"demo_passes_without_change":True,
   "how":"scripts/seed_verify.sh in a scratch worktree of /repo (git apply, go build ./..., scripts/baseline_check.sh on the touched/importing packages, demo run with and without the change)"},
 "check_verdict":verdict,"detected_by":by}
json.dump(meta,open(f"{dst}/meta.json","w"),indent=1)
print("kept",dst)
