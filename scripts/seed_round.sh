#!/bin/bash
# usage: seed_round.sh <seed dir tag e.g. C13b> <vN> "<pkgs>" <props...> : verify a seed and run the given checks against it
T=$1; V=$2; PK=$3; shift 3
SD=/tmp/seedwork/$T/SEED_OUT
W=${W:-/tmp/scratch}; VT=${VT:-/tmp/vtest}; BIN=${BIN:-/verif/.build/bngvet}; export W
cd $W && git checkout -q -- . && git clean -fdq && git checkout -q --detach $(git -C /repo rev-parse HEAD)
echo "=== $T $V: $(grep -h '^+++ b/' $SD/$V.patch | sed 's|+++ b/||' | tr '\n' ' ')"
/verif/scripts/seed_verify.sh $SD $V $PK 2>&1 | tail -1
for p in "$@"; do $BIN -prop $p -repo $W -verif $VT 2>&1 | grep -E "^  key|quick:" | cut -c1-230 | (head -4; tail -1); done
cd $W && git checkout -q -- . && git clean -fdq
