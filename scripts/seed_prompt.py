#!/usr/bin/env python3
"""usage: seed_prompt.py Cxx tag  -> creates worktree /tmp/seedwork/<Cxx><tag> of /repo HEAD and prints the agent prompt"""
import json,sys,subprocess,os
pid,tag=sys.argv[1],sys.argv[2]
wt=f"/tmp/seedwork/{pid}{tag}"
if not os.path.exists(wt):
    subprocess.check_call(["git","-C","/repo","worktree","add","-q","--detach",wt,"HEAD"])
p=[json.loads(l) for l in open('/verif/properties.jsonl') if json.loads(l)['id']==pid][0]
anch=p['anchors']
print(f"""You are helping evaluate a verification effort for the Go project codelaboratoryltd/bng (a broadband network gateway: PPPoE/LCP/IPCP state machines, DHCPv4/v6 servers, RADIUS accounting, IP/NAT allocators, HA sync, eBPF/XDP fast path). Your job is to act as a *bug seeder*: produce a realistic, subtle source change that BREAKS the property below while the code still compiles and the existing test suite still passes.

You have your own scratch git worktree of the repository at {wt} (detached HEAD). Work ONLY there. Never touch /repo or /verif and do not read anything under /verif.

## The property (id {pid}): {p['title']}
{p['statement']}

Quantified over: {p['quantifier']['text']}
Why the existing tests cannot settle it: {p['why_tests_cant']}
Code the property is anchored in: {', '.join(anch['files'])}
Mechanisms meant to make it hold: {'; '.join(m.get('name','')+' @ '+m.get('where','') for m in anch['mechanism'])}

## What to produce
Produce TWO independent changes (variant 1 and variant 2), each a small, realistic edit to non-test source files of the repository (Go files under pkg/ or cmd/, or C files under bpf/) such that:
 1. the repository still builds (`go build ./...` and `go vet` are irrelevant, but `go test -count=1 -run '^$' ./...` must compile everything);
 2. every test of the existing suite that passes on the unchanged tree still passes with the change (run at least the tests of every package you touched and of packages that import it; note a few tests in pkg/routing and pkg/ha fail on the unchanged tree already — ignore those);
 3. the property above is violated by the changed code;
 4. the violation needs something SPECIFIC to manifest — a particular interleaving, a crash/fault at a particular point, a multi-step sequence of operations, an unusual input, or two cooperating sites that each look fine alone — NOT something ordinary use or a casual smoke test would expose at once. Think of the kind of regression a tired maintainer could plausibly introduce in a refactor or "optimisation" and that would survive code review.
 The two variants should break the property in *different ways / at different places* (e.g. one in a parser or guard, one in lifecycle/cleanup or ordering), not be cosmetic variations of each other.
For each variant also write a DEMONSTRATION: a new Go test file (placed inside the relevant package directory of the worktree, named zz_seed_demo_vN_test.go) or a small standalone program, which FAILS (or panics/hangs with a timeout) with the change applied and PASSES on the unchanged tree. For C/eBPF changes under bpf/, a demonstration can be a small host program: clang 14 and gcc are installed but there are NO libbpf/bpf headers, so you would need your own stub headers to compile the C functions natively; if that is impractical, instead pick changes on the Go side of the property.

## Environment (offline sandbox — nothing can be downloaded)
Before any go command run:  export PATH=/root/go/pkg/mod/golang.org/toolchain@v0.0.1-go1.25.0.linux-amd64/bin:$PATH GOTOOLCHAIN=local GOFLAGS=-mod=mod GOPROXY=off GOSUMDB=off
(env does not persist between shell calls). `go test -count=1 ./pkg/<x>/` runs one package; the full suite takes ~90 s with `go test -count=1 ./...`.

## Deliverables — write them under {wt}/SEED_OUT/ (create it):
 - v1.patch and v2.patch: `git diff` of ONLY the source change of each variant (no demo file in the patch), each made against the clean HEAD of the worktree (i.e. variant 2 does not include variant 1). Make sure each applies cleanly with `git apply` to a clean checkout.
 - v1_demo/ and v2_demo/: the demonstration file(s) for each variant, plus a one-line `RUN.txt` giving the exact command to run it from the worktree root (e.g. `cp SEED_OUT/v1_demo/zz_seed_demo_v1_test.go pkg/dhcp/ && go test -count=1 -run TestSeedDemoV1 ./pkg/dhcp/`).
 - NOTES.md: for each variant: what was changed and why it breaks the property, what specific circumstance it needs to manifest, and the commands you ran with their outcome (build ok; which package tests were run and passed with the change; demo fails with change; demo passes without).
NEVER use `git stash` (the stash is shared between worktrees of one repository and other people are working in sibling worktrees); to get back to a clean tree use `git diff > file` and `git checkout -- .`.
Leave the worktree's tracked files CLEAN at the end (git checkout -- . ; remove copied demo tests), keeping only SEED_OUT/.
Verify everything you claim by actually running it. Report back a short summary (files written, and for each variant one sentence on the change).""")
