#!/usr/bin/env python3
"""Regenerates /verif/MANIFEST.json from the table below (single source of truth for claimed checks)."""
import json
BASE_CMD = "for m in $(cat /w/out/gomods.txt); do MF=$(cd /repo/$m && . /w/out/goenv.sh && gomodflag); (cd /repo/$m && go test $MF -json -vet=off -count=1 -timeout 25m ./...); done"
CHECKS = {
 "C09": dict(
  text="Static bounds/loop-progress proof obligations: every index, slice, make, integer division, unchecked type assertion, explicit panic and loop in every module function reachable (VTA call graph) from the network-facing decoders must be implied by dominating branch facts in a linear-form abstract domain (Fourier-Motzkin refutation, interprocedural parameter ranges), or be listed in triage/C09.txt with a reason. Decides absence of out-of-range panics and non-advancing parse loops on the analysed sites for all inputs; does not decide nil dereferences in general, panics inside third-party decoders, or the linear time bound beyond strict loop progress.",
  note="Trusted: go/ssa's model of the program, the VTA call graph's completeness for reachability, the hand-written axioms for library calls (Read* counts, copy/min/len, regexp submatch counts, To4), and the triaged sites confirmed by reading (triage/C09.txt).",
  tech="static analysis: SSA dataflow with a linear-inequality abstract domain (bounds-check proving) + loop-progress rule",
  ref="DESIGN.md §2 C09, §1.3 E7"),
 "C15": dict(
  text="Dominance, who-may-call and value-provenance rules on the SSA form of the CoA listener: handler invocations and sends are dominated by a successful authenticator check and unreachable otherwise; the check hashes code|id|len, 16 zero bytes, attributes, secret and compares all 16 bytes; 20 <= length <= n is proved before verification; the response carries the request identifier, a response authenticator over the request authenticator, and goes to the request's source address; handlers see only attributes parsed from the verified bytes. These are necessary structural conditions of the behaviour; MD5 arithmetic and 'for all secrets' are not decided.",
  note="Trusted: go/ssa, crypto/md5 semantics, the VTA call graph for the who-may-call rule.",
  tech="static analysis: dominator/branch-fact rules, call-graph who-may-call, hash-input shape and parameter-chain provenance on go/ssa",
  ref="DESIGN.md §2 C15"),
 "C11": dict(
  text="The transition relation of the LCP, IPCP and IPv6CP automata is extracted from the source by a finite-domain disjunctive dataflow analysis (property simulation: automaton state x guard atoms x actions; same-receiver calls summarised) for every (entry point, pre-state) pair and checked, exhaustively over the extracted relation, against the invariants the property states: Opened entered only on mutual acknowledgement, every renegotiation/terminate/down event leaves Opened, both acknowledgements are fresh (a re-sent request or a Nak'd request cannot coexist with a state asserting the acknowledgement), stale identifiers have no effect, replies echo the request identifier, option lists repeat received options unchanged, restart-counter discipline, dispatch table, sibling agreement. Timer-versus-packet races and option byte contents are not decided.",
  note="Trusted: go/ssa; the over-approximation treats unknown conditions as both-ways and callbacks (onStateChange, sendPacket) as not re-entering the automaton.",
  tech="static analysis: finite-domain disjunctive dataflow (property simulation) over go/ssa extracting the FSM transition relation; dominance/provenance rules for option lists",
  ref="DESIGN.md §2 C11, §1.3 E4"),
 "C14": dict(
  text="The FailoverController's transition relation over (failover state, role) is extracted by the same finite-domain disjunctive dataflow for every entry point (health events, timer callbacks, periodic evaluation, operator commands) x pre-configuration, labelled with guard atoms (event type, callback outcome, partner health) and actions (callback invoked and for which role, events emitted, timers armed/stopped and with which configured delay), and checked exhaustively over the relation: role changes only after a successful callback for that role; exactly the promoting paths emit 'completed'; Pending is entered only by partner-down on a standby in Normal with the failover timer armed for FailoverDelay, recovery cancels it and the timer callback re-tests the state; failback only on a path where the health monitor reported the partner healthy; no entry point returns in the in-progress state. Real-time durations and flapping schedules are not decided.",
  note="Trusted: go/ssa; callbacks and event handlers are assumed not to re-enter the controller; time.AfterFunc fires after the given delay.",
  tech="static analysis: finite-domain disjunctive dataflow (property simulation) over go/ssa extracting the controller's transition relation",
  ref="DESIGN.md §2 C14"),
 "C16": dict(
  text="For each modelled termination function (DHCPv4 release/decline/expiry, PPPoE PADT / LCP terminate / idle sweep / teardown.cleanup, subscriber TerminateSession, DHCPv6 release) a finite-domain disjunctive dataflow over its SSA (same-package callees summarised, goroutine closures scanned; guards on the resource's own handle recorded as atoms, every other condition explored both ways) yields the exit configurations; in every configuration that claimed the session, each resource establishment can acquire (address, NAT block, QoS policy, MAC/VLAN/circuit-id fast-path entries, secondary indexes, Accounting-Stop) must have been released or its handle shown absent; releases happen only on claiming paths; the claim's lookup and removal are one critical section (or a test-and-set claim flag); other termination entry points must reach a modelled function. Decides the release matrix on all paths of those functions; does not decide idempotence of the callee releases or interleavings beyond claim atomicity.",
  note="Trusted: go/ssa; the resource table in engines/c16.go (acquire/release pairs and handle guards confirmed by reading); callbacks registered elsewhere are checked only where listed (onExpire).",
  tech="static analysis: path-sensitive finite-domain dataflow (property simulation) for must-release on all claiming paths + lock-hold (must-held) analysis for claim atomicity + call-graph reachability",
  ref="DESIGN.md §2 C16, §1.3 E5"),
 "C07": dict(
  text="Source-level memory safety and pass-unmodified for all 7 eBPF programs (bpf/*.c parsed by clang -fsyntax-only with shim headers; abstract interpretation of clang's AST, helpers inlined, constant loops unrolled): every load/store through a packet-derived pointer is covered by a dominating data_end comparison establishing offset+size <= data_end (linear forms with opaque symbols, e.g. 14+vlan+4*ihl+8), stack buffers and map values stay inside their object, looked-up map values are NULL-tested before use; every return is a defined verdict constant, loops have constant trip counts, no packet access after bpf_xdp_adjust_tail; a pass verdict is returned only with the frame unmodified, per-program write policy (dhcp: no store on any XDP_PASS path; antispoof/qos/hairpin: no frame store at all; nat44: stores only after the subscriber_nat / nat_sessions lookup succeeded). Not decided: helper internals, alignment, verifier limits, semantics of what is written.",
  note="Trusted: clang 14 parser/constant evaluator for the AST and record layouts; shim stand-ins for libbpf headers (/verif/tools/cshim); linux UAPI headers of the sandbox.",
  tech="static analysis: abstract interpretation over clang's JSON AST (linear-form packet-bounds domain, Fourier-Motzkin entailment), may-write set per return",
  ref="DESIGN.md §2 C07, §1.3 E2"),
 "C08": dict(
  text="Structural clauses of accounting reliability decided on the SSA of the accounting manager and RADIUS client: persist-before-stop ordering; every failed SendAccounting on every path reaches the retry queue with the same request (path-sensitive finite-domain dataflow); after a failed send nothing persisted is removed before the pending queue is written to disk (first-on-all-paths rule); queued requests are never rewritten; the recovery routine always reaches the pending reload; the retry processor drops a record only on success or exhausted budget; Start only after registration with duplicate ids refused; low-word/gigaword split and attribute-to-field table; like-named field provenance of every AcctRequest literal. These are necessary conditions; crash-point enumeration, retry timing and eventual delivery are not decided.",
  note="Trusted: go/ssa; os.WriteFile durability; the attribute/field table in engines/c08.go. Two durability findings in the recovery routine are known findings (repair blocked by an existing test).",
  tech="static analysis: must-precede / first-on-all-paths CFG rules, path-sensitive error-discipline dataflow, value-shape and field-provenance tables on go/ssa",
  ref="DESIGN.md §2 C08"),
 "C01": dict(
  text="Structural necessary conditions of address uniqueness checked for every pool implementation the property names (bitmap, epoch/lease, DHCPv4, DHCPv6 address and prefix, PPPoE, peer-local, in-memory store): lockset (every access to pool state holds the pool's mutex; helpers through all their callers), check-then-act atomicity (each owner-map insert is dominated by a lookup miss made under the same uninterrupted lock hold), forward/reverse maps updated together on every path, and a take-from-free witness for each bind (bit test, generation-free test with unconditional sweep of expired owners, or pop from the free list). The hash-based central allocator has no witness (known finding). Not decided: uniqueness over histories when the witness itself is wrong (2-bit epoch wrap), index/address arithmetic, hash collisions beyond 'there is no witness'.",
  note="Trusted: go/ssa, the must-held lock analysis (lock identity by access path), the per-type tables in engines/c01.go. UnmarshalJSON is exempt from the lockset (restores an unshared object).",
  tech="static analysis: lockset (must-held locks, interprocedural helper rule), dominance-based check-then-act and witness rules, must-pass-through pairing on go/ssa",
  ref="DESIGN.md §2 C01, §1.3 E6"),
 "C05": dict(
  text="Structural clauses of 'pools neither leak nor miscount' on the pool implementations: the bitmap allocator's counter changes exactly where a bit flips under a clear/set witness (both directions, every path); list pools compute their statistics from len() of the live structures and keep no separate usage counter; a release appends to the free list exactly the value it removed from the owner map, in the same region and only when the key was found; an in-memory acquire followed by a failing store write is released on that path (path-sensitive dataflow), a release removes the store record before freeing memory, and both halves run under one hold of the allocator's lock; lease tables that stamp an expiry have a reader reachable from Start. The 2-bit generation wrap, grace arithmetic and float utilisation are numeric and not decided.",
  note="Trusted: go/ssa, math/big semantics of SetBit/Bit/Add/Sub, the per-type tables. DHCPv6 leases have no expiry reader (known finding).",
  tech="static analysis: dominance witnesses, must-pass-through pairing, path-sensitive rollback dataflow and lock-hold analysis on go/ssa",
  ref="DESIGN.md §2 C05, §1.3 E6"),
 "C12": dict(
  text="Structural clauses of 'allocations survive restart and replication unchanged': provenance (on reload and on a remote announcement every allocator-mutating call takes the prefix parsed from the record), examined results of applying announcements, store/memory ordering, rollback and single critical section for allocate/release, identical MarshalJSON/UnmarshalJSON field sets and restoration of every field the query methods read, eviction of the reverse index when a record moves. Enumeration-order effects beyond the provenance rule and crash points are not decided.",
  note="Trusted: go/ssa, encoding/json struct-tag semantics. Lease-mode reload/remote-apply ignore the recorded address and one apply error is discarded (3 known findings).",
  tech="static analysis: value-provenance (def-use) rules, error-discipline, path-sensitive rollback dataflow, type-level comparison of serialisation structs on go/ssa + go/types",
  ref="DESIGN.md §2 C12"),
 "C20": dict(
  text="Structural clauses of key uniqueness for the key tables the property names (VLAN allocator, QinQ mapper, PPPoE session manager, subscriber manager, state store, in-memory allocation store, DHCP lease tables, circuit-id keys): lockset; path-sensitive bijection rule for forward/reverse maps (insert both, delete both or reverse shown absent, eviction on overwrite); an insert into an identity/reverse index is dominated by a lookup of that key in that index or the key comes from the type's free search, or every delete of the index is identity-guarded; the key field is not rewritten between check and insert; recorded VLAN tags come from the range-bounded search or are compared with the configured range; a key is not released after its new entry was inserted; lossy derived keys (hash, 32-byte truncation) are written only after a collision check. Id wrap-around arithmetic and hash collision probability are not decided.",
  note="Trusted: go/ssa, the must-held lock analysis, the per-type tables in engines/c20.go. 14 unguarded index inserts (generic state store, subscriber by-IP index, truncated circuit-id key) are known findings.",
  tech="static analysis: lockset, path-sensitive finite-domain dataflow for map pairing, dominance-based guarded-insert / range / ordering rules on go/ssa",
  ref="DESIGN.md §2 C20, §1.3 E6"),
 "C10": dict(
  text="Structural clauses of 'CGNAT port blocks never overlap and are always attributable' on nat.Manager and nat.Logger: the block index multiplied by the block size is an index of a free-slot table found free, marked used on success and cleared by the release path, never a field that a release decrements; PortEnd = PortStart + size - 1, per-address capacity = floor(range/size) and the slot table has that many entries; the existence check and the insert form one continuous lock hold; every path that inserts/removes an allocation reaches LogAllocation/LogDeallocation (when a logger is set) with that allocation's own fields (path-sensitive dataflow); log entries copy like-named fields; flushed log buffers are detached from the live buffer. Overlap over histories beyond these causes and the semantics of log completeness are not decided.",
  note="Trusted: go/ssa, the must-held lock analysis. Two genuine defects (slot from live counter, check-then-act) were repaired by fix: commits.",
  tech="static analysis: value-provenance of the block index, shape rules on SSA arithmetic, lock-hold analysis, path-sensitive must-log dataflow",
  ref="DESIGN.md §2 C10"),
 "C02": dict(
  text="Structural necessary conditions of 'one address or prefix is never bound to two DHCP clients' on pkg/dhcp and pkg/dhcpv6: the client-named address in a REQUEST is stored/acknowledged only where it equals the existing lease's address or addressOfferedTo held (provenance/dominance); every NAK is returned at once; DECLINE quarantines only the declining client's own leased address and quarantine removes it from owner map and free list; a DHCPv6 DECLINE does not put the address back into the free pool (known finding: it does); v6 bindings are keyed by the message's Client-ID DUID; OFFER addresses come from the client's lease or an allocator; the pool is handed the lease's own address on release/expiry, never a request field; once the v6 expiry stamp is consulted, every binding-recording path stamps it; free lists exclude network/broadcast/gateway. Together with C05 (conservation, lockset, put-back) and C20. Not decided: clock skew, restart reloads, external Nexus allocator behaviour.",
  note="Trusted: go/ssa and VTA call graph; Nexus/HTTP allocator hands out unique addresses (external).",
  tech="static analysis: provenance/taint and dominance rules on go/ssa, store-shape rules, conditional completeness rule",
  ref="DESIGN.md §2 C02"),
 "C04": dict(
  text="The PPPoE server's per-session handlers are analysed by finite-domain disjunctive dataflow over (session state x authenticated flag) for every pre-configuration allowed by the invariant: no handler leaves a session Established, takes a client address from the pool, or sends an IPCP packet in a configuration whose authenticated flag is false; the flag is stored only from this exchange's RADIUS verdict (value provenance through the phi of the && chain; constant true only with no RADIUS client); in the session-frame and PADT handlers every use of the looked-up session is dominated by bytes.Equal(source MAC, session.ClientMAC). CHAP arithmetic and timing are not decided.",
  note="Trusted: go/ssa; RADIUS library semantics of AuthResponse.Accepted. Both C04 gaps of the original tree (no IPCP gate, no owner-MAC check) were repaired by fix: commits.",
  tech="static analysis: finite-domain disjunctive dataflow (property simulation) over session state/flag + value-provenance and dominance rules on go/ssa",
  ref="DESIGN.md §2 C04"),
 "C13": dict(
  text="Structural clauses of standby convergence on ha.HASyncer: the stream handler tests every declared message type and, for every well-formed message, reaches the dispatch and the per-session loop, applying add/update with PutSession and delete with DeleteSession of the message's own session (path-sensitive dataflow: no decoded change is dropped before it is applied); a full synchronisation deletes store sessions absent from the snapshot; messages are applied synchronously in read order and the active takes the sequence number before enqueueing into a single-consumer queue; an overflowing client is disconnected (closed and deregistered), not skipped; the client registry key is the connection's remote address. The window between full sync and stream attach, TCP/HTTP behaviour and schedules are not decided.",
  note="Trusted: go/ssa; net/http delivers r.RemoteAddr unique per connection; the SessionStore implementation. Two genuine defects (snapshot not replacing, silent drop) were repaired by fix: commits.",
  tech="static analysis: path-sensitive finite-domain dataflow for must-apply, exhaustiveness over declared constants, effect rules (no go/send), value-provenance of the registry key",
  ref="DESIGN.md §2 C13"),
 "C17": dict(
  text="Structural premises of cluster-wide owner agreement on pool.PeerPool: the score of a (subscriber, node) pair is a pure function of the pair (effect analysis below rendezvousHash/rendezvousRanked/hashCombine/hashString: no package state, receiver, map iteration, clock, randomness or I/O), from which order-independence and minimal disruption of highest-random-weight hashing follow; every store to the peer list keeps it sorted and duplicate-free (growth re-sorted and guarded by a membership scan, removal by order-preserving splice, constructor sorts first); getHealthyOwner ranks with rendezvousRanked over the peer list, walks it from the top and returns the first element that is local or not known unhealthy, local only as the final fallback; owner lookup and allocation score with the same function; Allocate/Release touch the local pool only under owner == local node. Ties on equal 64-bit scores, distribution quality and end-to-end HTTP are not decided.",
  note="Trusted: go/ssa; hash/fnv and sort are deterministic; the minimal-disruption law is argued from purity, not checked numerically.",
  tech="static analysis: effect/purity analysis over the call graph, store-shape rules, dominance rules on go/ssa",
  ref="DESIGN.md §2 C17, §1.3 E9"),
}
NA = {}
def main():
    checks=[]
    for pid in sorted(CHECKS):
        c=CHECKS[pid]
        checks.append({
         "property_id":pid,"quick_cmd":f"./bin/check {pid} quick","thorough_cmd":f"./bin/check {pid} thorough",
         "evidence_file":f"evidence/{pid}.json","replay_cmd_template":"cat {path}","engine":"bngvet",
         "level_claimed":{"category":"other","text":c["text"],"design_ref":c["ref"]},
         "level_note":c["note"],"technique":c["tech"]})
    na=[]
    for i in range(1,21):
        pid="C%02d"%i
        if pid in CHECKS: continue
        na.append({"property_id":pid,"reason":NA.get(pid,"check not built yet in this round (static rules planned in DESIGN.md §2 %s); listed here until its engine is committed"%pid)})
    m={"version":1,"setup_cmd":"./bin/check --build",
       "hooks":{"guard":"verif","enable":"none needed: the checks are static analyses of /repo's working tree and build nothing with hooks","baseline_off_cmd":BASE_CMD,"source_commits":[],"add_only":True},
       "engines":[{"name":"bngvet","path":"tools/cmd/bngvet","serves_properties":sorted(CHECKS),"kind_free_text":"custom static analyser over go/packages + go/ssa + VTA call graph (x/tools v0.29.0) and clang's typed AST for bpf/*.c; one engine per property under tools/engines"}],
       "checks":checks,"not_applicable":na,
       "notes":"Every check inspects /repo's current source on each run (nothing is executed). Known genuine defects are listed in known_findings.txt (printed as KNOWN-FINDING, exit 0); repaired ones are recorded there as fixed:."}
    json.dump(m,open('/verif/MANIFEST.json','w'),indent=1)
main()
